(* Model/Demux.v — src/demultiplex.rs: Filters, FilterChangeset, PatProcessor, PmtProcessor,
   Demultiplex::push (after fix F6).  Panic sites 400-449. *)
From TS Require Import Base.Res Model.Timestamp Model.Packet Model.PacketObs Model.Pes Model.PesObs
  Model.Descriptor Model.Tables Model.TablesObs Model.PesFilter Model.Crc Model.Psi.
Open Scope N_scope.

(* ---- what the application is asked for, and what it answers ---- *)
Inductive request :=
| RqByPid (pid : N)
| RqByStream (program_pid stream_type es_pid : N) (obs : list N)   (* obs: what the application saw of pmt / stream_info *)
| RqPmt (pid program_number : N)
| RqNit (pid : N).

(* the kinds of PacketFilter the recording application builds *)
Inductive hkind :=
| KPat | KPmt (pid program_number : N) | KPes | KRec | KScript (script : N).

(* sorted, duplicate-free list of PIDs standing for a FixedBitSet of capacity 8192 *)
Fixpoint bs_insert (x : N) (l : list N) : list N :=
  match l with
  | [] => [x]
  | y :: r => if x <? y then x :: l else if x =? y then l else y :: bs_insert x r
  end.
Definition bs_mem (x : N) (l : list N) : bool := existsb (N.eqb x) l.
Definition bs_difference (a b : list N) : list N := filter (fun x => negb (bs_mem x b)) a.
Definition BITSET_CAPACITY : N := 8192.
(* FixedBitSet::insert panics when bit >= capacity *)
Definition bs_insert_checked (x : N) (l : list N) (site : N) : res (list N) :=
  do _ <- assert (x <? BITSET_CAPACITY) site; Ok (bs_insert x l).

Record pat_state := { pat_registered : list N }.
Record pmt_state := { pmt_pid : N; pmt_program_number : N; pmt_registered : list N }.

Definition pat_cfg : chain_cfg := {| cf_compact := false; cf_dedup := true; cf_crc := true; cf_fuzzing := false |}.
Definition table_cfg (fuzzing : bool) : chain_cfg :=
  {| cf_compact := false; cf_dedup := true; cf_crc := true; cf_fuzzing := fuzzing |}.

(* scripted handler (C18): on its n-th packet it queues the n-th list of actions *)
Inductive action := AInsert (pid : N) (k : hkind) | ARemove (pid : N).

Inductive handler :=
| HPat (serial : N) (c : chain pat_state)
| HPmt (serial : N) (c : chain pmt_state)
| HPes (serial : N) (f : pes_filter)
| HRec (serial : N)
| HScript (serial : N) (script : N) (count : nat).

Definition handler_serial (h : handler) : N :=
  match h with HPat s _ | HPmt s _ | HPes s _ | HRec s | HScript s _ _ => s end.

Inductive change := ChInsert (pid : N) (h : handler) | ChRemove (pid : N).

(* the DemuxContext: queued changes (FIFO) and the application's construction counter *)
Record ctx := { cx_changes : list change; cx_serial : N }.

Inductive event :=
| EvConstruct (serial : N) (rq : request)            (* DemuxContext::construct called; its answer gets this serial *)
| EvPacket (serial : N) (index : N) (obs : list N)  (* a recording / scripted handler consumed packet #index *)
| EvEs (serial : N) (index : N) (e : es_event) (obs : list N). (* elementary stream call-back while processing packet #index *)

Section Demux.
Variable policy : request -> hkind.
Variable scripts : N -> nat -> list action.      (* script id, invocation number -> actions *)
Variable fuzzing : bool.                         (* cfg(fuzzing): CRC comparison bypassed *)
Variable deep : bool.                            (* the application calls every accessor of what it is handed *)

Definition mk_handler (k : hkind) (s : N) : handler :=
  match k with
  | KPat => HPat s (chain_init {| pat_registered := [] |})
  | KPmt pid pn => HPmt s (chain_init {| pmt_pid := pid; pmt_program_number := pn; pmt_registered := [] |})
  | KPes => HPes s pes_filter_new
  | KRec => HRec s
  | KScript id => HScript s id 0
  end.

(* ctx.construct(req) *)
Definition construct (cx : ctx) (rq : request) : ctx * handler * list event :=
  let s := cx_serial cx in
  ({| cx_changes := cx_changes cx; cx_serial := s + 1 |}, mk_handler (policy rq) s, [EvConstruct s rq]).

Definition queue (cx : ctx) (c : change) : ctx :=
  {| cx_changes := cx_changes cx ++ [c]; cx_serial := cx_serial cx |}.

(* remove_outdated(ctx, pids_seen): Remove for every registered pid not seen, ascending *)
Fixpoint queue_removes (cx : ctx) (pids : list N) : res ctx :=
  match pids with
  | [] => Ok cx
  | p :: r => do pid <- pid_new p; queue_removes (queue cx (ChRemove pid)) r
  end.

(* ---- PatProcessor ---- *)
Fixpoint pat_entries (cx : ctx) (seen registered : list N) (progs : list program_descriptor)
  : res (ctx * list N * list N * list event) :=
  match progs with
  | [] => Ok (cx, seen, registered, [])
  | d :: r =>
      let rq := match d with PdProgram pn pid => RqPmt pid pn | PdNetwork pid => RqNit pid end in
      let '(cx1, h, ev) := construct cx rq in
      let cx2 := queue cx1 (ChInsert (pd_pid d) h) in
      do seen' <- bs_insert_checked (pd_pid d) seen 401;
      do reg' <- bs_insert_checked (pd_pid d) registered 402;
      do rest <- pat_entries cx2 seen' reg' r;
      let '(cx3, s3, r3, ev3) := rest in
      Ok (cx3, s3, r3, ev ++ ev3)
  end.

(* <PatProcessor as WholeSectionSyntaxPayloadParser>::section + new_table *)
Definition pat_section (ps : pat_state) (cx : ctx) (h : common_header) (tsh data : list N) (origin : option nat)
  : res (pat_state * ctx * list event) :=
  let start := (SCH_SIZE + TSH_SIZE)%nat in
  do end_ <- usub (length data) 4 403;
  do body <- slice data start end_ 404;
  if negb (ch_table_id h =? 0) then Ok (ps, cx, [])
  else
    do progs <- pat_programs body;
    do r <- pat_entries cx [] (pat_registered ps) progs;
    let '(cx1, seen, reg, ev) := r in
    do cx2 <- queue_removes cx1 (bs_difference reg seen);
    Ok ({| pat_registered := seen |}, cx2, ev).

(* ---- PmtProcessor ---- *)
Fixpoint pmt_entries (program_pid : N) (pmt_data : list N) (cx : ctx) (seen registered : list N) (ss : list stream_info)
  : res (ctx * list N * list N * list event) :=
  match ss with
  | [] => Ok (cx, seen, registered, [])
  | s :: r =>
      do st <- si_stream_type s;
      do epid <- si_elementary_pid s;
      do o <- (if deep then do a <- obs_pmt_section pmt_data; do b <- obs_stream s; Ok (a ++ b)
               else do pcr <- pmt_pcr_pid pmt_data; Ok [pcr]);
      let '(cx1, h, ev) := construct cx (RqByStream program_pid st epid o) in
      do epid2 <- si_elementary_pid s;
      let cx2 := queue cx1 (ChInsert epid2 h) in
      do seen' <- bs_insert_checked epid2 seen 405;
      do reg' <- bs_insert_checked epid2 registered 406;
      do rest <- pmt_entries program_pid pmt_data cx2 seen' reg' r;
      let '(cx3, s3, r3, ev3) := rest in
      Ok (cx3, s3, r3, ev ++ ev3)
  end.

Definition pmt_section (ps : pmt_state) (cx : ctx) (h : common_header) (tsh data : list N) (origin : option nat)
  : res (pmt_state * ctx * list event) :=
  let start := (SCH_SIZE + TSH_SIZE)%nat in
  do end_ <- usub (length data) 4 407;
  do body <- slice data start end_ 408;
  do sect <- pmt_from_bytes body;
  match sect with
  | RErr _ => Ok (ps, cx, [])
  | ROk sd =>
      if negb (ch_table_id h =? 2) then Ok (ps, cx, [])
      else
        do ss <- pmt_streams sd;
        do r <- pmt_entries (pmt_pid ps) sd cx [] (pmt_registered ps) ss;
        let '(cx1, seen, reg, ev) := r in
        do cx2 <- queue_removes cx1 (bs_difference reg seen);
        Ok ({| pmt_pid := pmt_pid ps; pmt_program_number := pmt_program_number ps; pmt_registered := seen |}, cx2, ev)
  end.

(* ---- the handlers' PacketFilter::consume ---- *)
(* what the elementary-stream consumer notes about a call-back made while packet [index] (byte offset
   of the packet in the whole input) is processed: for begin_packet always the kind of contents and
   the payload range the header exposes; with [deep] every accessor of the header *)
Definition es_obs (index : N) (e : es_event) : res (list N) :=
  match e with
  | EsBeginPacket off hb =>
      do c <- pes_contents_of hb;
      do basic <- match c with
                  | PesPayload d => Ok [2; index + n2 (off + 6); n2 (length d)]
                  | PesParsed None => Ok [0]
                  | PesParsed (Some p) => do pl <- ppc_payload p; Ok [1; index + n2 (off + 6 + fst pl); n2 (length (snd pl))]
                  end;
      do full <- (if deep then
                    do sid <- pes_stream_id hb; do len <- pes_packet_length hb;
                    match c with
                    | PesPayload d => Ok [sid; len; 2; index + n2 (off + 6); n2 (length d)]
                    | PesParsed None => Ok [sid; len; 0]
                    | PesParsed (Some p) => do o <- obs_ppc_at false index (off + 6) p; Ok (sid :: len :: 1 :: o)
                    end
                  else Ok []);
      Ok (basic ++ full)
  | _ => Ok []
  end.

Fixpoint es_events (serial : N) (index : N) (l : list es_event) : res (list event) :=
  match l with
  | [] => Ok []
  | e :: r => do o <- es_obs index e; do rest <- es_events serial index r; Ok (EvEs serial index e o :: rest)
  end.

Fixpoint queue_actions (cx : ctx) (acts : list action) : res (ctx * list event) :=
  match acts with
  | [] => Ok (cx, [])
  | AInsert pid k :: r =>
      let s := cx_serial cx in
      let cx1 := queue {| cx_changes := cx_changes cx; cx_serial := s + 1 |} (ChInsert pid (mk_handler k s)) in
      do rest <- queue_actions cx1 r; Ok (fst rest, snd rest)
  | ARemove pid :: r => do rest <- queue_actions (queue cx (ChRemove pid)) r; Ok (fst rest, snd rest)
  end.

Definition handler_consume (hd : handler) (cx : ctx) (index : N) (pk : pkt) : res (handler * ctx * list event) :=
  match hd with
  | HPat s c =>
      (* the application wraps the table filters too, so that the trace shows every dispatched packet *)
      do r <- spc_consume (table_cfg fuzzing) pat_state ctx event pat_section c cx pk;
      Ok (HPat s (fst (fst r)), snd (fst r), EvPacket s index [] :: snd r)
  | HPmt s c =>
      do r <- spc_consume (table_cfg fuzzing) pmt_state ctx event pmt_section c cx pk;
      Ok (HPmt s (fst (fst r)), snd (fst r), EvPacket s index [] :: snd r)
  | HPes s f =>
      (* the application wraps the PES filter so that it sees which packet is being consumed *)
      do r <- pf_consume f pk;
      do ev <- es_events s index (snd r);
      Ok (HPes s (fst r), cx, EvPacket s index [] :: ev)
  | HRec s =>
      do o <- (if deep then obs_packet pk else Ok []);
      Ok (HRec s, cx, [EvPacket s index o])
  | HScript s id n =>
      do r <- queue_actions cx (scripts id n);
      Ok (HScript s id (S n), fst r, EvPacket s index [] :: snd r)
  end.

(* ---- Filters: Vec<Option<F>> indexed by PID, represented by its length and its occupied slots ---- *)
Record filters := { f_len : N; f_slots : list (N * handler) }.
Definition filters_empty : filters := {| f_len := 0; f_slots := [] |}.

Fixpoint assoc (l : list (N * handler)) (k : N) : option handler :=
  match l with [] => None | (k', v) :: r => if k' =? k then Some v else assoc r k end.
Fixpoint assoc_remove (l : list (N * handler)) (k : N) : list (N * handler) :=
  match l with [] => [] | (k', v) :: r => if k' =? k then assoc_remove r k else (k', v) :: assoc_remove r k end.

Definition filters_get (fs : filters) (pid : N) : option handler :=
  if pid <? f_len fs then assoc (f_slots fs) pid else None.
Definition filters_contains (fs : filters) (pid : N) : bool :=
  match filters_get fs pid with Some _ => true | None => false end.

(* self.filters_by_pid[pid] = v, for pid < len *)
Definition set_slot (fs : filters) (pid : N) (v : option handler) : filters :=
  {| f_len := f_len fs;
     f_slots := match v with Some h => (pid, h) :: assoc_remove (f_slots fs) pid | None => assoc_remove (f_slots fs) pid end |}.

(* Filters::insert: `for _ in 0..=diff { push(None) }` (diff = pid - len >= 0) then index assignment *)
Definition filters_insert (fs : filters) (pid : N) (h : handler) : res filters :=
  let len' := if f_len fs <=? pid then f_len fs + (pid - f_len fs + 1) else f_len fs in
  do _ <- assert (pid <? len') 409;
  Ok (set_slot {| f_len := len'; f_slots := f_slots fs |} pid (Some h)).
Definition filters_remove (fs : filters) (pid : N) : filters :=
  if pid <? f_len fs then set_slot fs pid None else fs.

(* FilterChangeset::apply: drain in order *)
Fixpoint apply_changes (fs : filters) (cs : list change) : res filters :=
  match cs with
  | [] => Ok fs
  | ChInsert pid h :: r => do fs' <- filters_insert fs pid h; apply_changes fs' r
  | ChRemove pid :: r => apply_changes (filters_remove fs pid) r
  end.

(* ---- Demultiplex ---- *)
Definition demux_new (cx : ctx) : res (filters * ctx * list event) :=
  let '(cx1, h, ev) := construct cx (RqByPid 0) in
  do fs <- filters_insert filters_empty 0 h;
  Ok (fs, cx1, ev).

(* the body of push over the packets with a good sync byte.
   [cached = Some pid]: control is inside 'inner with this_pid = pid (no new look-up);
   [cached = None]: control is at the top of 'outer. *)
Fixpoint push_loop (fs : filters) (cx : ctx) (cached : option N) (pkts : list (N * pkt))
  : res (filters * ctx * list event) :=
  match pkts with
  | [] => Ok (fs, cx, [])
  | (i, pk) :: rest =>
      do pid <- pkt_pid pk;
      let same := match cached with Some c => c =? pid | None => false end in
      do r0 <- (if same then Ok (fs, cx, [])
                else if filters_contains fs pid then Ok (fs, cx, [])
                else let '(cx1, h, ev) := construct cx (RqByPid pid) in
                     do fs1 <- filters_insert fs pid h; Ok (fs1, cx1, ev));
      let '(fs1, cx1, ev1) := r0 in
      match filters_get fs1 pid with
      | None => Panic 410                                   (* get(this_pid).unwrap() *)
      | Some hd =>
          do tei <- pkt_transport_error_indicator pk;
          if tei then
            do r <- push_loop fs1 cx1 (Some pid) rest; let '(f2, c2, e2) := r in Ok (f2, c2, ev1 ++ e2)
          else
            do tsc <- pkt_transport_scrambling_control pk;
            if tsc_is_scrambled tsc then
              do r <- push_loop fs1 cx1 (Some pid) rest; let '(f2, c2, e2) := r in Ok (f2, c2, ev1 ++ e2)
            else
              do hc <- handler_consume hd cx1 i pk;
              let '(hd', cx2, ev2) := hc in
              let fs2 := set_slot fs1 pid (Some hd') in
              match cx_changes cx2 with
              | [] =>
                  do r <- push_loop fs2 cx2 (Some pid) rest; let '(f3, c3, e3) := r in Ok (f3, c3, ev1 ++ ev2 ++ e3)
              | cs =>
                  do fs3 <- apply_changes fs2 cs;
                  let cx3 := {| cx_changes := []; cx_serial := cx_serial cx2 |} in
                  do r <- push_loop fs3 cx3 None rest; let '(f4, c4, e4) := r in Ok (f4, c4, ev1 ++ ev2 ++ e4)
              end
      end
  end.

(* buf.chunks_exact(188).filter_map(Packet::try_new), each tagged with its byte offset in the whole input *)
Fixpoint chunks (fuel : nat) (base : N) (buf : list N) : res (list (N * pkt)) :=
  match fuel with
  | O => Panic 411
  | S fuel' =>
      if Nat.ltb (length buf) PKT_SIZE then Ok []
      else
        do c <- slice_to buf PKT_SIZE 412;
        do r <- slice_from buf PKT_SIZE 413;
        do o <- pkt_try_new c;
        do rest <- chunks fuel' (base + n2 PKT_SIZE) r;
        Ok (match o with Some p => (base, p) :: rest | None => rest end)
  end.

Definition push (fs : filters) (cx : ctx) (base : N) (buf : list N) : res (filters * ctx * list event) :=
  do pkts <- chunks (S (length buf)) base buf;
  push_loop fs cx None pkts.

(* a sequence of push calls; [base] = number of bytes pushed before *)
Fixpoint pushes (fs : filters) (cx : ctx) (base : N) (bufs : list (list N)) : res (filters * ctx * list event) :=
  match bufs with
  | [] => Ok (fs, cx, [])
  | b :: r =>
      do a <- push fs cx base b;
      let '(fs1, cx1, e1) := a in
      do z <- pushes fs1 cx1 (base + n2 (length b)) r;
      let '(fs2, cx2, e2) := z in
      Ok (fs2, cx2, e1 ++ e2)
  end.

Definition run_demux (bufs : list (list N)) : res (filters * ctx * list event) :=
  do d <- demux_new {| cx_changes := []; cx_serial := 0 |};
  let '(fs, cx, e0) := d in
  do r <- pushes fs cx 0 bufs;
  let '(fs1, cx1, e1) := r in
  Ok (fs1, cx1, e0 ++ e1).
End Demux.
