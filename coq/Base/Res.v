(* Base/Res.v — result type with explicit panic sites, checked slice operations.
   Every place where the Rust code can panic (index, slice, split_at, assert!,
   unwrap, usize subtraction, range constructor) is a checked operation that
   returns [Panic site]. *)
From Coq Require Export List NArith Bool Arith.
Export ListNotations.

Inductive res (A : Type) : Type :=
| Ok (a : A)
| Panic (site : N).
Arguments Ok {A} a.
Arguments Panic {A} site.

Definition bind {A B} (r : res A) (f : A -> res B) : res B :=
  match r with Ok a => f a | Panic s => Panic s end.
Notation "'do' x <- e ; k" := (bind e (fun x => k))
  (at level 200, x pattern, e at level 100, k at level 200, right associativity).

Definition is_ok {A} (r : res A) : bool := match r with Ok _ => true | Panic _ => false end.

(* bs[i] *)
Definition idx (bs : list N) (i : nat) (site : N) : res N :=
  match nth_error bs i with Some b => Ok b | None => Panic site end.

(* &bs[from..to] *)
Definition slice (bs : list N) (from to : nat) (site : N) : res (list N) :=
  if (from <=? to) && (to <=? length bs) then Ok (firstn (to - from) (skipn from bs))
  else Panic site.

(* &bs[from..] *)
Definition slice_from (bs : list N) (from : nat) (site : N) : res (list N) :=
  if from <=? length bs then Ok (skipn from bs) else Panic site.

(* &bs[..to] *)
Definition slice_to (bs : list N) (to : nat) (site : N) : res (list N) :=
  if to <=? length bs then Ok (firstn to bs) else Panic site.

(* bs.split_at(n) *)
Definition split_at (bs : list N) (n : nat) (site : N) : res (list N * list N) :=
  if n <=? length bs then Ok (firstn n bs, skipn n bs) else Panic site.

(* a - b on usize (debug builds panic on underflow; release wraps: both are outside every spec) *)
Definition usub (a b : nat) (site : N) : res nat :=
  if b <=? a then Ok (a - b) else Panic site.

(* assert!(c) *)
Definition assert (c : bool) (site : N) : res unit :=
  if c then Ok tt else Panic site.

Definition bytes_ok (bs : list N) : Prop := Forall (fun b => (b < 256)%N) bs.
Definition bytes_okb (bs : list N) : bool := forallb (fun b => (b <? 256)%N) bs.

(* Rust's Result<A,E> as a value (distinct from [res], which tracks panics) *)
Inductive rresult (A E : Type) : Type := ROk (a : A) | RErr (e : E).
Arguments ROk {A E} a.
Arguments RErr {A E} e.

Definition rbind {A B E} (r : res (rresult A E)) (f : A -> res (rresult B E)) : res (rresult B E) :=
  match r with Panic s => Panic s | Ok (RErr e) => Ok (RErr e) | Ok (ROk a) => f a end.
Notation "'try' x <- e ; k" := (rbind e (fun x => k))
  (at level 200, x pattern, e at level 100, k at level 200, right associativity).

Definition nz (x : N) : bool := negb (N.eqb x 0).
Definition b2n (b : bool) : N := if b then 1%N else 0%N.
Definition n2 (n : nat) : N := N.of_nat n.
