//! Table histories for C05 / C10 / C11: sequences of PAT / PMT versions, repetitions, damaged
//! transmissions and probes, annotated with what was transmitted (`#H=` token) for the run-time predicates.
use crate::mux::*;
use crate::suites::streams::{dmx_case, pick_pids};
use crate::util::*;
use std::collections::BTreeMap;

#[derive(Clone)]
pub struct Pmt { pub version: u8, pub pn: u16, pub streams: Vec<(u8, u16)> }
pub struct World {
    pub ts_id: u16,
    pub pat_version: u8,
    pub progs: Vec<(u16, u16)>,                 // (program_number, pmt pid); program_number 0 = network entry
    pub pmts: BTreeMap<u16, Pmt>,               // by pmt pid
    pub pool: Vec<u16>,                         // elementary PIDs to draw from
    pub mux: Mux,
    pub notes: Vec<String>,
    pub last_pat: Vec<u8>,
    pub last_pmt: BTreeMap<u16, Vec<u8>>,
    /// PIDs no table lists any more (dropped streams, program-map PIDs of removed programs): re-used later in another role
    pub retired: Vec<u16>,
    /// versions a table had before (by table PID; 0 = PAT): a later version may return to one of them
    pub old_versions: BTreeMap<u16, Vec<u8>>,
}
const TYPES: [u8; 6] = [0x1b, 0x0f, 0x02, 0x03, 0x05, 0x86];
/// now and then a section that claims to be one of several (section_number / last_section_number other than 0 / 0): the
/// table processors treat every section as a whole table, whatever these say
fn renumber(mut s: Vec<u8>, rng: &mut Rng) -> Vec<u8> {
    if rng.chance(1, 6) { let last = rng.range(1, 3) as u8; let num = rng.below(last as u64 + 1) as u8; s[6] = num; s[7] = last;
        let n = s.len(); let c = crc32_mpeg(&s[..n - 4]); s[n - 4..].copy_from_slice(&c.to_be_bytes()); }
    s
}

impl World {
    pub fn new(rng: &mut Rng, nprog: usize, shared: bool) -> World {
        let pids = pick_pids(rng, nprog + 10);
        let mut progs = vec![];
        let mut pmts = BTreeMap::new();
        let pool: Vec<u16> = pids[nprog..].to_vec();
        let mut k = 0usize;
        for i in 0..nprog {
            let pn = (i as u16 + 1) * 3;
            progs.push((pn, pids[i]));
            let ns = rng.range(1, 3) as usize;
            let mut streams = vec![];
            for _ in 0..ns { streams.push((*rng.pick(&TYPES), pool[k % pool.len()])); k += 1; }
            if shared && i > 0 { let first: &Pmt = pmts.values().next().unwrap(); streams.push(first.streams[0]); }
            pmts.insert(pids[i], Pmt { version: rng.below(32) as u8, pn, streams });
        }
        let mut pool = pool;
        // the network PID is taken out of the pool of elementary PIDs (one PID does not carry both in a valid stream)
        if rng.chance(1, 5) { let nit = pool.pop().unwrap(); progs.push((0, nit)); }
        World { ts_id: rng.below(0x10000) as u16, pat_version: rng.below(32) as u8, progs, pmts, pool, mux: Mux::new(), notes: vec![], last_pat: vec![], last_pmt: BTreeMap::new(), retired: vec![], old_versions: BTreeMap::new() }
    }
    fn pat_section(&self, rng: &mut Rng) -> Vec<u8> { renumber(section(0, self.ts_id, self.pat_version, true, &pat_body(&self.progs, rng)), rng) }
    fn pmt_section(&self, pid: u16, big: bool, rng: &mut Rng) -> Vec<u8> {
        let p = &self.pmts[&pid];
        let mut ss: Vec<(u8, u16, Vec<u8>)> = p.streams.iter().map(|(t, e)| (*t, *e, vec![])).collect();
        if big { for s in ss.iter_mut() { s.2 = descriptor(0x80, &vec![0x55; 60]); } }   // multi-packet
        let pcr = p.streams.first().map(|s| s.1).unwrap_or(0x1fff);
        renumber(section(2, p.pn, p.version, true, &pmt_body(pcr, &[], &ss, rng)), rng)
    }
    /// the PMT of `pid` padded with private program descriptors to exactly `target` bytes (None if it cannot be done)
    fn pmt_section_sized(&self, pid: u16, target: usize, rng: &mut Rng) -> Option<Vec<u8>> {
        let p = &self.pmts[&pid];
        let ss: Vec<(u8, u16, Vec<u8>)> = p.streams.iter().map(|(t, e)| (*t, *e, vec![])).collect();
        let pcr = p.streams.first().map(|s| s.1).unwrap_or(0x1fff);
        let base = section(2, p.pn, p.version, true, &pmt_body(pcr, &[], &ss, rng)).len();
        if target < base + 2 || target > 1000 { return None; }
        let mut extra = target - base; let mut pd = vec![];
        while extra > 0 { let mut n = extra.min(257); if extra - n == 1 { n -= 1; } pd.extend(descriptor(0x81, &vec![0xAA; n - 2])); extra -= n; }
        let s = section(2, p.pn, p.version, true, &pmt_body(pcr, &pd, &ss, rng));
        assert_eq!(s.len(), target);
        Some(s)
    }
    /// `copies` repetitions of the PMT last sent on `pid`, tightly packed; the section is first re-sized so that the second
    /// copy starts with exactly `r` of its bytes in the packet (the new size is a new version: the first copy is "new")
    pub fn send_pmt_packed(&mut self, pid: u16, r: usize, copies: usize, rng: &mut Rng) {
        { let p = self.pmts.get_mut(&pid).unwrap(); p.version = (p.version + 1) & 31; }
        // first copy: 183 bytes in its start packet, then 184 per packet; the tail must leave r bytes behind it: tail = 183 - r
        let target = 183 + 184 * (rng.below(2) as usize) + (183 - r);
        let s = match self.pmt_section_sized(pid, target, rng) { Some(s) => s, None => return };
        self.last_pmt.insert(pid, s.clone());
        let d = self.pmt_desc(pid); let v = self.pmts[&pid].version;
        let sects: Vec<Vec<u8>> = (0..copies).map(|_| s.clone()).collect();
        let spans = self.mux.psi_packed(pid, &sects, rng);
        for (j, (first, last, _n)) in spans.iter().enumerate() {
            self.notes.push(format!("T|{}|{}|{}|{}|{}|{}", pid, first, last, if j == 0 { "new" } else { "rep" }, v, d));
        }
    }
    fn pat_desc(&self) -> String { self.progs.iter().map(|(n, p)| format!("{}:{}", n, p)).collect::<Vec<_>>().join(",") }
    fn pmt_desc(&self, pid: u16) -> String { let p = &self.pmts[&pid]; format!("{}/{}", p.pn, p.streams.iter().map(|(t, e)| format!("{}:{}", t, e)).collect::<Vec<_>>().join(",")) }

    /// transmit `sect` on `pid`; `damage`: 0 none, 1 bit flip(s), 2 drop a packet, 3 truncate (stop early)
    fn transmit(&mut self, pid: u16, sect: &[u8], kind: &str, ver: u8, desc: &str, damage: u64, rng: &mut Rng) {
        let first = self.mux.pkts.len();
        let mut s = sect.to_vec();
        if damage == 1 { for _ in 0..rng.range(1, 3) { let b = rng.below(s.len() as u64 * 8) as usize; s[b / 8] ^= 0x80 >> (b % 8); } }
        // 4: the section header itself is hit: section_syntax_indicator cleared, or a length above the limit
        if damage == 4 { if rng.chance(1, 2) { s[1] &= 0x7f; } else { s[1] |= 0x0f; } }
        let style = if s.len() > 150 { rng.below(3) } else { 0 };
        self.mux.psi(pid, &s, 0, style, rng);
        // payload-less packets (adaptation field only, e.g. carrying the PCR) on the table PID, inside and behind the transmission
        if damage == 0 && rng.chance(1, 4) {
            for _ in 0..rng.range(1, 2) {
                let at = first + 1 + rng.below((self.mux.pkts.len() - first) as u64) as usize;
                let mut q = Mux::new(); q.set_cc(pid, self.mux.pkts[at - 1][3] & 15); q.af_only(pid, if rng.chance(1, 2) { Some(rng.next()) } else { None }, rng);
                self.mux.pkts.insert(at, q.pkts.pop().unwrap());
            }
        }
        if damage == 5 { let pk = &mut self.mux.pkts[first]; let off = if (pk[3] >> 4) & 3 == 3 { 5 + pk[4] as usize } else { 4 }; if off < 188 { pk[off] = 200; } }
        let n = self.mux.pkts.len() - first;
        if damage == 2 && n >= 2 { let k = first + 1 + rng.below(n as u64 - 1) as usize; self.mux.pkts.remove(k); }
        if damage == 3 && n >= 2 { let keep = first + rng.range(1, n as u64 - 1) as usize; self.mux.pkts.truncate(keep); }
        if (damage == 2 || damage == 3) && n < 2 {
            // single-packet transmission (payload = pointer_field, section, 0xff stuffing, no adaptation field):
            // fall back to a bit flip inside the section bytes
            let l = self.mux.pkts.len() - 1;
            let off = 5 + rng.below(s.len().min(183) as u64) as usize;
            self.mux.pkts[l][off] ^= 1 << rng.below(8);
        }
        let last = self.mux.pkts.len().saturating_sub(1);
        self.notes.push(format!("T|{}|{}|{}|{}|{}|{}", pid, first, last, kind, ver, desc));
    }
    pub fn send_pat(&mut self, kind: &str, damage: u64, rng: &mut Rng) {
        let mut s = if kind == "rep" && !self.last_pat.is_empty() { self.last_pat.clone() } else { self.pat_section(rng) };
        if kind == "rep" && damage == 0 && rng.chance(1, 4) { s[5] ^= *rng.pick(&[0x40u8, 0x80, 0xc0]); let n = s.len(); let c = crc32_mpeg(&s[..n - 4]); s[n - 4..].copy_from_slice(&c.to_be_bytes()); }
        if damage == 0 { self.last_pat = s.clone(); }
        let d = self.pat_desc(); let v = self.pat_version;
        self.transmit(0, &s, kind, v, &d, damage, rng);
    }
    pub fn send_pmt(&mut self, pid: u16, kind: &str, damage: u64, big: bool, rng: &mut Rng) {
        let mut s = if kind == "rep" && self.last_pmt.contains_key(&pid) { self.last_pmt[&pid].clone() } else { self.pmt_section(pid, big, rng) };
        // a repetition need not be bit-identical: the reserved bits beside version_number (and the CRC with them) may differ
        if kind == "rep" && damage == 0 && rng.chance(1, 4) { s[5] ^= *rng.pick(&[0x40u8, 0x80, 0xc0]); let n = s.len(); let c = crc32_mpeg(&s[..n - 4]); s[n - 4..].copy_from_slice(&c.to_be_bytes()); }
        if damage == 0 { self.last_pmt.insert(pid, s.clone()); }
        let d = self.pmt_desc(pid); let v = self.pmts[&pid].version;
        self.transmit(pid, &s, kind, v, &d, damage, rng);
    }
    /// one packet on every PID of interest
    pub fn probes(&mut self, rng: &mut Rng) { self.probes_except(0xffff, rng) }
    /// ... except on PID `skip` (a packet on a PID without handler makes the application install one)
    pub fn probes_except(&mut self, skip: u16, rng: &mut Rng) {
        let mut pids: Vec<u16> = self.pool.iter().cloned().filter(|p| *p != skip).collect();
        for (_, p) in self.progs.iter() { pids.push(*p); }
        for p in self.pmts.keys() { if !pids.contains(p) { pids.push(*p); } }
        for pid in pids {
            let idx = self.mux.pkts.len();
            let pl = rng.bytes(184);
            self.mux.data_packet(pid, false, &pl, rng);
            self.notes.push(format!("P|{}|{}", pid, idx));
        }
    }
    /// a PES packet on an elementary PID (possibly left open so that it straddles what follows)
    pub fn pes(&mut self, pid: u16, n: usize, rng: &mut Rng) -> Vec<Vec<u8>> {
        let spec = PesSpec { stream_id: 0xe0, pts: Some(rng.below(1 << 33)), dts: None, extra_hdr: 0, bounded: false, payload: rng.bytes(n), opt_flags: 0, opt_fill: vec![0xff] };
        let (bytes, hl) = pes_packet(&spec);
        let before = self.mux.pkts.len();
        self.mux.unit(pid, &bytes, 0, hl, rng);
        self.mux.pkts.split_off(before)
    }
    pub fn bump_pat(&mut self, rng: &mut Rng) {
        let cur = self.pat_version;
        let olds = self.old_versions.entry(0).or_default();
        // a new version_number: usually the next ones, now and then one the table had before (not the current one)
        let back: Vec<u8> = olds.iter().cloned().filter(|v| *v != cur).collect();
        self.pat_version = if !back.is_empty() && rng.chance(1, 4) { *rng.pick(&back) } else { (cur + 1 + rng.below(3) as u8) & 31 };
        olds.push(cur);
        match rng.below(4) {
            0 if self.progs.iter().filter(|p| p.0 != 0).count() > 1 => { let k = rng.below(self.progs.len() as u64) as usize; if self.progs[k].0 != 0 { let gone = self.progs.remove(k);
                   if !self.progs.iter().any(|p| p.1 == gone.1) { if let Some(m) = self.pmts.remove(&gone.1) { self.last_pmt.remove(&gone.1); self.retired.push(gone.1); for s in m.streams { if !self.pmts.values().any(|x| x.streams.iter().any(|y| y.1 == s.1)) { self.retired.push(s.1); } } } } } }
            1 => { let fresh_pid = self.pool[rng.below(self.pool.len() as u64) as usize] ^ 0x1000;
                   // the new program's map PID: a fresh PID, or one that had another role earlier and is listed nowhere now
                   let pid = if !self.retired.is_empty() && rng.chance(1, 2) { let k = rng.below(self.retired.len() as u64) as usize; self.retired.remove(k) } else { fresh_pid };
                   let pn = 50 + rng.below(50) as u16;
                   let es = pid ^ 0x0800;
                   let used = |x: u16| x < 0x10 || x == 0x1fff || self.pool.contains(&x) || self.pmts.contains_key(&x) || self.progs.iter().any(|p| p.1 == x)
                                       || self.pmts.values().any(|m| m.streams.iter().any(|s| s.1 == x));
                   if !used(pid) && !used(es) {
                       self.progs.push((pn, pid)); self.pmts.insert(pid, Pmt { version: rng.below(32) as u8, pn, streams: vec![(0x1b, pid ^ 0x0800)] }); } }
            2 => { let n = self.progs.len(); if n > 1 { self.progs.swap(0, n - 1); } }
            _ => {}
        }
    }
    pub fn bump_pmt(&mut self, pid: u16, rng: &mut Rng) {
        let mut fresh = self.pool[rng.below(self.pool.len() as u64) as usize];
        if !self.retired.is_empty() && rng.chance(1, 3) { let k = rng.below(self.retired.len() as u64) as usize; let r = self.retired.remove(k);
            if r != pid && !self.pmts.contains_key(&r) && !self.progs.iter().any(|x| x.1 == r) { fresh = r; } }
        let cur = self.pmts[&pid].version;
        let olds = self.old_versions.entry(pid).or_default();
        let back: Vec<u8> = olds.iter().cloned().filter(|v| *v != cur).collect();
        let newv = if !back.is_empty() && rng.chance(1, 4) { *rng.pick(&back) } else { (cur + 1 + rng.below(3) as u8) & 31 };
        olds.push(cur);
        let others: Vec<u16> = self.pmts.iter().filter(|(k, _)| **k != pid).flat_map(|(_, m)| m.streams.iter().map(|s| s.1)).collect();
        let p = self.pmts.get_mut(&pid).unwrap();
        p.version = newv;
        match rng.below(5) {
            0 if p.streams.len() > 1 => { let k = rng.below(p.streams.len() as u64) as usize; let gone = p.streams.remove(k);
                                         if !p.streams.iter().any(|s| s.1 == gone.1) && !others.contains(&gone.1) { self.retired.push(gone.1); } }
            1 => { if !p.streams.iter().any(|s| s.1 == fresh) { p.streams.push((*rng.pick(&TYPES), fresh)); } }
            2 => { let k = rng.below(p.streams.len() as u64) as usize; p.streams[k].0 = *rng.pick(&TYPES); }
            3 => { p.streams.reverse(); }
            _ => {}
        }
    }
    /// send the current maps of `pids` with their packets interleaved (each transmission keeps its own packet order): two
    /// PIDs' section state machines advance in lock step
    pub fn send_pmts_interleaved(&mut self, pids: &[u16], kind: &str, big: bool, rng: &mut Rng) {
        let base = self.mux.pkts.len();
        let mut parts: Vec<(u16, Vec<Vec<u8>>)> = vec![];
        for &pid in pids {
            let s = if kind == "rep" && self.last_pmt.contains_key(&pid) { self.last_pmt[&pid].clone() } else { self.pmt_section(pid, big, rng) };
            self.last_pmt.insert(pid, s.clone());
            let before = self.mux.pkts.len();
            let style = if s.len() > 150 { rng.below(3) } else { 0 };
            self.mux.psi(pid, &s, 0, style, rng);
            parts.push((pid, self.mux.pkts.split_off(before)));
        }
        let mut idx = vec![0usize; parts.len()]; let mut first = vec![usize::MAX; parts.len()]; let mut last = vec![0usize; parts.len()];
        let mut left: usize = parts.iter().map(|p| p.1.len()).sum();
        while left > 0 {
            let k = rng.below(parts.len() as u64) as usize;
            if idx[k] < parts[k].1.len() { let at = self.mux.pkts.len(); if first[k] == usize::MAX { first[k] = at; } last[k] = at;
                self.mux.pkts.push(parts[k].1[idx[k]].clone()); idx[k] += 1; left -= 1; }
        }
        let _ = base;
        for (k, (pid, _)) in parts.iter().enumerate() {
            let d = self.pmt_desc(*pid); let v = self.pmts[pid].version;
            self.notes.push(format!("T|{}|{}|{}|{}|{}|{}", pid, first[k], last[k], kind, v, d));
        }
    }
    pub fn live_pmt_pids(&self) -> Vec<u16> { self.progs.iter().filter(|p| p.0 != 0).map(|p| p.1).collect() }
    pub fn finish(self, flags: u64, rng: &mut Rng) -> String {
        let mut chunks: Vec<Vec<u8>> = vec![]; let mut cur: Vec<u8> = vec![];
        for p in self.mux.pkts.iter() { cur.extend_from_slice(p); if rng.chance(1, 30) { chunks.push(std::mem::take(&mut cur)); } }
        chunks.push(cur);
        let mut line = dmx_case(flags, "", &chunks);
        line.push_str(&format!(" #H={}", self.notes.join(";")));
        line
    }
}

/// C05: valid histories of versions with probes after every step
pub fn gen_c05(tier: &str, seed: u64, emit: &mut dyn FnMut(String)) {
    let mut rng = Rng::new(seed ^ 0xC05);
    for i in 0..(if tier == "thorough" { 40000 } else { 2500 }) {
        let shared = i % 23 == 7;                       // finding F7: an elementary PID shared by two programs
        let np = if i % 23 == 11 || i % 23 == 19 { 2 } else { rng.range(1, 3) as usize };
        let mut w = World::new(&mut rng, if shared { 2 } else { np }, shared);
        w.send_pat("new", 0, &mut rng);
        if i % 5 == 2 && w.live_pmt_pids().len() >= 2 { let l = w.live_pmt_pids(); let big = rng.chance(1, 2); w.send_pmts_interleaved(&l, "new", big, &mut rng); }
        else { for pid in w.live_pmt_pids() { let big = rng.chance(1, 6); w.send_pmt(pid, "new", 0, big, &mut rng); } }
        w.probes(&mut rng);
        if shared && i % 2 == 1 && w.live_pmt_pids().len() >= 2 {
            // the shared PID is dropped by the first program, then by the second one TOGETHER with another of its streams:
            // a Remove of a PID that has no handler any more precedes the Remove of one that has
            let l = w.live_pmt_pids(); let (p1, p2) = (l[0], l[1]);
            let x = w.pmts[&p1].streams.iter().map(|s| s.1).find(|q| w.pmts[&p2].streams.iter().any(|s| s.1 == *q)).unwrap_or(0x1fff);
            if x < 0x1ff0 {
                // the second program first gains a stream Y on a PID above X (Removes are queued in ascending PID order)
                let used: Vec<u16> = w.pool.iter().cloned().chain(w.progs.iter().map(|q| q.1)).chain(w.pmts.values().flat_map(|m| m.streams.iter().map(|s| s.1))).collect();
                let mut y = x + 1; while used.contains(&y) { y += 1; }
                { let m = w.pmts.get_mut(&p2).unwrap(); m.version = (m.version + 1) & 31; m.streams.push((0x0f, y)); }
                w.send_pmt(p2, "new", 0, false, &mut rng);
                { let idx = w.mux.pkts.len(); let pl = rng.bytes(184); w.mux.data_packet(y, false, &pl, &mut rng); w.notes.push(format!("P|{}|{}", y, idx)); }
                { let m = w.pmts.get_mut(&p1).unwrap(); m.version = (m.version + 1) & 31; m.streams.retain(|s| s.1 != x); if m.streams.is_empty() { m.streams.push((0x1b, 0x1f00)); } }
                w.send_pmt(p1, "new", 0, false, &mut rng); w.probes_except(x, &mut rng);
                { let m = w.pmts.get_mut(&p2).unwrap(); m.version = (m.version + 1) & 31;
                  m.streams.retain(|s| s.1 != x && s.1 != y); if m.streams.is_empty() { m.streams.push((0x1b, 0x1f01)); } }
                w.send_pmt(p2, "new", 0, false, &mut rng); w.probes(&mut rng);
                { let idx = w.mux.pkts.len(); let pl = rng.bytes(184); w.mux.data_packet(y, false, &pl, &mut rng); w.notes.push(format!("P|{}|{}", y, idx)); }
            }
        }
        if i % 23 == 3 {
            let l = w.live_pmt_pids(); if !l.is_empty() { let q = l[0];
                { let m = w.pmts.get_mut(&q).unwrap(); m.version = (m.version + 1) & 31; }
                let s1 = w.pmt_section(q, true, &mut rng);
                let first = w.mux.pkts.len(); w.mux.psi(q, &s1, 0, 0, &mut rng);
                let n = w.mux.pkts.len() - first;
                if n >= 2 {
                    let tail = w.mux.pkts.split_off(first + 1);
                    let d = w.pmt_desc(q); let v = w.pmts[&q].version;
                    w.notes.push(format!("T|{}|{}|{}|dmg|{}|{}", q, first, first, v, d));
                    w.bump_pmt(q, &mut rng); w.send_pmt(q, "new", 0, false, &mut rng);
                    for p in tail { w.mux.pkts.push(p); }
                    w.probes(&mut rng);
                } else { w.mux.pkts.truncate(first); }
            }
        }
        if i % 23 == 19 && w.live_pmt_pids().len() >= 2 {
            // the PAT drops program 2; its map PID X is later announced as an elementary stream of program 1; then the PAT
            // changes again without mentioning X: X stays with the stream handler
            let l = w.live_pmt_pids(); let (p1, x) = (l[0], l[1]);
            w.pat_version = (w.pat_version + 1) & 31; w.progs.retain(|q| q.1 != x); w.pmts.remove(&x); w.last_pmt.remove(&x);
            w.send_pat("new", 0, &mut rng); w.probes(&mut rng);
            { let m = w.pmts.get_mut(&p1).unwrap(); m.version = (m.version + 1) & 31; m.streams.push((0x1b, x)); }
            w.send_pmt(p1, "new", 0, false, &mut rng);
            { let idx = w.mux.pkts.len(); let pl = rng.bytes(184); w.mux.data_packet(x, false, &pl, &mut rng); w.notes.push(format!("P|{}|{}", x, idx)); }
            w.pat_version = (w.pat_version + 1) & 31; let spare = w.pool[w.pool.len() - 1] ^ 0x0400;
            if !w.progs.iter().any(|q| q.1 == spare) && !w.pmts.values().any(|m| m.streams.iter().any(|s| s.1 == spare)) && spare != x { w.progs.push((0, spare)); }
            w.send_pat("new", 0, &mut rng);
            { let idx = w.mux.pkts.len(); let pl = rng.bytes(184); w.mux.data_packet(x, false, &pl, &mut rng); w.notes.push(format!("P|{}|{}", x, idx)); }
            w.probes(&mut rng);
        }
        if i % 23 == 11 && w.live_pmt_pids().len() >= 2 {
            // an elementary PID migrates: program 1 drops it, program 2 announces it later (never listed by both at once),
            // then program 1 changes again; it must stay with the handler program 2's map installed
            let l = w.live_pmt_pids(); let (p1, p2) = (l[0], l[1]);
            let a = w.pmts[&p1].streams[0];
            let spare = w.pool[w.pool.len() - 1];
            if !w.pmts[&p2].streams.iter().any(|s| s.1 == a.1) && a.1 != spare {
                { let m = w.pmts.get_mut(&p1).unwrap(); m.version = (m.version + 1) & 31; m.streams.remove(0); if m.streams.is_empty() { m.streams.push((0x1b, spare)); } }
                w.send_pmt(p1, "new", 0, false, &mut rng); w.probes(&mut rng);
                { let m = w.pmts.get_mut(&p2).unwrap(); m.version = (m.version + 1) & 31; m.streams.push((0x0f, a.1)); }
                w.send_pmt(p2, "new", 0, false, &mut rng); w.probes(&mut rng);
                for _ in 0..rng.range(1, 2) { let m = w.pmts.get_mut(&p1).unwrap(); m.version = (m.version + 1) & 31; if rng.chance(1, 2) { m.streams.reverse(); }
                    w.send_pmt(p1, "new", 0, false, &mut rng); w.probes(&mut rng); }
            }
        }
        for _ in 0..rng.range(1, 6) {
            if rng.chance(1, 3) { w.bump_pat(&mut rng); w.send_pat("new", 0, &mut rng);
                // a re-listed program keeps transmitting its PMT (same version: a repetition)
                for pid in w.live_pmt_pids() { if rng.chance(1, 2) { let fresh = !w.last_pmt.contains_key(&pid); let big = rng.chance(1, 6); w.send_pmt(pid, if fresh { "new" } else { "rep" }, 0, big, &mut rng); } } }
            else { let l = w.live_pmt_pids(); if !l.is_empty() { let pid = *rng.pick(&l); w.bump_pmt(pid, &mut rng); let big = rng.chance(1, 6); w.send_pmt(pid, "new", 0, big, &mut rng); } }
            w.probes(&mut rng);
        }
        if i % 23 == 15 {
            // role collision, last step of the history: a program map lists its OWN PID as an elementary stream; the stream
            // handler built from that entry replaces the map's handler (the later table application wins)
            let l = w.live_pmt_pids(); if !l.is_empty() { let q = l[0];
                { let m = w.pmts.get_mut(&q).unwrap(); m.version = (m.version + 1) & 31; if !m.streams.iter().any(|s| s.1 == q) { m.streams.push((0x1b, q)); } }
                w.send_pmt(q, "new", 0, false, &mut rng); w.probes(&mut rng); w.probes(&mut rng); }
        }
        emit(w.finish(0, &mut rng));
    }
}

/// C10: repetitions of unchanged tables anywhere, also straddled by an open PES packet
pub fn gen_c10(tier: &str, seed: u64, emit: &mut dyn FnMut(String)) {
    let mut rng = Rng::new(seed ^ 0xC10);
    for i in 0..(if tier == "thorough" { 16000 } else { 2500 }) {
        let np = rng.range(1, 2) as usize;
        let mut w = World::new(&mut rng, np, false);
        // only PES stream types so that elementary PIDs get PES consumers
        for p in w.pmts.values_mut() { for s in p.streams.iter_mut() { s.0 = 0x1b; } }
        w.send_pat("new", 0, &mut rng);
        for pid in w.live_pmt_pids() { let big = i % 3 == 0; w.send_pmt(pid, "new", 0, big, &mut rng); }
        let epids: Vec<u16> = w.pmts.values().flat_map(|p| p.streams.iter().map(|s| s.1)).collect();
        for _ in 0..rng.range(1, 4) {
            // an open PES packet whose transport packets straddle repeated tables
            let pid = *rng.pick(&epids);
            let n = rng.range(200, 900) as usize; let pk = w.pes(pid, n, &mut rng);
            let cut = rng.range(1, pk.len() as u64) as usize;
            for p in pk[..cut].iter() { w.mux.pkts.push(p.clone()); }
            for _ in 0..rng.range(1, if tier == "thorough" { 40 } else { 6 }) {
                if rng.chance(1, 2) { w.send_pat("rep", 0, &mut rng); } else { let l = w.live_pmt_pids(); let q = *rng.pick(&l); w.send_pmt(q, "rep", 0, false, &mut rng); }
            }
            for p in pk[cut..].iter() { w.mux.pkts.push(p.clone()); }
            // a burst of tightly packed copies of a PMT: each copy starts right behind the previous one, the second one with
            // r of its bytes left in the packet (r < 3: finding F9; r < 8: that copy is not parsed; otherwise an ordinary start)
            if i % 4 == 1 { let l = w.live_pmt_pids(); let q = *rng.pick(&l);
                let r = *rng.pick(&[1usize, 2, 3, 4, 5, 6, 7, 8, 9, 12, 40, 100]);
                let copies = rng.range(2, 5) as usize; w.send_pmt_packed(q, r, copies, &mut rng);
                for _ in 0..rng.below(3) { w.send_pmt(q, "rep", 0, false, &mut rng); } }
            // a genuine version change now and then (of a PMT only: see finding F8 for PAT changes), back and forth
            if rng.chance(1, 3) { let l = w.live_pmt_pids(); let q = *rng.pick(&l); let keep = w.pmts[&q].clone();
                w.bump_pmt(q, &mut rng); w.pmts.get_mut(&q).unwrap().streams = keep.streams.clone(); w.send_pmt(q, "new", 0, false, &mut rng);
                if rng.chance(1, 2) { w.pmts.get_mut(&q).unwrap().version = keep.version; w.send_pmt(q, "new", 0, false, &mut rng); } }
            if i % 17 == 5 { w.bump_pat(&mut rng); w.send_pat("new", 0, &mut rng); for q in w.live_pmt_pids() { if w.last_pmt.contains_key(&q) { w.send_pmt(q, "rep", 0, false, &mut rng); } } }   // finding F8
        }
        w.probes(&mut rng);
        emit(w.finish(0, &mut rng));
        if i % 25 == 3 { gen_c10_shared(&mut rng, emit); }
    }
}

/// C10 extra: two programs whose maps share ONE program-map PID and carry the same version_number, repeated alternately
/// (the second map is a repetition as far as the PID's remembered version goes): nothing may be requested after the first
fn gen_c10_shared(rng: &mut Rng, emit: &mut dyn FnMut(String)) {
    let pids = pick_pids(rng, 6);
    let (p, a, b) = (pids[0], pids[1], pids[2]);
    let ver = rng.below(32) as u8;
    let pat = section(0, 1, rng.below(32) as u8, true, &pat_body(&[(1, p), (2, p)], rng));
    let pmt_a = section(2, 1, ver, true, &pmt_body(a, &[], &[(0x1b, a, vec![])], rng));
    let pmt_b = section(2, 2, ver, true, &pmt_body(b, &[], &[(0x1b, b, vec![])], rng));
    let mut m = Mux::new(); let mut notes: Vec<String> = vec![];
    let mut send = |m: &mut Mux, notes: &mut Vec<String>, pid: u16, s: &Vec<u8>, kind: &str, v: u8, desc: String, rng: &mut Rng| {
        let first = m.pkts.len(); m.psi(pid, s, 0, 0, rng); notes.push(format!("T|{}|{}|{}|{}|{}|{}", pid, first, m.pkts.len() - 1, kind, v, desc)); };
    send(&mut m, &mut notes, 0, &pat, "new", (pat[5] >> 1) & 31, format!("1:{},2:{}", p, p), rng);
    send(&mut m, &mut notes, p, &pmt_a, "new", ver, format!("1/27:{}", a), rng);
    for _ in 0..rng.range(2, 8) {
        let (s, d) = if rng.chance(1, 2) { (&pmt_a, format!("1/27:{}", a)) } else { (&pmt_b, format!("2/27:{}", b)) };
        send(&mut m, &mut notes, p, s, "rep", ver, d, rng);
        if rng.chance(1, 2) { let pl = rng.bytes(184); m.data_packet(a, false, &pl, rng); }
    }
    let mut line = dmx_case(0, "", &[m.bytes()]);
    line.push_str(&format!(" #H={}", notes.join(";")));
    emit(line);
}

/// C11: a damaged transmission, then intact ones with the same and with a bumped version
pub fn gen_c11(tier: &str, seed: u64, emit: &mut dyn FnMut(String)) {
    let mut rng = Rng::new(seed ^ 0xC11);
    for i in 0..(if tier == "thorough" { 60000 } else { 4000 }) {
        let mut w = World::new(&mut rng, 1, false);
        let first_is_damaged = i % 4 == 0;               // "a stream whose first PAT or PMT copy is corrupt"
        let target_pat = i % 2 == 0;
        let big = i % 3 == 0;
        let pmt_pid = w.live_pmt_pids()[0];
        if !(first_is_damaged && target_pat) { w.send_pat("new", 0, &mut rng); }
        if !first_is_damaged { w.send_pmt(pmt_pid, "new", 0, big, &mut rng); w.probes(&mut rng);
            if rng.chance(1, 3) { if target_pat { w.send_pat("rep", 0, &mut rng); } else { w.send_pmt(pmt_pid, "rep", 0, big, &mut rng); } }
            if target_pat { w.bump_pat(&mut rng); } else { w.bump_pmt(pmt_pid, &mut rng); } }
        let dmg = 1 + (i / 4) as u64 % 5;
        if target_pat { w.send_pat("dmg", dmg, &mut rng); } else { w.send_pmt(pmt_pid, "dmg", dmg, big, &mut rng); }
        // now and then a unit-start packet whose adaptation field leaves room for the pointer_field and one or two more bytes only
        // (the chain is reset there: whatever version the damaged start left behind is forgotten)
        if i % 5 == 3 { let pid = if target_pat { 0 } else { pmt_pid }; let pl = [0u8, if target_pat { 0 } else { 2 }]; let n = 1 + rng.below(2) as usize; w.mux.data_packet(pid, true, &pl[..1 + n.min(1)], &mut rng); }
        // intact copies: the same version first (finding F2 when the damaged start was recorded) ...
        for _ in 0..rng.range(1, 3) { if target_pat { w.send_pat("intact", 0, &mut rng); } else { w.send_pmt(pmt_pid, "intact", 0, big, &mut rng); } }
        w.probes(&mut rng);
        // ... then a bumped version, which must always be applied
        if target_pat { w.pat_version = (w.pat_version + 1) & 31; w.send_pat("intact", 0, &mut rng); }
        else { let p = w.pmts.get_mut(&pmt_pid).unwrap(); p.version = (p.version + 1) & 31; w.send_pmt(pmt_pid, "intact", 0, big, &mut rng); }
        if first_is_damaged && !target_pat { /* PAT already sent */ } else if first_is_damaged { let l = w.live_pmt_pids(); for q in l { w.send_pmt(q, "new", 0, big, &mut rng); } }
        w.probes(&mut rng);
        if i % 7 == 2 && !target_pat {
            // three steps on the map PID: a multi-packet version cut short after its first packet, a single-packet newer
            // version, then an intact multi-packet newest version (which must be applied)
            let q = pmt_pid;
            { let m = w.pmts.get_mut(&q).unwrap(); m.version = (m.version + 1) & 31; }
            let s1 = w.pmt_section(q, true, &mut rng);
            let first = w.mux.pkts.len(); w.mux.psi(q, &s1, 0, 0, &mut rng);
            if w.mux.pkts.len() - first >= 2 {
                w.mux.pkts.truncate(first + 1);
                let d = w.pmt_desc(q); let v = w.pmts[&q].version;
                w.notes.push(format!("T|{}|{}|{}|dmg|{}|{}", q, first, first, v, d));
                { let m = w.pmts.get_mut(&q).unwrap(); m.version = (m.version + 1) & 31; }
                w.send_pmt(q, "intact", 0, false, &mut rng);
                { let m = w.pmts.get_mut(&q).unwrap(); m.version = (m.version + 1) & 31; }
                w.send_pmt(q, "intact", 0, true, &mut rng);
                w.probes(&mut rng);
            } else { w.mux.pkts.truncate(first); let m = w.pmts.get_mut(&q).unwrap(); m.version = (m.version + 31) & 31; }
        }
        emit(w.finish(0, &mut rng));
    }
}

/// deterministic minimal witnesses of the known findings F2, F7, F8 (also kept in /verif/corpus)
pub fn gen_witnesses(_tier: &str, _seed: u64, emit: &mut dyn FnMut(String)) {
    let mut rng = Rng::new(7);
    let probe = |m: &mut Mux, pid: u16, rng: &mut Rng| { let pl = vec![0x11u8; 184]; m.data_packet(pid, false, &pl, rng); };
    // F2: corrupt PAT (version 0) then the intact PAT (version 0): never applied
    { let mut m = Mux::new(); let pat = section(0, 1, 0, true, &[0, 1, 0xE1, 0x00]);
      let mut bad = pat.clone(); bad[9] ^= 0x01;
      m.psi(0, &bad, 0, 0, &mut rng); m.psi(0, &pat, 0, 0, &mut rng); probe(&mut m, 0x100, &mut rng);
      emit(format!("{} #W=F2", dmx_case(0, "", &[m.bytes()]))); }
    // F7: programs 1 and 2 share elementary PID 0x300; PMT 1 drops it
    { let mut m = Mux::new();
      let pat = section(0, 1, 0, true, &[0, 1, 0xE1, 0x00, 0, 2, 0xE2, 0x00]);
      let pmt1 = section(2, 1, 0, true, &[0xE1, 0x01, 0xF0, 0, 0x1b, 0xE1, 0x01, 0xF0, 0, 0x0f, 0xE3, 0x00, 0xF0, 0]);
      let pmt2 = section(2, 2, 0, true, &[0xE3, 0x00, 0xF0, 0, 0x0f, 0xE3, 0x00, 0xF0, 0]);
      let pmt1b = section(2, 1, 1, true, &[0xE1, 0x01, 0xF0, 0, 0x1b, 0xE1, 0x01, 0xF0, 0]);
      m.psi(0, &pat, 0, 0, &mut rng); m.psi(0x100, &pmt1, 0, 0, &mut rng); m.psi(0x200, &pmt2, 0, 0, &mut rng);
      probe(&mut m, 0x300, &mut rng); m.psi(0x100, &pmt1b, 0, 0, &mut rng); probe(&mut m, 0x300, &mut rng);
      emit(format!("{} #W=F7", dmx_case(0, "", &[m.bytes()]))); }
    // F8a: PAT version change re-creates the PMT handler; the next PMT version dropping a PID does not remove it
    { let mut m = Mux::new();
      let pat0 = section(0, 1, 0, true, &[0, 1, 0xE1, 0x00]);
      let pat1 = section(0, 1, 1, true, &[0, 1, 0xE1, 0x00, 0, 2, 0xE2, 0x00]);
      let pmt0 = section(2, 1, 0, true, &[0xE1, 0x01, 0xF0, 0, 0x1b, 0xE1, 0x01, 0xF0, 0, 0x0f, 0xE1, 0x02, 0xF0, 0]);
      let pmt1 = section(2, 1, 1, true, &[0xE1, 0x01, 0xF0, 0, 0x1b, 0xE1, 0x01, 0xF0, 0]);
      m.psi(0, &pat0, 0, 0, &mut rng); m.psi(0x100, &pmt0, 0, 0, &mut rng); probe(&mut m, 0x102, &mut rng);
      m.psi(0, &pat1, 0, 0, &mut rng); m.psi(0x100, &pmt1, 0, 0, &mut rng); probe(&mut m, 0x102, &mut rng);
      emit(format!("{} #W=F8a", dmx_case(0, "", &[m.bytes()]))); }
    // F8b: after a PAT version change a repetition of the unchanged PMT is applied again
    { let mut m = Mux::new();
      let pat0 = section(0, 1, 0, true, &[0, 1, 0xE1, 0x00]);
      let pat1 = section(0, 1, 1, true, &[0, 1, 0xE1, 0x00, 0, 2, 0xE2, 0x00]);
      let pmt0 = section(2, 1, 0, true, &[0xE1, 0x01, 0xF0, 0, 0x1b, 0xE1, 0x01, 0xF0, 0]);
      m.psi(0, &pat0, 0, 0, &mut rng); m.psi(0x100, &pmt0, 0, 0, &mut rng);
      m.psi(0, &pat1, 0, 0, &mut rng); m.psi(0x100, &pmt0, 0, 0, &mut rng);
      emit(format!("{} #W=F8b", dmx_case(0, "", &[m.bytes()]))); }
    // F9: three copies of a 365-byte PMT; the second is packed right behind the first and starts with ONE byte left in its
    // packet (header straddles the packet boundary): the chain is reset and forgets the version, the third copy is applied again
    { let mut m = Mux::new();
      let pat = section(0, 1, 0, true, &[0, 1, 0xE1, 0x00]);
      let mut body = vec![0xE1, 0x01, 0xF1, 0x58]; body.extend(descriptor(0x81, &vec![0xAA; 255])); body.extend(descriptor(0x81, &vec![0xAA; 85]));
      body.extend_from_slice(&[0x1b, 0xE1, 0x01, 0xF0, 0]);
      let pmt = section(2, 1, 0, true, &body); assert_eq!(pmt.len(), 365);
      m.psi(0, &pat, 0, 0, &mut rng); m.psi_packed(0x100, &[pmt.clone(), pmt.clone()], &mut rng); m.psi(0x100, &pmt, 0, 0, &mut rng);
      emit(format!("{} #W=F9", dmx_case(0, "", &[m.bytes()]))); }
    // F10: programs 1 and 2 announce the SAME program-map PID; their maps carry different version_numbers: every arrival
    // differs from the version remembered for that PID and is applied again, in the steady state too
    { let pat = section(0, 1, 0, true, &[0, 1, 0xE1, 0x00, 0, 2, 0xE1, 0x00]);
      let pmt_a = section(2, 1, 0, true, &[0xE1, 0x01, 0xF0, 0, 0x1b, 0xE1, 0x01, 0xF0, 0]);
      let pmt_b = section(2, 2, 1, true, &[0xE1, 0x02, 0xF0, 0, 0x0f, 0xE1, 0x02, 0xF0, 0]);
      let mut m = Mux::new();
      m.psi(0, &pat, 0, 0, &mut rng); m.psi(0x100, &pmt_a, 0, 0, &mut rng); m.psi(0x100, &pmt_b, 0, 0, &mut rng);
      probe(&mut m, 0x101, &mut rng); probe(&mut m, 0x102, &mut rng);
      let warm = m.bytes(); m.pkts.clear();
      m.psi(0x100, &pmt_a, 0, 0, &mut rng); m.psi(0x100, &pmt_b, 0, 0, &mut rng);
      emit(format!("ALLOC {} {} #W=F10", hex(&warm), hex(&m.bytes()))); }
}
