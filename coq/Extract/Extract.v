(* Extract/Extract.v — extraction of the executable model and checkers (ExtrOcamlBasic only). *)
Require Extraction.
Require Import ExtrOcamlBasic.
From TS Require Import Base.Res Model.Timestamp Model.Packet Model.PacketObs Model.Pes Model.PesObs Model.Crc Model.Psi Model.PsiObs.
Extraction "Extract/model.ml" run_packet run_packet_c12 run_af run_tsb run_tsu run_tsw run_crp run_crs run_pes run_ppc run_crc run_sec.
