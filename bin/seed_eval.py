#!/usr/bin/env python3
"""bin/seed_eval.py <mutdir> ... — confirm a seeded change in a scratch worktree, then run the target property's
check against it in /repo (applied, checked, undone), and file it under /verif/seeded/<id>/."""
import json, os, shutil, subprocess, sys, time
WT = "/tmp/wt_seed"
ENV = dict(os.environ, CARGO_NET_OFFLINE="true")

def sh(cmd, cwd=None, timeout=1800):
    p = subprocess.run(cmd, shell=True, cwd=cwd, stdout=subprocess.PIPE, stderr=subprocess.STDOUT, env=ENV, timeout=timeout)
    return p.returncode, p.stdout.decode("utf-8", "replace")

def ensure_wt():
    if not os.path.isdir(WT):
        rc, out = sh(f"git -C /repo worktree add -q {WT} HEAD")
        assert rc == 0, out

def clean_wt():
    sh(f"git -C {WT} checkout -- . && git -C {WT} clean -fdq -e target")

def main():
    ensure_wt()
    for d in sys.argv[1:]:
        d = d.rstrip("/")
        name = os.path.basename(d)
        meta = json.load(open(f"{d}/meta.json"))
        prop = meta.get("property", name.split("_")[0])
        res = {"confirmed": False}
        clean_wt()
        rc, out = sh(f"git -C {WT} apply {d}/patch.diff")
        if rc != 0:
            res["error"] = "patch does not apply: " + out[-300:]
        else:
            rc_t, out_t = sh("cargo test --offline 2>&1 | grep 'test result'", cwd=WT)
            suite_ok = "63 passed; 0 failed" in out_t
            os.makedirs(f"{WT}/tests", exist_ok=True)
            shutil.copy(f"{d}/demo.rs", f"{WT}/tests/seed_demo.rs")
            rc_d, out_d = sh("cargo test --offline --test seed_demo 2>&1 | tail -5", cwd=WT)
            fails_with = rc_d != 0 or "FAILED" in out_d or "panicked" in out_d
            sh(f"git -C {WT} apply -R {d}/patch.diff")
            rc_c, out_c = sh("cargo test --offline --test seed_demo 2>&1 | tail -5", cwd=WT)
            passes_without = ("test result: ok" in out_c) and rc_c == 0
            res.update({"suite_passes_with_change": suite_ok, "demo_fails_with_change": fails_with, "demo_passes_without_change": passes_without,
                        "confirmed": bool(suite_ok and fails_with and passes_without)})
        clean_wt()
        # run the target check against the change in /repo
        caught = {}
        if res["confirmed"]:
            rc, out = sh(f"git -C /repo apply {d}/patch.diff")
            if rc == 0:
                try:
                    for p in [prop] + [x for x in os.environ.get("SEED_ALSO", "").split(",") if x and x != prop]:
                        t0 = time.time()
                        rc_k, out_k = sh(f"/verif/bin/check {p}", cwd="/verif", timeout=3600)
                        lines = [l for l in out_k.splitlines() if l.startswith(("VIOLATION", "OK ", "KNOWN"))]
                        why = ""
                        for l in lines:
                            if l.startswith("VIOLATION") and "replay=" in l:
                                rp = l.split("replay=")[1].split()[0]
                                try: why = json.load(open(rp)).get("why") or str(json.load(open(rp)).get("what"))[:300]
                                except Exception: pass
                        caught[p] = {"exit": rc_k, "verdict": [l[:160] for l in lines if not l.startswith("KNOWN")], "why": (why or "")[:300], "wall_s": round(time.time() - t0, 1)}
                finally:
                    sh("git -C /repo checkout -- .")
        res["checks"] = caught
        out_dir = f"/verif/seeded/{name}"
        os.makedirs(out_dir, exist_ok=True)
        shutil.copy(f"{d}/patch.diff", f"{out_dir}/patch.diff")
        shutil.copy(f"{d}/demo.rs", f"{out_dir}/demo.rs")
        meta_out = {"property": prop, "summary": meta.get("summary"), "needs": meta.get("needs"), "author_ran": meta.get("ran"),
                    "confirmation": res, "confirmed_by": "bin/seed_eval.py: scratch worktree /tmp/wt_seed (patch applied: cargo test --offline passes 63/63, demo fails; patch reverted: demo passes); then git -C /repo apply, bin/check, git -C /repo checkout -- ."}
        json.dump(meta_out, open(f"{out_dir}/meta.json", "w"), indent=1)
        print(name, "confirmed" if res["confirmed"] else "NOT-CONFIRMED", {k: v["exit"] for k, v in caught.items()}, flush=True)
    sh(f"git -C /repo worktree remove --force {WT}")

main()
