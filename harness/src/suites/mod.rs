pub mod c12;
