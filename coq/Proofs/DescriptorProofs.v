(* Proofs/DescriptorProofs.v — C17: descriptor loops iterate exactly; typed descriptors decode exactly. *)
From Coq Require Import List NArith Lia ZArith ZifyN ZifyNat ZifyBool Bool.
From TS Require Import Base.Res Base.ListX Base.Bits Model.Descriptor Spec.DescriptorSpec Proofs.PacketProofs.
Import ListNotations.
Open Scope N_scope.
Ltac Zify.zify_post_hook ::= Z.div_mod_to_equations.

(* ---- tag table: all 256 tags ---- *)
Lemma c17_tags tag : tag < 256 -> core_variant tag = s_variant tag.
Proof. intros H. apply N.eqb_eq. sweep1 tag H. Qed.

(* ---- one complete descriptor ---- *)
Lemma typed_new_spec tag payload : tag < 256 ->
  typed_new (core_variant tag) tag payload =
  Ok (if Nat.ltb (length payload) (s_min_payload tag)
      then RErr (DNotEnoughData tag (length payload) (s_min_payload tag)) else ROk tt).
Proof.
  intros Ht.
  assert (Hcases : tag = 5 \/ tag = 14 \/ tag = 40 \/ tag = 10 \/
                   (core_variant tag <> V_REGISTRATION /\ core_variant tag <> V_ISO639 /\
                    core_variant tag <> V_MAXBITRATE /\ core_variant tag <> V_AVC /\ tag <> 5 /\ tag <> 14 /\ tag <> 40)).
  { assert (Hb : ((tag =? 5) || (tag =? 14) || (tag =? 40) || (tag =? 10) ||
                  (negb (core_variant tag =? V_REGISTRATION) && negb (core_variant tag =? V_ISO639) &&
                   negb (core_variant tag =? V_MAXBITRATE) && negb (core_variant tag =? V_AVC) &&
                   negb (tag =? 5) && negb (tag =? 14) && negb (tag =? 40))) = true) by (sweep1 tag Ht).
    rewrite !orb_true_iff, !andb_true_iff, !negb_true_iff, !N.eqb_eq, !N.eqb_neq in Hb. tauto. }
  destruct Hcases as [->|[->|[->|[->|(H1 & H2 & H3 & H4 & H5 & H6 & H7)]]]].
  - unfold typed_new, descriptor_len, s_min_payload. change (core_variant 5) with 4. change V_REGISTRATION with 4.
    change (4 =? 4) with true. change (5 =? 5) with true. cbv iota.
    destruct (Nat.ltb (length payload) 4); reflexivity.
  - unfold typed_new, descriptor_len, s_min_payload, assert. change (core_variant 14) with 13.
    change V_REGISTRATION with 4. change V_ISO639 with 9. change V_MAXBITRATE with 13.
    change (13 =? 4) with false. change (13 =? 9) with false. change (13 =? 13) with true.
    change (14 =? 5) with false. change (14 =? 14) with true. cbv iota. cbn [bind].
    destruct (Nat.ltb (length payload) 3); reflexivity.
  - unfold typed_new, descriptor_len, s_min_payload, assert. change (core_variant 40) with 32.
    change V_REGISTRATION with 4. change V_ISO639 with 9. change V_MAXBITRATE with 13. change V_AVC with 32.
    change (32 =? 4) with false. change (32 =? 9) with false. change (32 =? 13) with false. change (32 =? 32) with true.
    change (40 =? 5) with false. change (40 =? 14) with false. change (40 =? 40) with true. cbv iota. cbn [bind].
    destruct (Nat.ltb (length payload) 4); reflexivity.
  - reflexivity.
  - unfold typed_new.
    replace (core_variant tag =? V_REGISTRATION) with false by (symmetry; apply N.eqb_neq; assumption).
    replace (core_variant tag =? V_ISO639) with false by (symmetry; apply N.eqb_neq; assumption).
    replace (core_variant tag =? V_MAXBITRATE) with false by (symmetry; apply N.eqb_neq; assumption).
    replace (core_variant tag =? V_AVC) with false by (symmetry; apply N.eqb_neq; assumption).
    unfold s_min_payload.
    replace (tag =? 5) with false by (symmetry; apply N.eqb_neq; assumption).
    replace (tag =? 14) with false by (symmetry; apply N.eqb_neq; assumption).
    replace (tag =? 40) with false by (symmetry; apply N.eqb_neq; assumption).
    reflexivity.
Qed.

Lemma from_bytes_enc base tag payload : tag < 256 ->
  core_from_bytes base (enc_desc (tag, payload)) = Ok (s_item base (tag, payload)).
Proof.
  intros Ht. unfold core_from_bytes, enc_desc. cbn [fst snd].
  set (b := tag :: N.of_nat (length payload) :: payload).
  assert (Hlen : length b = (length payload + 2)%nat) by (unfold b; cbn [length]; lia).
  rewrite Hlen.
  replace (Nat.ltb (length payload + 2) 2) with false by (symmetry; apply Nat.ltb_ge; lia).
  assert (Hi0 : idx b 0 603 = Ok tag) by reflexivity.
  assert (Hi1 : idx b 1 604 = Ok (N.of_nat (length payload))) by reflexivity.
  rewrite Hi0, Hi1. cbn [bind]. rewrite Nat2N.id.
  rewrite Nat.ltb_irrefl.
  unfold slice. rewrite Hlen, Nat.leb_refl.
  replace (Nat.leb 2 (length payload + 2)) with true by (symmetry; apply Nat.leb_le; lia).
  cbn [andb bind]. replace (length payload + 2 - 2)%nat with (length payload) by lia.
  assert (Hs : skipn 2 b = payload) by reflexivity. rewrite Hs, firstn_all.
  rewrite typed_new_spec by assumption. cbn [bind].
  unfold s_item. rewrite c17_tags by assumption.
  destruct (Nat.ltb (length payload) (s_min_payload tag)); reflexivity.
Qed.

Definition tags_ok (ds : list sdesc) : Prop := Forall (fun d => fst d < 256) ds.

Lemma enc_loop_cons d ds : enc_loop (d :: ds) = enc_desc d ++ enc_loop ds.
Proof. reflexivity. Qed.

Lemma desc_iter_step fuel base tag l rest :
  desc_iter (S fuel) base (tag :: l :: rest) =
  if Nat.ltb (length rest) (N.to_nat l) then Ok [RErr (DNotEnoughData tag (length rest) (N.to_nat l))]
  else do item <- core_from_bytes base (tag :: l :: firstn (N.to_nat l) rest);
       do r <- desc_iter fuel (base + N.to_nat l + 2) (skipn (N.to_nat l) rest);
       Ok (item :: r).
Proof.
  cbn [desc_iter].
  change (Nat.eqb (length (tag :: l :: rest)) 0) with false.
  change (Nat.ltb (length (tag :: l :: rest)) 2) with false. cbv iota.
  change (idx (tag :: l :: rest) 0 607) with (Ok tag). change (idx (tag :: l :: rest) 1 608) with (Ok l).
  cbn [bind].
  unfold usub. change (Nat.leb 2 (length (tag :: l :: rest))) with true. cbv iota. cbn [bind].
  replace (length (tag :: l :: rest) - 2)%nat with (length rest) by (cbn [length]; lia).
  destruct (Nat.ltb_spec (length rest) (N.to_nat l)) as [Hlt|Hge]; [reflexivity|].
  unfold split_at. cbn [length].
  replace (Nat.leb (N.to_nat l + 2) (S (S (length rest)))) with true by (symmetry; apply Nat.leb_le; lia).
  cbn [bind fst snd].
  replace (N.to_nat l + 2)%nat with (S (S (N.to_nat l))) by lia. cbn [firstn skipn]. reflexivity.
Qed.

Lemma iter_tail fuel base t : (0 < fuel)%nat -> no_complete_desc t -> desc_iter fuel base t = Ok (s_tail_item t).
Proof.
  intros Hf Hn. destruct fuel as [|fuel]; [lia|].
  destruct t as [|a [|l rest]]; [reflexivity|reflexivity|].
  rewrite desc_iter_step. cbn [no_complete_desc] in Hn.
  replace (Nat.ltb (length rest) (N.to_nat l)) with true by (symmetry; apply Nat.ltb_lt; lia).
  reflexivity.
Qed.

Lemma c17_iter_fuel ds : forall tail base fuel, tags_ok ds -> no_complete_desc tail ->
  (length (enc_loop ds ++ tail) < fuel)%nat ->
  desc_iter fuel base (enc_loop ds ++ tail) = Ok (s_items base ds ++ s_tail_item tail).
Proof.
  induction ds as [|[tag payload] ds IH]; intros tail base fuel Hok Hn Hf.
  - cbn [enc_loop map concat app s_items]. apply iter_tail; [lia|assumption].
  - inversion Hok as [|? ? Htag Hok']; subst. cbn [fst] in Htag.
    destruct fuel as [|fuel]; [lia|].
    rewrite enc_loop_cons, <- app_assoc in *. unfold enc_desc in *. cbn [fst snd app] in *.
    rewrite desc_iter_step. rewrite Nat2N.id. rewrite app_length.
    replace (Nat.ltb (length payload + length (enc_loop ds ++ tail)) (length payload)) with false
      by (symmetry; apply Nat.ltb_ge; lia).
    rewrite firstn_app_exact, skipn_app_exact.
    pose proof (from_bytes_enc base tag payload Htag) as Hfb. unfold enc_desc in Hfb. cbn [fst snd] in Hfb.
    rewrite Hfb. cbn [bind].
    rewrite IH; [|assumption|assumption|].
    + cbn [bind s_items snd app]. reflexivity.
    + cbn [length] in Hf. rewrite app_length in Hf. lia.
Qed.

Lemma c17_iter ds tail base : tags_ok ds -> no_complete_desc tail ->
  descriptors base (enc_loop ds ++ tail) = Ok (s_items base ds ++ s_tail_item tail).
Proof. intros. unfold descriptors. apply c17_iter_fuel; [assumption|assumption|lia]. Qed.

(* ---- every byte string decomposes (uniquely, by construction) ---- *)
Lemma c17_decompose_n n : forall b : list N, (length b <= n)%nat -> bytes_ok b ->
  exists ds tail, b = enc_loop ds ++ tail /\ tags_ok ds /\ no_complete_desc tail /\ Forall (fun d => (length (snd d) <= 255)%nat) ds.
Proof.
  induction n as [|n IH]; intros b Hl Hok.
  - destruct b; [|cbn in Hl; lia]. exists [], []. repeat split; constructor.
  - destruct b as [|tag [|l rest]].
    + exists [], []. repeat split; constructor.
    + exists [], [tag]. repeat split; constructor.
    + destruct (Nat.leb_spec (N.to_nat l) (length rest)) as [Hfit|Hno].
      * assert (Hb : tag < 256 /\ l < 256 /\ bytes_ok rest).
        { inversion Hok as [|? ? H1 H2]; inversion H2 as [|? ? H3 H4]; subst. repeat split; assumption. }
        destruct Hb as (Htag & Hlb & Hrest).
        destruct (IH (skipn (N.to_nat l) rest)) as (ds & tail & E & Hds & Hnt & Hlen).
        { rewrite skipn_length. cbn [length] in Hl. lia. }
        { apply Forall_skipn, Hrest. }
        exists ((tag, firstn (N.to_nat l) rest) :: ds), tail.
        split; [|split; [|split]].
        -- rewrite enc_loop_cons, <- app_assoc, <- E. unfold enc_desc. cbn [fst snd app].
           rewrite firstn_length. replace (Nat.min (N.to_nat l) (length rest)) with (N.to_nat l) by lia.
           rewrite N2Nat.id, firstn_skipn. reflexivity.
        -- constructor; [exact Htag|exact Hds].
        -- exact Hnt.
        -- constructor; [|exact Hlen]. cbn [snd]. rewrite firstn_length. lia.
      * exists [], (tag :: l :: rest). repeat split; try constructor. cbn [no_complete_desc]. lia.
Qed.
Lemma c17_decompose (b : list N) : bytes_ok b ->
  exists ds tail, b = enc_loop ds ++ tail /\ tags_ok ds /\ no_complete_desc tail /\ Forall (fun d => (length (snd d) <= 255)%nat) ds.
Proof. apply (c17_decompose_n (length b)). lia. Qed.

(* ---- typed descriptors ---- *)
Lemma c17_registration p : (4 <= length p)%nat ->
  reg_format_identifier p = Ok (firstn 4 p) /\ reg_additional_info p = Ok (skipn 4 p).
Proof.
  intros H. unfold reg_format_identifier, reg_additional_info, slice, slice_from.
  replace (Nat.leb 4 (length p)) with true by (symmetry; apply Nat.leb_le; lia). cbn. split; reflexivity.
Qed.

Lemma lang_iter_spec fuel : forall p, (length p < fuel)%nat -> lang_iter fuel p = Ok (s_languages fuel p).
Proof.
  induction fuel as [|fuel IH]; intros p Hl; [lia|]. cbn [lang_iter s_languages].
  destruct p as [|a [|b [|c [|t rest]]]]; try reflexivity.
  cbn [length Nat.eqb Nat.ltb Nat.leb]. unfold split_at. cbn [length Nat.leb bind firstn skipn fst snd].
  unfold assert. cbn [length Nat.eqb bind]. unfold slice. cbn [length Nat.leb andb bind Nat.sub skipn firstn idx nth_error].
  rewrite IH by (cbn [length] in Hl; lia). reflexivity.
Qed.
Lemma c17_languages p : languages p = Ok (s_languages (S (length p)) p).
Proof. unfold languages. apply lang_iter_spec. lia. Qed.

Lemma maxbr_fact a b c : a < 256 -> b < 256 -> c < 256 ->
  N.lor (N.lor (N.shiftl (N.land a 63) 16) (N.shiftl b 8)) c = field [a; b; c] 2 22.
Proof.
  intros Ha Hb Hc.
  assert (E : N.land a 63 = a mod 64) by (apply N.eqb_eq; revert a Ha; apply byte_sweep; vm_compute; reflexivity).
  rewrite E, !N.shiftl_mul_pow2.
  rewrite (lor_add _ (b * 2^8) 16) by (pow_eval; lia).
  rewrite (lor_add _ c 8) by (pow_eval; lia).
  unfold field, nbits. cbn [length]. rewrite be3. change (8 * N.of_nat 3 - 2 - 22) with 0. pow_eval. lia.
Qed.

Lemma field_pre3' a b c rest off w : bytes_ok (a :: b :: c :: rest) -> off + w <= 24 ->
  field (a :: b :: c :: rest) off w = field [a; b; c] off w.
Proof.
  intros Hok Hfit.
  change (a :: b :: c :: rest) with ([] ++ [a; b; c] ++ rest).
  change off with (nbits [] + off) at 1.
  apply field_window; [| |cbn; lia].
  - apply (Forall_firstn _ _ 3) in Hok. exact Hok.
  - apply (Forall_skipn _ _ 3) in Hok. exact Hok.
Qed.

Lemma c17_max_bitrate p : (3 <= length p)%nat -> bytes_ok p ->
  maxbr_maximum_bitrate p = Ok (s_max_bitrate p) /\
  maxbr_bits_per_second p = Ok (s_max_bitrate p * 400) /\ s_max_bitrate p * 400 < 4294967296.
Proof.
  intros Hl Hok. destruct p as [|a [|b [|c rest]]]; cbn in Hl; try lia.
  assert (Hb : a < 256 /\ b < 256 /\ c < 256).
  { repeat match goal with H : bytes_ok (_ :: _) |- _ => inversion H; clear H; subst end.
    repeat match goal with H : Forall _ (_ :: _) |- _ => inversion H; clear H; subst end. repeat split; assumption. }
  destruct Hb as (Ha & Hb & Hc).
  assert (E : maxbr_maximum_bitrate (a :: b :: c :: rest) = Ok (s_max_bitrate (a :: b :: c :: rest))).
  { unfold maxbr_maximum_bitrate, s_max_bitrate. cbn [idx nth_error bind].
    rewrite field_pre3' by (assumption || lia). rewrite maxbr_fact by assumption. reflexivity. }
  assert (Hlt : s_max_bitrate (a :: b :: c :: rest) < 4194304).
  { unfold s_max_bitrate, field. pose proof (N.mod_upper_bound (be (a :: b :: c :: rest) / 2 ^ (nbits (a :: b :: c :: rest) - 2 - 22)) (2^22)).
    change (2^22) with 4194304 in *. lia. }
  split; [exact E|]. split; [|lia].
  unfold maxbr_bits_per_second. rewrite E. cbn [bind]. unfold assert.
  replace (s_max_bitrate (a :: b :: c :: rest) * 50 * 8 <? 4294967296) with true by lia.
  cbn [bind]. f_equal. lia.
Qed.

Lemma avc_byte1 b : b < 256 ->
  [b2n (nz (N.land b 128)); b2n (nz (N.land b 64)); b2n (nz (N.land b 32)); b2n (nz (N.land b 16));
   b2n (nz (N.land b 8)); b2n (nz (N.land b 4)); N.land b 3] =
  [field [b] 0 1; field [b] 1 1; field [b] 2 1; field [b] 3 1; field [b] 4 1; field [b] 5 1; field [b] 6 2].
Proof.
  intros H.
  assert (E : forallb (fun x => (b2n (nz (N.land x 128)) =? field [x] 0 1) && (b2n (nz (N.land x 64)) =? field [x] 1 1) &&
            (b2n (nz (N.land x 32)) =? field [x] 2 1) && (b2n (nz (N.land x 16)) =? field [x] 3 1) &&
            (b2n (nz (N.land x 8)) =? field [x] 4 1) && (b2n (nz (N.land x 4)) =? field [x] 5 1) &&
            (N.land x 3 =? field [x] 6 2)) bytes256 = true) by (vm_compute; reflexivity).
  rewrite forallb_forall in E. specialize (E b (byte_in b H)).
  rewrite !andb_true_iff, !N.eqb_eq in E. destruct E as [[[[[[-> ->] ->] ->] ->] ->] ->]. reflexivity.
Qed.
Lemma avc_byte3 b : b < 256 ->
  [b2n (nz (N.land b 128)); b2n (nz (N.land b 64)); b2n (nz (N.land b 32))] = [field [b] 0 1; field [b] 1 1; field [b] 2 1].
Proof.
  intros H.
  assert (E : forallb (fun x => (b2n (nz (N.land x 128)) =? field [x] 0 1) && (b2n (nz (N.land x 64)) =? field [x] 1 1) &&
            (b2n (nz (N.land x 32)) =? field [x] 2 1)) bytes256 = true) by (vm_compute; reflexivity).
  rewrite forallb_forall in E. specialize (E b (byte_in b H)).
  rewrite !andb_true_iff, !N.eqb_eq in E. destruct E as [[-> ->] ->]. reflexivity.
Qed.

Lemma c17_avc p : (4 <= length p)%nat -> bytes_ok p -> avc_fields p = Ok (s_avc_fields p).
Proof.
  intros Hl Hok. destruct p as [|b0 [|b1 [|b2 [|b3 rest]]]]; cbn in Hl; try lia.
  assert (Hb : b0 < 256 /\ b1 < 256 /\ b2 < 256 /\ b3 < 256).
  { repeat match goal with H : bytes_ok (_ :: _) |- _ => inversion H; clear H; subst end.
    repeat match goal with H : Forall _ (_ :: _) |- _ => inversion H; clear H; subst end. repeat split; assumption. }
  destruct Hb as (H0 & H1 & H2 & H3).
  unfold avc_fields, s_avc_fields. cbn [idx nth_error bind]. f_equal.
  set (p := b0 :: b1 :: b2 :: b3 :: rest).
  assert (F : forall i b off w, nth_error p i = Some b -> off + w <= 8 -> field p (8 * N.of_nat i + off) w = field [b] off w)
    by (intros; apply field_nth; assumption).
  pose proof (F 0%nat b0 0 8 eq_refl ltac:(lia)) as E0. cbn in E0.
  pose proof (F 2%nat b2 0 8 eq_refl ltac:(lia)) as E2. cbn in E2.
  pose proof (F 1%nat b1 0 1 eq_refl ltac:(lia)) as A0. pose proof (F 1%nat b1 1 1 eq_refl ltac:(lia)) as A1.
  pose proof (F 1%nat b1 2 1 eq_refl ltac:(lia)) as A2. pose proof (F 1%nat b1 3 1 eq_refl ltac:(lia)) as A3.
  pose proof (F 1%nat b1 4 1 eq_refl ltac:(lia)) as A4. pose proof (F 1%nat b1 5 1 eq_refl ltac:(lia)) as A5.
  pose proof (F 1%nat b1 6 2 eq_refl ltac:(lia)) as A6.
  pose proof (F 3%nat b3 0 1 eq_refl ltac:(lia)) as B0. pose proof (F 3%nat b3 1 1 eq_refl ltac:(lia)) as B1.
  pose proof (F 3%nat b3 2 1 eq_refl ltac:(lia)) as B2.
  cbn in A0, A1, A2, A3, A4, A5, A6, B0, B1, B2.
  rewrite E0, E2, A0, A1, A2, A3, A4, A5, A6, B0, B1, B2.
  rewrite !afl_fact by assumption.
  pose proof (avc_byte1 b1 H1) as P1. pose proof (avc_byte3 b3 H3) as P3.
  inversion P1. inversion P3. reflexivity.
Qed.
