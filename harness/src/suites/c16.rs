//! C16: PAT and PMT section bodies.
use crate::mux::*;
use crate::util::*;

pub fn gen(tier: &str, seed: u64, emit: &mut dyn FnMut(String)) {
    let mut rng = Rng::new(seed ^ 0xC16);
    let big = tier == "thorough";
    // PAT: all body lengths 0..=1012, random entries (program_number 0 now and then, reserved bits either way)
    for len in 0..=1012usize { for _ in 0..(if big { 6 } else { 1 }) {
        let mut b = rng.bytes(len);
        for k in 0..len / 4 { if rng.chance(1, 5) { b[4 * k] = 0; b[4 * k + 1] = 0; } }
        emit(format!("PAT {}", hex(&b)));
    } }
    // PMT: all body lengths 0..=1012 with program_info_length steered around the remaining bytes
    for len in 0..=1012usize { for v in 0..(if big { 12 } else { 3 }) {
        let mut b = rng.bytes(len);
        if len >= 4 {
            let fit = len as i64 - 4;
            let pil = match v % 6 { 0 => 0, 1 => fit - 1, 2 => fit, 3 => fit + 1, 4 => 4095, _ => rng.below(fit.max(1) as u64) as i64 }.clamp(0, 4095) as usize;
            b[2] = (b[2] & 0xf0) | (pil >> 8) as u8; b[3] = pil as u8;
            // steer the first ES_info_length too
            let s = 4 + pil;
            if s + 5 <= len {
                let fit2 = (len - s - 5) as i64;
                let esl = match rng.below(6) { 0 => 0, 1 => fit2 - 1, 2 => fit2, 3 => fit2 + 1, 4 => 4095, _ => rng.below(fit2.max(1) as u64) as i64 }.clamp(0, 4095) as usize;
                b[s + 3] = (b[s + 3] & 0xf0) | (esl >> 8) as u8; b[s + 4] = esl as u8;
            }
        }
        emit(format!("PMT {}", hex(&b)));
    } }
    // well-formed PMTs from the muxer's builder: descriptors of every typed kind, several streams
    for _ in 0..(if big { 20000 } else { 2500 }) {
        let mut pd = vec![];
        for _ in 0..rng.below(3) { pd.extend(rand_desc(&mut rng)); }
        let ns = rng.below(6) as usize;
        let ss: Vec<(u8, u16, Vec<u8>)> = (0..ns).map(|_| { let mut d = vec![]; for _ in 0..rng.below(3) { d.extend(rand_desc(&mut rng)); } (rng.byte(), rng.below(0x2000) as u16, d) }).collect();
        let mut ss = ss;
        // entries that relate to one another: the same PID again (with the same or another type), the same type again,
        // the PCR PID among the streams
        let pcr = if !ss.is_empty() && rng.chance(1, 3) { ss[0].1 } else { rng.below(0x2000) as u16 };
        if ss.len() >= 2 && rng.chance(1, 2) { let k = rng.range(1, ss.len() as u64 - 1) as usize;
            match rng.below(3) { 0 => { ss[k].1 = ss[k - 1].1; } 1 => { ss[k].1 = ss[k - 1].1; ss[k].0 = ss[k - 1].0; } _ => { ss[k].0 = ss[k - 1].0; } } }
        let mut b = pmt_body(pcr, &pd, &ss, &mut rng);
        match rng.below(5) { 0 => { let n = rng.below(5) as usize; let t = rng.bytes(n); b.extend(t); } 1 => { let k = rng.below(b.len() as u64 + 1) as usize; b.truncate(k); } _ => {} }
        emit(format!("PMT {}", hex(&b)));
    }
    gen_streams(big, &mut rng, emit);
}

/// builder-made tables through the whole demultiplexer, in packetisations from "as much as fits" to "exactly the 8 header
/// bytes in the first packet": what the PAT / PMT bodies say must come out as requests
pub fn gen_streams(big: bool, rng: &mut Rng, emit: &mut dyn FnMut(String)) {
    for _ in 0..(if big { 2000 } else { 150 }) {
        let pids = crate::suites::streams::pick_pids(rng, 6);
        let mut m = Mux::new();
        let pat = section(0, 1, rng.below(32) as u8, true, &pat_body(&[(1, pids[0]), (0, pids[5])], rng));
        let ns = rng.range(1, 4) as usize;
        let ss: Vec<(u8, u16, Vec<u8>)> = (0..ns).map(|k| { let mut d = vec![]; for _ in 0..rng.below(3) { d.extend(rand_desc(rng)); } (rng.byte(), pids[1 + k], d) }).collect();
        let mut pd = vec![]; for _ in 0..rng.below(3) { pd.extend(rand_desc(rng)); }
        let pmt = section(2, 1, rng.below(32) as u8, true, &pmt_body(pids[1], &pd, &ss, rng));
        m.psi(0, &pat, if rng.chance(1, 3) { rng.range(1, 20) as usize } else { 0 }, *rng.pick(&[0u64, 2, 2]), rng);
        m.psi(pids[0], &pmt, if rng.chance(1, 3) { rng.range(1, 20) as usize } else { 0 }, *rng.pick(&[0u64, 1, 2, 2]), rng);
        for p in pids.iter() { let pl = rng.bytes(184); m.data_packet(*p, false, &pl, rng); }
        emit(crate::suites::streams::dmx_case(rng.below(2), "", &[m.bytes()]));
    }
}

pub fn rand_desc(rng: &mut Rng) -> Vec<u8> {
    match rng.below(7) {
        0 => { let n = rng.range(0, 8) as usize; let p = rng.bytes(n); descriptor(5, &p) }
        1 => { let n = rng.range(0, 10) as usize; let p = rng.bytes(n); descriptor(10, &p) }
        2 => { let n = rng.range(0, 5) as usize; let p = rng.bytes(n); descriptor(14, &p) }
        3 => { let n = rng.range(0, 6) as usize; let p = rng.bytes(n); descriptor(40, &p) }
        _ => { let n = rng.range(0, 12) as usize; let p = rng.bytes(n); let t = rng.byte(); descriptor(t, &p) }
    }
}
