(* Model/PesObs.v — observation of a PES header: every public accessor, as the harness and Debug do.
   [pol] selects the copyright polarity reported: false = what the code does (model),
   true = what ISO/IEC 13818-1 2.4.3.7 defines (specification); see known finding F5. *)
From TS Require Import Base.Res Model.Timestamp Model.Packet Model.PacketObs Model.Pes.
Open Scope N_scope.

Definition enc_pes_err (e : pes_err) : list N :=
  match e with
  | PesFieldNotPresent => [1]
  | PesPtsDtsFlagsInvalid => [2]
  | PesNotEnoughData r a => [3; n2 r; n2 a]
  | PesMarkerBitNotSet => [4]
  end.
Definition enc_pr {A} (f : A -> list N) (r : rresult A pes_err) : list N :=
  match r with ROk a => 0 :: f a | RErr e => 1 :: enc_pes_err e end.
Definition enc_pts_dts (p : pts_dts) : list N :=
  match p with
  | PtsOnly t => 1 :: enc_ts_result t
  | PtsBoth t d => 2 :: enc_ts_result t ++ enc_ts_result d
  end.
Definition enc_trick (t : trick_mode) : list N :=
  match t with
  | FastForward f i q => [0; f; b2n i; q]
  | SlowMotion r => [1; r]
  | FreezeFrame f r => [2; f; r]
  | FastReverse f i q => [3; f; b2n i; q]
  | SlowReverse r => [4; r]
  | TrickReserved r => [5; r]
  end.

Definition obs_ppc_at (pol : bool) (gbase : N) (base : nat) (buf : list N) : res (list N) :=
  do prio <- ppc_pes_priority buf;
  do al <- ppc_data_alignment_indicator buf;
  do cp <- ppc_copyright buf;
  do oc <- ppc_original_or_copy buf;
  do pd <- ppc_pts_dts buf;
  do escr <- ppc_escr buf;
  do er <- ppc_es_rate buf;
  do tm <- ppc_dsm_trick_mode buf;
  do aci <- ppc_additional_copy_info buf;
  do crc <- ppc_previous_pes_packet_crc buf;
  do ext <- ppc_pes_extension buf;
  do pl <- ppc_payload buf;
  Ok ([prio; b2n al; b2n (if pol then negb cp else cp); b2n oc]
      ++ enc_pr enc_pts_dts pd
      ++ enc_pr enc_clockref escr
      ++ enc_pr (fun v => [v; v * 50]) er
      ++ enc_pr enc_trick tm
      ++ enc_pr (fun v => [v]) aci
      ++ enc_pr (fun v => [v]) crc
      ++ enc_pr (fun _ => []) ext
      ++ [gbase + n2 (base + fst pl); n2 (length (snd pl))]).
Definition obs_ppc (pol : bool) (base : nat) (buf : list N) : res (list N) := obs_ppc_at pol 0 base buf.

Definition obs_pes_header (pol : bool) (buf : list N) : res (list N) :=
  do h <- pes_header_from_bytes buf;
  match h with
  | None => Ok [0]
  | Some h =>
      do sid <- pes_stream_id h;
      do len <- pes_packet_length h;
      do c <- pes_contents_of h;
      do co <- match c with
               | PesPayload d => Ok [2; 6; n2 (length d)]
               | PesParsed None => Ok [0]
               | PesParsed (Some p) => do o <- obs_ppc pol 6 p; Ok (1 :: o)
               end;
      Ok (1 :: sid :: len :: co)
  end.

Definition run_pes (pol : bool) (buf : list N) : option (list N) := opt_of_res (obs_pes_header pol buf).

(* PesParsedContents::from_bytes called directly *)
Definition run_ppc (pol : bool) (buf : list N) : option (list N) :=
  opt_of_res (do c <- ppc_from_bytes buf;
              match c with None => Ok [0] | Some p => do o <- obs_ppc pol 0 p; Ok (1 :: o) end).
