#!/usr/bin/env python3
"""bin/manifest_add.py <Cxx> <level text> <level note> [technique] — add or replace a check entry in MANIFEST.json"""
import json, sys
pid, text, note = sys.argv[1:4]
technique = sys.argv[4] if len(sys.argv) > 4 else "Coq proof over a Gallina model + differential correspondence check"
m = json.load(open('/verif/MANIFEST.json'))
m["checks"] = [c for c in m["checks"] if c["property_id"] != pid]
m["checks"].append({"property_id": pid, "quick_cmd": f"bin/check {pid} --tier quick", "thorough_cmd": f"bin/check {pid} --tier thorough",
  "evidence_file": f"evidence/{pid}.json", "replay_cmd_template": f"bin/check {pid} --replay {{path}}", "engine": "coq-model+correspondence",
  "level_claimed": {"category": "proof", "text": text, "design_ref": f"DESIGN.md section 6, {pid}"}, "level_note": note, "technique": technique})
m["checks"].sort(key=lambda c: c["property_id"])
m["not_applicable"] = [n for n in m["not_applicable"] if n["property_id"] != pid]
m["engines"][0]["serves_properties"] = [c["property_id"] for c in m["checks"]]
json.dump(m, open('/verif/MANIFEST.json', 'w'), indent=1)
