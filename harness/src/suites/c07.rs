//! C07: splitting the input across push calls never changes the result.
use crate::suites::streams::*;
use crate::util::*;

pub fn gen(tier: &str, seed: u64, emit: &mut dyn FnMut(String)) {
    let mut rng = Rng::new(seed ^ 0xC07);
    let big = tier == "thorough";
    let maxn = if big { 13 } else { 9 };
    let mut group = 0u64;
    for i in 0..(if big { 60 } else { 40 }) {
        // a short stream: valid, or hostile (mutated / bad sync / random packets)
        let (m, _t, _p) = valid_stream(&mut rng, 1, 1, true);
        let mut pk = m.pkts.clone();
        if pk.len() > maxn { let start = 0; pk = pk[start..maxn].to_vec(); }
        if i % 2 == 1 {
            for _ in 0..rng.range(1, 4) { let k = rng.below(pk.len() as u64) as usize;
                match rng.below(6) { 0 => pk[k][0] = 0x00, 1 => { let b = rng.below(188) as usize; pk[k][b] ^= 1 << rng.below(8); } 2 => { let d = pk[k].clone(); pk.insert(k, d); }
                    // flagged packets in the middle of a run of equal PIDs (the dispatcher caches the handler across the run)
                    3 => { let mut d = pk[k].clone(); d[1] |= 0x80; pk.insert(k + 1, d); }
                    4 => { let mut d = pk[k].clone(); d[3] |= (rng.range(1, 3) as u8) << 6; pk.insert(k + 1, d); }
                    _ => { pk.remove(k); if pk.is_empty() { pk.push(rng.bytes(188)); } } } }
            if pk.len() > maxn { pk.truncate(maxn); }
        }
        let n = pk.len();
        group += 1;
        // every aligned chunking: bit j of mask set = cut after packet j
        for mask in 0u32..(1u32 << (n - 1)) {
            let mut chunks: Vec<Vec<u8>> = vec![]; let mut cur: Vec<u8> = vec![];
            for (j, p) in pk.iter().enumerate() { cur.extend_from_slice(p); if j + 1 < n && (mask >> j) & 1 == 1 { chunks.push(std::mem::take(&mut cur)); } }
            chunks.push(cur);
            if mask % 7 == 3 { let at = rng.below(chunks.len() as u64 + 1) as usize; chunks.insert(at, vec![]); }   // empty pushes
            let mut line = dmx_case(0, "", &chunks);
            line.push_str(&format!(" #g{}", group));
            emit(line);
        }
    }
    // scripted handlers: changes queued for the handler's own PID, for the PID of the next packet, inserts and removes,
    // with flagged packets in the runs; every aligned chunking
    for _ in 0..(if big { 400 } else { 120 }) {
        let (scripts, pk) = crate::suites::c06::scripted_stream(&mut rng, 2, if big { 10 } else { 8 });
        let n = pk.len();
        group += 1;
        for mask in 0u32..(1u32 << (n - 1)) {
            let mut chunks: Vec<Vec<u8>> = vec![]; let mut cur: Vec<u8> = vec![];
            for (j, p) in pk.iter().enumerate() { cur.extend_from_slice(p); if j + 1 < n && (mask >> j) & 1 == 1 { chunks.push(std::mem::take(&mut cur)); } }
            chunks.push(cur);
            let mut line = dmx_case(0, &scripts, &chunks);
            line.push_str(&format!(" #g{}", group));
            emit(line);
        }
    }
    // an application whose construct() queues changes itself (outside the model: compared across chunkings only): flagged
    // packets on unannounced PIDs leave those changes pending across packets and across push calls
    for _ in 0..(if big { 300 } else { 80 }) {
        let base = (rng.range(0x20, 0x1f00) as u16) & !3;
        let pool = [base, base | 1, base | 2, base | 3];
        let n = rng.range(2, if big { 9 } else { 7 }) as usize;
        let mut pk: Vec<Vec<u8>> = vec![];
        while pk.len() < n { let pid = *rng.pick(&pool); let mut p = rng.bytes(188); p[0] = 0x47; p[1] = (p[1] & 0x60) | (pid >> 8) as u8; p[2] = pid as u8; p[3] &= 0x3f;
            match rng.below(4) { 0 => p[1] |= 0x80, 1 => p[3] |= 0x40, _ => {} } pk.push(p); }
        group += 1;
        for mask in 0u32..(1u32 << (n - 1)) {
            let mut chunks: Vec<Vec<u8>> = vec![]; let mut cur: Vec<u8> = vec![];
            for (j, p) in pk.iter().enumerate() { cur.extend_from_slice(p); if j + 1 < n && (mask >> j) & 1 == 1 { chunks.push(std::mem::take(&mut cur)); } }
            chunks.push(cur);
            let mut line = dmx_case(0, "", &chunks).replacen("DMX", "DMXQ", 1);
            line.push_str(&format!(" #g{}", group));
            emit(line);
        }
    }
    // long streams, random chunkings
    for _ in 0..(if big { 400 } else { 40 }) {
        let (m, _t, _p) = valid_stream(&mut rng, 2, 2, true);
        let mut m = m;
        // now and then a burst of 60..140 chunks without a sync byte in the middle of the stream
        if rng.chance(1, 3) { let at = rng.below(m.pkts.len() as u64 + 1) as usize; let n = rng.range(60, 140) as usize;
            for _ in 0..n { let mut g = rng.bytes(188); if g[0] == 0x47 { g[0] = 0x46; } m.pkts.insert(at, g); } }
        group += 1;
        for v in 0..6 {
            let mut chunks: Vec<Vec<u8>> = vec![]; let mut cur: Vec<u8> = vec![];
            for p in m.pkts.iter() { cur.extend_from_slice(p); if v > 0 && rng.chance(1, 1 + v as u64 * 2) { chunks.push(std::mem::take(&mut cur)); } }
            chunks.push(cur);
            let mut line = dmx_case(0, "", &chunks);
            line.push_str(&format!(" #g{}", group));
            emit(line);
        }
    }
}
