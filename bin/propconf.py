"""Per-property configuration of bin/check."""
from vlib import hex_to_coq

import trace as _trace

def judge_pesf(case, impl, model, spec):
    r = _trace.pesf_judge(case, impl)
    if r:
        return ("violation", r)
    return ("correspondence", "implementation differs from the model although the protocol / continuity predicates hold on its trace")

def judge_sec(case, impl, model, spec):
    r = _trace.sec_judge(case, impl)
    if r:
        return ("violation", r)
    return ("correspondence", "implementation differs from the model although the target section is delivered exactly once")

def judge_dispatch(case, impl, model, spec):
    r = _trace.dispatch_judge(case, impl)
    if r:
        return ("violation", r)
    return ("correspondence", "implementation differs from the model although the per-packet dispatcher specification holds on its trace")

def judge_chunking(case, impl, model, spec):
    # a single line cannot show a chunking dependence; the group comparison (cross) does
    return ("correspondence", "implementation differs from the model on this chunking")

def judge_c02(case, impl, model, spec):
    r = _trace.c02_judge(case, impl)
    if r:
        return ("violation", r)
    return ("correspondence", "implementation differs from the model although every PES payload is delivered exactly")

def mk_history_judge(prop):
    def j(case, impl, model, spec):
        v = _trace.history_judge(case, impl, prop)
        if v[0] == "violation": return ("violation", v[1])
        if v[0] == "known": return ("known", v[1])
        if impl != model:
            return ("correspondence", "implementation differs from the model although the routing predicate holds on its trace")
        return ("ok", None)
    return j

def judge_panic(case, impl, model, spec):
    if impl.startswith("PANIC"):
        return ("violation", "the implementation panicked on this input")
    return ("correspondence", "implementation and model differ on this hostile input, but the implementation did not panic")

def two_subtables(case):
    """ALLOC case in which one PID carries program-map sections (pointer_field 0) of two different programs with different
    version_numbers (warm-up and steady part taken together), at least one of them in the steady part (finding F10)"""
    toks = case.split()
    seen = {}; steady_pids = set()
    for part in (1, 2):
        d = bytes.fromhex(toks[part][1:])
        for k in range(len(d) // 188):
            b = d[k * 188:(k + 1) * 188]
            if b[0] != 0x47: continue
            p = _trace.Pkt(b); pl = p.payload()
            if not p.pusi or pl is None or len(pl) < 9 or pl[0] != 0 or pl[1] != 2: continue
            seen.setdefault(p.pid, set()).add(((pl[4] << 8) | pl[5], (pl[6] >> 1) & 31))
            if part == 2: steady_pids.add(p.pid)
    return any(pid in steady_pids and len({e for e, _ in s}) >= 2 and len({v for _, v in s}) >= 2 for pid, s in seen.items())

def judge_c19(case, impl, model, spec):
    if impl.startswith("PANIC"):
        return ("violation", "the implementation panicked")
    v = [int(x) for x in impl.split()]
    if case.startswith("ALLOC") and (v[0] != 0 or v[3] != 0) and v[1] == 0 and two_subtables(case):
        return ("known", "F10")
    if case.startswith("ALLOC"):
        if v[0] != 0: return ("violation", f"{v[0]} heap allocations while demultiplexing steady-state packets (all PIDs seen, tables stable)")
        if v[1] != 0: return ("violation", f"{v[1]} payload slices delivered to consumers lie outside the buffer passed to push")
        if v[3] != 0: return ("violation", f"{v[3]} handler requests during the steady state")
    if case.startswith("SECA"):
        if v[0] != 0: return ("violation", f"{v[0]} heap allocations while the section chain re-assembles repetitions of a stable section (its buffer is not re-used)")
        if len(v) > 2 and v[2] != 0: return ("violation", f"{v[2]} sections that fit in one transport packet were delivered from a copy, not as a slice of the packet")
        return ("correspondence", "the number of sections delivered in the steady part differs from the number transmitted")
    if case.startswith("MEM") and v[0] != 1:
        return ("violation", "retained heap memory keeps growing with the length of a hostile stream (or exceeds the bound)")
    return ("correspondence", "the number of payload slices differs from the model's")

COMMON_TRUSTED = [
    "Coq 8.16.1 kernel (coqc); vm_compute for finite sweeps and case evaluation; no native_compute",
    "axioms: none (every property theorem is 'Closed under the global context')",
    "hand-written Gallina model of the Rust functions (coq/Model), tied to /repo by the correspondence check",
    "extraction: ExtrOcamlBasic only (bool, option, unit, list, prod, sumbool, sumor mapped to OCaml's; no Extract Constant); ocamlfind ocamlopt 4.13.1",
    "Rust harness /verif/harness (recording handlers, observation encoder, generators), OCaml driver, bin/check",
    "translator bin/gen_tables.py (CRC table + named constants copied from the source into coq/Gen)",
]

def r_hex1(fn):
    return lambda toks: f"{fn} {hex_to_coq(toks[1])}"

def r_c15(toks):
    k = toks[0]
    if k == "TSB": return f"run_tsb {hex_to_coq(toks[1])}"
    if k == "TSU": return f"run_tsu {toks[1]}"
    if k == "TSW": return f"run_tsw {toks[1]} {toks[2]}"
    if k == "CRP": return f"run_crp {toks[1]} {toks[2]}"
    if k == "CRS": return f"run_crs {hex_to_coq(toks[1])}"

def r_c13(toks):
    return f"{'run_af' if toks[0] == 'AF' else 'run_packet'} {hex_to_coq(toks[1])}"

def coq_scripts(tok):
    body = tok[1:]
    ents = []
    for ent in [e for e in body.split(";") if e]:
        pid, invs = ent.split("=", 1)
        il = []
        for inv in invs.split("|"):
            acts = []
            for a in [x for x in inv.split(",") if x]:
                if a[0] == "r":
                    acts.append(f"ARemove {a[1:]}")
                else:
                    p, k = a[1:].split(".", 1)
                    kind = "KRec" if k[0] == "R" else "KPes" if k[0] == "P" else f"(KScript {k[1:]})"
                    acts.append(f"AInsert {p} {kind}")
            il.append("[" + "; ".join(acts) + "]")
        ents.append(f"({pid}, [" + "; ".join(il) + "])")
    return "[" + "; ".join(ents) + "]"

def r_stream(toks):
    """DMX / SEC / PESF cases; skipped (None) when too large for an in-Coq evaluation"""
    k = toks[0]
    if k == "DMX":
        if sum(len(t) for t in toks[3:]) > 8000: return None
        return f"run_dmx {toks[1]} {coq_scripts(toks[2])} [" + "; ".join(hex_to_coq(t) for t in toks[3:]) + "]"
    if k == "SEC":
        if sum(len(t) for t in toks[2:]) > 8000: return None
        return f"run_sec {toks[1]} [" + "; ".join(hex_to_coq(t) for t in toks[2:]) + "]"
    if k == "PESF":
        if sum(len(t) for t in toks[1:]) > 8000: return None
        return f"run_pesf {toks[1]} [" + "; ".join(hex_to_coq(t) for t in toks[2:]) + "]"
    if k == "CRC": return f"run_crc {hex_to_coq(toks[1])}"
    if k == "DSC": return f"run_dsc {hex_to_coq(toks[1])}"
    if k == "PAT": return f"run_pat {hex_to_coq(toks[1])}"
    if k == "PMT": return f"run_pmt {hex_to_coq(toks[1])}"
    return None

def r_c14(toks):
    return f"{'run_pes' if toks[0] == 'PES' else 'run_ppc'} false {hex_to_coq(toks[1])}"

def r_c19(toks):
    if toks[0] == "ALLOC" and len(toks[1]) + len(toks[2]) < 9000:
        return f"run_alloc {hex_to_coq(toks[1])} {hex_to_coq(toks[2])}"
    return None

PROPS = {
    "C19": dict(
        props_files=["Props/C19.v"],
        suites=["C19"],
        render=r_c19,
        judge=judge_c19,
        judge_always=True,
        rule="two-phase streams: warm-up (PAT, single- and multi-packet PMTs, one PES packet on every elementary PID, a null packet) "
             "(every tenth stream: two programs on ONE program-map PID with equal versions; every twentieth: with different versions = finding F10) "
             "then a steady part of 3..19 items drawn from {repeated PAT, repeated PMT, null packet, further PES packets of every "
             "header shape and size}, pushed in 7-packet buffers through an allocation-free application under a counting global "
             "allocator: allocations, requests and out-of-buffer slices during the steady part must be 0 and the number of payload "
             "slices must equal the model's; hostile streams of 3000..10500 (thorough up to 256000) packets over 25 PIDs with section- "
             "and PES-shaped starts, and section-layer stress streams (endless aborted starts with changing versions; one start and endless "
             "continuations; on PID 0 and on a PMT PID): live heap after the whole stream <= live heap after its first quarter + 16 KiB; distinct = distinct case lines",
        trusted=["harness/src/quiet.rs: counting GlobalAlloc wrapper and the allocation-free recording application",
                 "Vec's capacity policy, FixedBitSet's allocation and the system allocator are runtime behaviour outside the model (sampled)"],
        assumptions=["the installed logger is enabled at every level but formats nothing (the log macros' arguments are evaluated, nothing is allocated)", "PARTIAL: allocation counts and slice addresses are measured on generated streams, not proved"],
    ),
    "C01": dict(
        shrink=True,
        props_files=["Props/C01.v"],
        suites=["C01"],
        fuzzing=True,
        render=r_stream,
        judge=judge_panic,
        judge_always=True,
        coq_sample=6,
        rule="valid multi-program streams (with repeated tables) under five kinds of hostile edit: none; 1..11 length-like bytes "
             "steered to boundary values (adaptation_field_length 0/1/181..184/255, pointer_field, section_length, 12-bit lengths, PES "
             "header length, adaptation control, sync byte, single bit flips); dropped / duplicated / swapped packets; table PIDs "
             "flooded with section-shaped junk of boundary lengths, half with a valid CRC; grammar-directed hostile sequences on the table "
             "PIDs (starts leaving 0..8 bytes outstanding, pointer_field at/beyond the end, starts with <3 / <8 bytes, continuations, "
             "payload-less packets); pure random packets; plus truncation and "
             "unaligned junk inserted between packets; the repository's own fuzz corpus; random byte strings; five chunking styles "
             "(whole, per packet, random aligned, random unaligned 1..700 bytes, byte-by-byte); every case with the deep observer "
             "(every accessor and Debug rendering of every packet, adaptation field, PES header, PMT, stream and descriptor handed "
             "to a call-back) and in both the normal and the cfg(fuzzing) build, under catch_unwind; distinct = distinct case lines",
        trusted=["the panic sites of the modelled functions are the checked operations of coq/Model/*.v (hand-transcribed; compared with the code by the correspondence on hostile input in both cfgs)",
                 "log::warn! side effects and the content of Debug strings are outside the model"],
        assumptions=["construct() and consumers do not panic themselves and queue changes only as scripted", "theorem C01_push_total is for the shallow observer; accessor totality is by the exactness theorems C12-C17"],
    ),
    "C05": dict(
        props_files=["Props/C05.v"],
        suites=["C05"],
        render=r_stream,
        judge=mk_history_judge("C05"),
        judge_always=True,
        rule="histories of PAT / PMT versions on 1..3 programs: programs added, removed, reordered; streams added, removed, re-typed, "
             "reversed; single- and multi-packet PMTs; re-listed programs repeating their PMT; a network (program_number 0) entry in a "
             "fifth; after every step one probe packet on every PID of interest; every 23rd history shares an elementary PID between "
             "two programs (finding F7) and every 23rd lets a PID migrate from one program to another (never listed by both at once); the routing the latest valid tables call for is recomputed from the transmitted tables and "
             "compared with the request each probe's handler was built from; distinct = distinct case lines every 23rd history ends with a program map listing its own PID (the later table application decides a PID with two roles)",
        trusted=["harness/src/suites/hist.rs (history generator and its annotations)", "bin/trace.py history_judge (ideal routing table; known-class predicates F2 / F7 / F8)"],
        assumptions=["single-section tables marked current; one table per PID (current_next_indicator and section_number are ignored by the processors)"],
    ),
    "C10": dict(
        props_files=["Props/C10.v"],
        suites=["C10"],
        render=r_stream,
        judge=mk_history_judge("C10"),
        judge_always=True,
        rule="after the tables are installed, 1..3 rounds of: an open PES packet whose transport packets straddle 1..6 (thorough 40) "
             "repetitions of the PAT / a PMT (single- and multi-packet), a PMT version change and change back now and then; every 17th "
             "history changes the PAT version first (finding F8); no request may be caused by a repetition and the ES call-back protocol "
             "must hold; payload-less packets on the table PIDs inside and behind a quarter of the transmissions; every fourth history adds "
             "a burst of 2..5 tightly packed copies of a re-sized PMT (the second copy starting with 1..100 of its bytes left in the packet: "
             "finding F9 for 1..2, copy not parsed for 3..7); distinct = distinct case lines",
        trusted=["harness/src/suites/hist.rs", "bin/trace.py history_judge / reset_packets (known class F9)"],
        assumptions=["repetitions are undamaged transmissions with a valid pointer_field"],
    ),
    "C11": dict(
        props_files=["Props/C11.v"],
        suites=["C11"],
        render=r_stream,
        judge=mk_history_judge("C11"),
        judge_always=True,
        rule="a PAT or PMT transmission (single- or multi-packet; a quarter of the time the very first copy in the stream) damaged by "
             "1..3 bit flips anywhere in the section, a dropped packet, truncation by the next start, or a hit on the section header "
             "(section_syntax_indicator cleared / length above the limit); then 1..3 intact copies with "
             "the same version and one with a bumped version, probes after each; an intact table whose version differs from the one "
             "last applied must be applied, unless its version equals that of a section started but not applied since (finding F2); "
             "distinct = distinct case lines",
        trusted=["harness/src/suites/hist.rs", "bin/trace.py history_judge / started_version (known class F2)"],
        assumptions=[],
    ),
    "C02": dict(
        props_files=["Props/C02.v"],
        suites=["C02"],
        render=r_stream,
        judge=judge_c02,
        judge_always=True,
        rule="valid streams from the muxer with ground truth: 1..4 programs x 1..3 streams, 1..5 PES packets per stream with "
             "payload sizes in {0, 1, exactly filling one / two transport packets with 9/14/19-byte headers, 2..40, 150..200, random "
             "up to 900}, header shapes (no PTS / PTS / PTS+DTS / extra header bytes / header-less stream ids, bounded and unbounded "
             "length), four packetisation styles (max, random 1..184, tiny 1..8, header-exact first chunk), adaptation-field stuffing, "
             "payload-less PCR packets, random interleaving of PIDs, repeated PAT/PMT, null packets, random push boundaries; half with "
             "deep header observation; the implementation's deliveries are re-assembled and compared with the multiplexed payloads; "
             "distinct = distinct case lines",
        trusted=["harness/src/mux.rs: the muxer and its ground truth (independent of the crate under test)",
                 "bin/trace.py c02_judge: re-assembly predicate on the implementation's trace"],
        assumptions=["each PES header lies wholly within the transport packet that starts it (as the property states)"],
    ),
    "C06": dict(
        shrink=True,
        props_files=["Props/C06.v"],
        suites=["C06"],
        render=r_stream,
        judge=judge_dispatch,
        rule="random packet sequences over 2..6 PIDs drawn from {1, 0x10, 0x11, 0x1ffe, 0x1fff} and random PIDs, runs of 1..12 "
             "same-PID packets, 15% flagged packets (TEI, scrambling 01/10/11, both), bad sync bytes in a third of the streams, random "
             "packet-aligned push boundaries, a quarter of the cases with scripted (change-queuing) handlers; thorough adds one packet "
             "on each of the 8191 non-zero PIDs in both orders; distinct = distinct case lines PID pools contain PIDs at Hamming distance 1 from one another; plus table-driven registrations colliding with the tables' own PIDs (judged by the model only)",
        trusted=["bin/trace.py dispatch_reference: the per-packet dispatcher specification recomputed in Python on the input (classifies disagreements only)"],
        assumptions=["application handlers and construct() do not touch the change-set except as scripted", "PID 0 traffic (PAT semantics) is exercised by the table suites, not here"],
    ),
    "C18": dict(
        shrink=True,
        props_files=["Props/C18.v"],
        suites=["C18"],
        render=r_stream,
        judge=judge_dispatch,
        rule="as C06 but every case has 1..3 scripted handlers whose n-th packet queues 0..3 insert/remove requests (any PID incl. "
             "their own, recorder / PES / scripted replacements, repeated targets), over packet sequences with long same-PID runs; "
             "distinct = distinct case lines plus single invocations queueing 255..513 requests (inserts then removes, many for one PID, alternating)",
        trusted=["bin/trace.py dispatch_reference (folds the scripts over the table; classifies disagreements only)"],
        assumptions=["handlers queue changes only while consuming a packet"],
    ),
    "C07": dict(
        props_files=["Props/C07.v"],
        suites=["C07"],
        render=r_stream,
        judge=judge_chunking,
        cross=_trace.chunking_groups,
        exhaustive=True,
        rule="40 short streams (<= 9 packets; thorough 60 of <= 13), half well-formed (PAT, PMT, PES with repeats), half hostile "
             "(bad sync, bit flips, duplicated / dropped packets, a transport-error or scrambled copy right behind a packet of the same "
             "PID), each pushed under ALL 2^(n-1) packet-aligned chunkings with empty pushes inserted; 120 (thorough 400) scripted streams "
             "of 2..8 (10) packets over 2..3 PIDs whose handlers queue inserts / removes incl. for their own PID, under all chunkings; 40 long streams under 6 random chunkings; the implementation's full call-back trace must equal that "
             "of the single push; distinct = distinct case lines",
        trusted=["bin/trace.py chunking_groups: implementation-vs-implementation comparison across chunkings"],
        assumptions=["chunk boundaries are packet-aligned, as the property states"],
    ),
    "C03": dict(
        props_files=["Props/C03.v"],
        suites=["C03"],
        render=r_stream,
        judge=judge_sec,
        rule="both syntaxes x every section_length 0..=1021 plus over-limit lengths x first-chunk size in {header, header+1, |S|-1, "
             "|S|, room, random} x pointer_field in {0, 1, random, exactly the pending tail, one more, maximal} x continuation sizes in "
             "{184, 1, random, exact fit, one short + 1, last piece as the pointer-delimited head of the next start packet} x prior "
             "state of the PID in {idle, mid-section, abandoned (rejected start), just completed}; the full cross product for 18 boundary "
             "lengths; adaptation-field stuffing and payload-less packets in between; distinct = distinct case lines",
        trusted=["13818-1 2.4.4 pointer_field / section syntax as used by the generator (harness/src/suites/c03.rs)",
                 "bin/trace.py sec_judge: predicate evaluated on the implementation's deliveries (classifies disagreements only)"],
        assumptions=["at most one section starts per transport packet and that packet carries at least the section's fixed header (8 / 3 bytes), as the property states"],
    ),
    "C08": dict(
        shrink=True,
        props_files=["Props/C08.v"],
        suites=["C08"],
        render=r_stream,
        judge=judge_pesf,
        rule="every word up to length 3 (thorough 4) over 30 packet classes (unit start x payload presence AFC 01/11/10 x counter "
             "relation successor/equal/other x PES header recognisable or not) from the initial filter state; all 16x16 counter "
             "pairs x payload/none x unit-start from each of the three filter states; random words of length 4..30 with deep "
             "header observation; loss / duplication / reordering mutants of clean streams; distinct = distinct case lines adaptation fields carry the discontinuity / priority / random-access flags at random",
        trusted=["call-back protocol of the ElementaryStreamConsumer trait documentation as transcribed in coq/Spec/EsProtocol.v",
                 "bin/trace.py: run-time monitor evaluated on the implementation's trace (classifies disagreements only)"],
        assumptions=["packets handed to the filter are 188 bytes with a sync byte (Packet::new's precondition)"],
    ),
    "C09": dict(
        shrink=True,
        props_files=["Props/C09.v"],
        suites=["C08"],
        render=r_stream,
        judge=judge_pesf,
        rule="same suite as C08 (exhaustive 16 x 16 counter pairs x payload/no-payload x unit-start from every filter state; "
             "all short words over the packet classes; loss/duplication/reordering mutants); the predicate evaluated on the "
             "implementation's trace is the iff of C09_iff recomputed from the packets by an independent packet reader adaptation fields carry the discontinuity / priority / random-access flags at random",
        trusted=["13818-1 2.4.3.3 continuity_counter semantics as transcribed in coq/Spec/EsProtocol.v (expected_cc)",
                 "bin/trace.py: run-time predicate evaluated on the implementation's trace (classifies disagreements only)"],
        assumptions=["'previous packet delivered' means delivered to this filter: packets with transport_error_indicator or scrambling never reach it (C06)"],
    ),
    "C16": dict(
        fuzzing=True,
        props_files=["Props/C16.v"],
        suites=["C16"],
        render=r_stream,
        rule="PAT: every body length 0..=1012 with random entries (program_number 0 in a fifth of them, reserved bits either "
             "way); PMT: every body length 0..=1012 with program_info_length in {0, fit-1, fit, fit+1, 4095, random} and the first "
             "ES_info_length steered the same way; builder-made PMTs with typed descriptors, 0..5 streams, random tails and "
             "truncation; distinct = distinct case lines; every accessor of every entry is evaluated (PMT: twice on one value, and on a second value back to front first: answers must not depend on call history) builder-made PMTs also with entries related to one another (same PID again with the same or another type, same type again, PCR PID among the streams)",
        trusted=["13818-1 Tables 2-30 and 2-33 as transcribed in coq/Spec/TablesSpec.v"],
        assumptions=["input bytes are < 256"],
    ),
    "C17": dict(
        fuzzing=True,
        props_files=["Props/C17.v"],
        suites=["C17"],
        render=r_stream,
        rule="all 256 tags x payload lengths 0..=6; payload lengths 0..=255 for each typed descriptor (registration, ISO-639 with "
             "audio types steered to 0..5, maximum bitrate, AVC); exhaustive loops over (tag class in {5,10,14,40,0,200}, length in "
             "{0,1,3,4,5}) sequences up to total length 10 (thorough 14) with truncated and over-long tails; random loops of up to 5 "
             "descriptors with random tails / truncation; distinct = distinct case lines, every accessor of every item is evaluated plus the AVC descriptor over the profile_idc / level_idc values H.264 defines x flags bytes, and boundary values of the maximum-bitrate field; loops around and beyond 1 KiB, 4 KiB and 64 KiB",
        trusted=["13818-1 2.6 (Table 2-45 and the typed descriptors' syntax) as transcribed in coq/Spec/DescriptorSpec.v",
                 "encoding_rs::mem::decode_latin1 modelled as the identity on code points; smptera FormatIdentifier as its 4 bytes"],
        assumptions=["input bytes are < 256", "typed descriptors' buffers are private: tag and payload offset are observed only for UnknownDescriptor and through additional_identification_info()"],
    ),
    "C04": dict(
        props_files=["Props/C04.v"],
        suites=["C04"],
        render=r_stream,
        rule="checksum: the empty string, all 256 one-byte and all 65536 two-byte strings (every table index reached), random "
             "strings up to 1024 bytes (thorough: 4096) and each of them followed by its CRC, compared with the extracted *bitwise* "
             "Annex A register (not the table model); gate: PAT/PMT installs handlers, then the next version of the PAT or PMT "
             "arrives damaged (every single bit for sections <= 80 bytes, sampled bit pairs, bursts of 2..32 bits, random byte "
             "damage; single- and multi-packet), then probe packets on every PID of interest; also the applied table itself re-sent with "
             "another version_number, damaged body and its old CRC_32 field; distinct = distinct case lines also: next-version tables whose CRC_32 field holds a meaningful wrong value (zero, all ones, copies of section bytes, complemented / byte-swapped / offset CRC); and three-step histories (applied table; something that makes the de-duplication layer forget it; the table again with only body bytes damaged); and next-version tables with a verifying code word INSIDE them (section_length counts 1..16 stuffing bytes behind a CRC_32 that is right for the bytes before them; CRC_32 right for the section without its first 1/3/8 bytes)",
        trusted=["ISO/IEC 13818-1 Annex A decoder model as transcribed in coq/Spec/CrcSpec.v",
                 "CRC table and preset are copied from the source by bin/gen_tables.py on every run; the table proof is re-checked against them"],
        assumptions=["input bytes are < 256", "the CRC gate is stated for the normal build; under cfg(fuzzing) the comparison is bypassed by design"],
    ),
    "C14": dict(
        fuzzing=True,
        props_files=["Props/C14.v"],
        suites=["C14"],
        render=r_c14,
        known_when_model_differs="F5",
        rule="all 256 stream ids x buffer lengths around the fixed header; start-code deviations; all 256 flag bytes x "
             "PES_header_data_length in {0, need-1, need, need+1, need+3, 255} x buffer length in {end-2..end+1, end+30} x marker bits "
             "set/random; all 256 values of the first optional-header byte; all 256 trick-mode bytes at each of the 8 positions the "
             "preceding flags imply; PesParsedContents::from_bytes on steered buffers; random short buffers; every accessor asked twice on one value and on a second value in the opposite order first; distinct = distinct "
             "case lines, every one evaluates every accessor of whatever is returned plus PES_packet_length steered around the bytes available (0, 1, avail-1, avail, avail+1, 0xffff) for every stream id; PTS/DTS equal, one tick apart, across the wrap",
        trusted=["13818-1 Table 2-21 / 2.4.3.7 as transcribed in coq/Spec/PesSpec.v"],
        assumptions=["input bytes are < 256", "StreamId has no numeric accessor: its value is recovered from equality with the public constants and its Debug rendering",
                     "PesExtension is opaque in the crate: only presence is observed"],
    ),
    "C13": dict(
        fuzzing=True,
        props_files=["Props/C13.v"],
        suites=["C13"],
        render=r_c13,
        rule="all 256 flag bytes x all adaptation-field lengths 1..=183 x fill in {00, FF, counting, random} with the private-data "
             "and extension length bytes steered to {0, 1, fit-1, fit, fit+1, ...}; all 8 extension flag sets x extension lengths "
             "0..=12 x 8 preceding-field combinations with truncation; adaptation fields delimited by Packet::adaptation_field; "
             "distinct = distinct case lines; all non-trivial (every accessor is evaluated on every case); every accessor is asked twice on one value and, on a second value, in the opposite order first (answers must not depend on call history)",
        trusted=["13818-1 Table 2-6 as transcribed in coq/Spec/AdaptationSpec.v (sequential byte-cursor reader)"],
        assumptions=["input bytes are < 256", "AdaptationField::new is only specified for non-empty slices (its documented precondition)"],
    ),
    "C15": dict(
        fuzzing=True,
        props_files=["Props/C15.v"],
        suites=["C15"],
        render=r_c15,
        rule="constructor arguments by boundary class (0, 2^32+-1, 2^33+-1, 2^34+-1, u64::MAX, ...) and random; 40-bit "
             "encodings with every prefix x every marker-bit combination and random value bits; encode/decode of boundary "
             "values; (earlier, distance) pairs by boundary class and random; ClockRef parts by boundary class; random "
             "6-byte PCR slices; distinct = distinct case lines, all non-trivial (each calls the API function under test)",
        trusted=["13818-1 2.4.3.7 PTS/DTS layout and 2.4.3.5 PCR layout as transcribed in coq/Spec/TimestampSpec.v"],
        assumptions=["input bytes are < 256", "from_bytes / from_slice are only specified for buffers of at least 5 / 6 bytes (their documented precondition)"],
    ),
    "C12": dict(
        fuzzing=True,
        props_files=["Props/C12.v"],
        suites=["C12"],
        render=r_hex1("run_packet_c12"),
        exhaustive=True,
        rule="exhaustive over header bytes (b1,b2) and over (b3, adaptation_field_length), all 256 sync-byte values; "
             "remaining bytes random from VERIF_SEED, plus every header byte 3 x boundary lengths with constant filler behind the header (flags byte 0x00/0xff/0x10/random, then all 0xff or all 0x00: stuffing as multiplexers emit it); distinct = distinct case lines; every case is non-trivial "
             "(each exercises all header accessors, the payload split and the adaptation-field range fingerprint) plus the PIDs with a meaning of their own (0, 1, 2, 0x10, 0x11, 0x1ffb, 0x1ffe, 0x1fff) x every header byte 3 x boundary adaptation_field_lengths",
        trusted=["ISO/IEC 13818-1 2.4.3.2 header layout as transcribed in coq/Spec/PacketSpec.v"],
        assumptions=["input bytes are < 256 (true of every u8)", "AdaptationField exposes no raw-bytes accessor: its range is observed through transport_private_data() probes (range fingerprint)"],
    ),
}
