//! C19: zero-copy, allocation-free steady state, bounded retained memory.
use crate::mux::*;
use crate::suites::streams::*;
use crate::util::*;

fn pes_unit(m: &mut Mux, pid: u16, rng: &mut Rng) {
    let sid = if rng.chance(1, 6) { 0xbe } else { 0xe0 + rng.below(16) as u8 };
    let spec = PesSpec { stream_id: sid, pts: if rng.chance(3, 4) { Some(rng.below(1 << 33)) } else { None }, dts: None, extra_hdr: 0, bounded: rng.chance(1, 2),
                         payload: pes_payload(rng), opt_flags: if rng.chance(1, 4) { rng.byte() & 0x3f } else { 0 }, opt_fill: rng.bytes(8) };
    let (bytes, hl) = pes_packet(&spec);
    m.unit(pid, &bytes, rng.below(4), hl, rng);
}

pub fn gen(tier: &str, seed: u64, emit: &mut dyn FnMut(String)) {
    let mut rng = Rng::new(seed ^ 0xC19);
    let big = tier == "thorough";
    // two-phase streams: warm-up (tables, every PID seen), then steady state (more PES packets, repeated tables, null packets)
    for i in 0..(if big { 6000 } else { 400 }) {
        let mut progs = gen_programs(&mut rng, 1 + (i % 3) as usize);
        // every tenth stream: two programs whose maps travel on ONE PID with the same version_number (two sub-tables of one
        // PID: the second is taken for a repetition); every twentieth: with different versions (finding F10)
        let shared_pmt_pid = i % 10 == 7 && progs.len() >= 2;
        if shared_pmt_pid { progs[1].pmt_pid = progs[0].pmt_pid; let n = progs.iter().map(|p| p.number).max().unwrap() + 1; progs[1].number = n; }
        let mut m = Mux::new();
        let pat = section(0, 7, 1, true, &pat_body(&progs.iter().map(|p| (p.number, p.pmt_pid)).collect::<Vec<_>>(), &mut rng));
        let pmts: Vec<Vec<u8>> = progs.iter().enumerate().map(|(idx, p)| { let ver = if shared_pmt_pid && i % 20 == 17 && idx == 1 { 4 } else { 3 }; let ss: Vec<(u8, u16, Vec<u8>)> = p.streams.iter().map(|(t, e)| (*t, *e, if i % 4 == 0 { descriptor(0x80, &vec![0x41; 70]) } else { vec![] })).collect();
            section(2, p.number, ver, true, &pmt_body(p.pcr_pid, &[], &ss, &mut rng)) }).collect();
        m.psi(0, &pat, 0, 0, &mut rng);
        for (p, s) in progs.iter().zip(pmts.iter()) { m.psi(p.pmt_pid, s, 0, rng.below(2), &mut rng); }
        let epids: Vec<u16> = progs.iter().flat_map(|p| p.streams.iter().map(|s| s.1)).collect();
        for e in epids.iter() { pes_unit(&mut m, *e, &mut rng); }
        let null = |m: &mut Mux, rng: &mut Rng| { let pl = vec![0xffu8; 184]; let cc = rng.below(16) as u8; m.pkts.push(ts_packet(0x1fff, false, cc, false, 0, None, &pl)); };
        null(&mut m, &mut rng);
        let warm = m.bytes(); m.pkts.clear();
        for _ in 0..rng.range(3, 20) {
            match rng.below(7) {
                // payload-less packets (e.g. the PCR carried on a table PID) between the repetitions of that table
                6 => { let pid = if rng.chance(1, 3) { 0 } else { progs[rng.below(progs.len() as u64) as usize].pmt_pid }; let pcr = rng.next(); m.af_only(pid, Some(pcr), &mut rng); }
                0 => m.psi(0, &pat, 0, 0, &mut rng),
                1 => { let j = rng.below(progs.len() as u64) as usize; m.psi(progs[j].pmt_pid, &pmts[j], 0, rng.below(2), &mut rng); }
                2 => null(&mut m, &mut rng),
                _ => { let e = *rng.pick(&epids); pes_unit(&mut m, e, &mut rng); }
            }
        }
        emit(format!("ALLOC {} {}", hex(&warm), hex(&m.bytes())));
    }
    // the section chain alone: a stable section (20..1000 bytes, one to six packets) transmitted 3 times (warm-up) and then 20
    // more times: the re-assembly buffer is re-used, nothing is allocated; every transmission is delivered
    for i in 0..(if big { 400 } else { 40 }) {
        let compact = i % 2 == 1;
        let l = *rng.pick(&[20usize, 100, 180, 181, 200, 365, 400, 512, 513, 700, 1000, 1021]);
        let mut s = vec![rng.byte(), (if compact { 0x00 } else { 0x80 }) | 0x30 | ((l >> 8) as u8 & 0x0f), l as u8]; let body = rng.bytes(l); s.extend(body);
        let mut m = Mux::new();
        // one packetisation per case: the warm-up must have needed the re-assembly buffer as much as the steady part does
        let mut pk: Vec<Vec<u8>> = { let mut one = Mux::new(); one.psi(0x40, &s, 0, rng.below(3), &mut rng); one.pkts };
        for p in pk.iter_mut() { p[3] &= 0xf0; }
        for _ in 0..3 { for p in pk.iter() { m.pkts.push(p.clone()); } }
        let nw = m.pkts.len();
        for _ in 0..20 { for p in pk.iter() { m.pkts.push(p.clone()); } }
        let mut line = format!("SECA {} {}", compact as u8, nw); for p in m.pkts.iter() { line.push(' '); line.push_str(&hex(p)); }
        line.push_str(" #n20");
        emit(line);
    }
    // hostile streams of growing length over a small PID universe: retained memory must level off
    for i in 0..(if big { 24 } else { 6 }) {
        let npk = if big { 20000 + 4000 * i } else { 3000 + 1500 * i } as usize;
        let pids = pick_pids(&mut rng, 24);
        let mut b = Vec::with_capacity(npk * 188);
        for _ in 0..npk {
            let mut p = rng.bytes(188);
            p[0] = 0x47; let pid = if rng.chance(1, 5) { 0 } else { *rng.pick(&pids) };
            p[1] = (p[1] & 0x60) | (pid >> 8) as u8; p[2] = pid as u8; p[3] &= 0x3f;
            if rng.chance(1, 2) { p[3] = (p[3] & 0x0f) | 0x10; p[1] |= 0x40 * (rng.below(2) as u8); if p[1] & 0x40 != 0 { p[4] = 0; p[5] = if pid == 0 { 0 } else { 2 }; p[6] = 0xb0 | (rng.byte() & 3); } }
            b.extend(p);
        }
        emit(format!("MEM {}", hex(&b)));
    }
    // section-layer stress on the PAT PID and on a PMT PID created by a valid PAT: (a) an endless run of multi-packet section
    // starts that never complete, each with another version; (b) one long section start followed by an endless run of
    // continuation packets; (c) a mix with sections that do complete.  Retained memory must level off in all of them.
    for i in 0..(if big { 18 } else { 6 }) {
        let npk = if big { 20000 + 2000 * i } else { 2500 + 500 * i } as usize;
        let on_pmt = i % 2 == 1;
        let pmt_pid = 0x30 + i as u16;
        let mut m = Mux::new();
        if on_pmt { let pat = section(0, 1, 0, true, &pat_body(&[(1, pmt_pid)], &mut rng)); m.psi(0, &pat, 0, 0, &mut rng); }
        let pid = if on_pmt { pmt_pid } else { 0 };
        let tid = if on_pmt { 2u8 } else { 0 };
        let start = |m: &mut Mux, k: usize, len: usize, rng: &mut Rng| {
            let mut pl = vec![0u8, tid, 0xb0 | (len >> 8) as u8, len as u8, 0, 1, 0xc1 | ((k % 32) as u8) << 1, 0, 0];
            let body = rng.bytes(184 - pl.len()); pl.extend(body); m.data_packet(pid, true, &pl, rng); };
        let mut k = 0usize;
        start(&mut m, k, 1021, &mut rng);
        while m.pkts.len() < npk {
            k += 1;
            match (i / 2) % 3 {
                0 => start(&mut m, k, if rng.chance(1, 2) { 1021 } else { rng.range(200, 1021) as usize }, &mut rng),
                1 => { let pl = rng.bytes(184); m.data_packet(pid, false, &pl, &mut rng); }
                _ => { if rng.chance(1, 3) { start(&mut m, k, *rng.pick(&[20usize, 150, 181, 400, 1021]), &mut rng); } else { let n = rng.range(1, 184) as usize; let pl = rng.bytes(n); m.data_packet(pid, false, &pl, &mut rng); } }
            }
        }
        emit(format!("MEM {}", hex(&m.bytes())));
    }
}
