(* Props/C16.v — C16: PAT and PMT section bodies parse to exactly the entries they contain. *)
From TS Require Import Base.Res Base.Bits Model.Timestamp Model.Packet Model.Descriptor Model.Tables Model.Crc Model.Psi
  Spec.TablesSpec Proofs.TablesProofs.
Open Scope N_scope.

(* PAT: one entry per complete 4-byte group; program_number 0 = network PID; 13-bit PIDs; never panics *)
Theorem C16_pat : forall body : list N, bytes_ok body -> pat_programs body = Ok (s_pat body).
Proof. exact c16_pat. Qed.
Print Assumptions C16_pat.

Theorem C16_pat_count : forall b : list N, length (groups4 b) = (length b / 4)%nat.
Proof. exact groups4_length. Qed.
Print Assumptions C16_pat_count.

(* PMT: construction succeeds exactly when the fixed header and program_info_length fit *)
Theorem C16_pmt_accept : forall b : list N, bytes_ok b -> pmt_from_bytes b = Ok (s_pmt_accept b).
Proof. exact c16_pmt_accept. Qed.
Print Assumptions C16_pmt_accept.

Theorem C16_pcr_pid : forall b : list N, bytes_ok b -> (4 <= length b)%nat ->
  pmt_pcr_pid b = Ok (s_pcr_pid b) /\ s_pcr_pid b <= 8191.
Proof. exact c16_pcr_pid. Qed.
Print Assumptions C16_pcr_pid.

Theorem C16_pmt_descriptors : forall b : list N, bytes_ok b -> s_pmt_accept b = ROk b ->
  pmt_descriptor_bytes b = Ok (4%nat, firstn (s_program_info_length b) (skipn 4 b)).
Proof. exact c16_pmt_descriptors. Qed.
Print Assumptions C16_pmt_descriptors.

(* streams: exactly the entries laid out after the program descriptors, stopping without panic at the
   first one that does not fit; iteration terminates *)
Theorem C16_pmt_streams : forall b : list N, bytes_ok b -> s_pmt_accept b = ROk b ->
  pmt_streams b = Ok (s_streams (S (length b - (4 + s_program_info_length b))) (4 + s_program_info_length b)
                                (skipn (4 + s_program_info_length b) b)).
Proof. exact c16_pmt_streams. Qed.
Print Assumptions C16_pmt_streams.

Theorem C16_stream_fields : forall off (e : list N), bytes_ok e -> (5 <= length e)%nat ->
  si_stream_type {| si_off := off; si_data := e |} = Ok (s_stream_type e) /\
  si_elementary_pid {| si_off := off; si_data := e |} = Ok (s_elementary_pid e) /\ s_elementary_pid e <= 8191.
Proof. exact c16_stream_fields. Qed.
Print Assumptions C16_stream_fields.

Theorem C16_common_header : forall a b c, bytes_ok [a; b; c] ->
  sch_new [a; b; c] = Ok {| ch_table_id := s_table_id [a; b; c]; ch_ssi := s_ssi [a; b; c];
                            ch_private := s_private [a; b; c];
                            ch_section_length := N.to_nat (s_section_length [a; b; c]) |}.
Proof. exact c16_common_header. Qed.
Print Assumptions C16_common_header.

Theorem C16_table_syntax_header : forall t : list N, bytes_ok t -> (5 <= length t)%nat ->
  tsh_new t = Ok t /\ tsh_id t = Ok (s_tsh_id t) /\ tsh_version t = Ok (s_tsh_version t) /\
  tsh_current_next t = Ok (s_tsh_current_next t) /\ tsh_section_number t = Ok (s_tsh_section_number t) /\
  tsh_last_section_number t = Ok (s_tsh_last_section_number t).
Proof. exact c16_table_syntax_header. Qed.
Print Assumptions C16_table_syntax_header.

Example C16_nonvacuous :
  s_pat [0; 0; 224; 16; 0; 1; 225; 0; 9] = [PdNetwork 16; PdProgram 1 256] /\
  pmt_streams [225; 1; 240; 0; 27; 225; 1; 240; 0; 15; 225; 2; 240; 2; 10; 0; 3] =
    Ok [{| si_off := 4; si_data := [27; 225; 1; 240; 0; 15; 225; 2; 240; 2; 10; 0; 3] |};
        {| si_off := 9; si_data := [15; 225; 2; 240; 2; 10; 0; 3] |}].
Proof. vm_compute. split; reflexivity. Qed.
