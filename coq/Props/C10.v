(* Props/C10.v — C10: repeated tables with unchanged version disturb nothing. *)
From TS Require Import Base.Res Model.Timestamp Model.Packet Model.PesFilter Model.Crc Model.Psi Model.Demux Model.DemuxObs
  Spec.Dispatch Proofs.SectionProofs Proofs.DispatchProofs Proofs.TableProofs Proofs.RoutingProofs Proofs.Witnesses.
Open Scope N_scope.

(* the start of a section whose version_number equals the one the chain remembers emits no event, leaves the
   context (change-set, construction counter) and the table processor untouched, and keeps the version *)
Theorem C10_skip_start : forall fz (IS CX EV : Type) inner (c : chain IS) (cx : CX) h data off v,
  accepted_start h data -> dd_last_version c = Some v -> tsh_version (skipn 3 data) = Ok v ->
  sp_start (table_cfg fz) IS CX EV inner c cx h data off = Ok (skipped IS c v, cx, []).
Proof. exact c10_skip_start. Qed.
Print Assumptions C10_skip_start.

Theorem C10_skip_frame : forall (IS : Type) (c : chain IS) v,
  bf_buf (skipped IS c v) = bf_buf c /\ bf_state (skipped IS c v) = bf_state c /\ in_state (skipped IS c v) = in_state c /\
  dd_last_version (skipped IS c v) = Some v /\ sp_ignore_rest (skipped IS c v) = false /\ dd_ignore_rest (skipped IS c v) = true.
Proof. exact skipped_frame. Qed.
Print Assumptions C10_skip_frame.

(* however many continuation packets the repeated section spans: nothing happens, state unchanged *)
Theorem C10_skip_continues : forall fz (IS CX EV : Type) inner xs (c : chain IS) (cx : CX),
  sp_ignore_rest c = false -> dd_ignore_rest c = true ->
  run_continues fz IS CX EV inner c cx xs = Ok (c, cx, []).
Proof. exact c10_skip_continues. Qed.
Print Assumptions C10_skip_continues.

(* ---- end to end: the packets of a repeated program map, dispatched by the real loop against any table ----
   the start packet of a repetition (pointer_field 0, version equal to the remembered one) and each of its continuation
   packets make no request, queue no change and reach no table processor; the only event is the packet marker of the map
   handler's wrapper; the table is as before except for the map PID's own entry (same handler, chain now skipping): every
   elementary-stream consumer keeps its state, whatever PES packet it is in the middle of *)
Theorem C10_repetition_start_packet : forall policy scripts deep fs cx i pk P s (c : chain pmt_state) poff next v,
  cx_changes cx = nil -> pkt_pid pk = Ok P -> filters_get fs P = Some (HPmt s c) -> unflagged pk ->
  pkt_payload pk = Ok (Some (poff, 0 :: next)) -> pkt_payload_unit_start_indicator pk = Ok true ->
  accepted_start (hdr_of next) next -> tsh_version (skipn 3 next) = Ok v -> dd_last_version c = Some v ->
  spec_packet policy scripts false deep fs cx (i, pk) =
  Ok (set_slot fs P (Some (HPmt s (skipped pmt_state c v))), cx, (EvPacket s i nil :: nil)).
Proof. exact repetition_start_packet. Qed.
Print Assumptions C10_repetition_start_packet.

Theorem C10_repetition_continuation_packet : forall policy scripts deep fs cx i pk P s (c : chain pmt_state) poff payload,
  cx_changes cx = nil -> pkt_pid pk = Ok P -> filters_get fs P = Some (HPmt s c) -> unflagged pk ->
  pkt_payload pk = Ok (Some (poff, payload)) -> pkt_payload_unit_start_indicator pk = Ok false ->
  sp_ignore_rest c = false -> dd_ignore_rest c = true ->
  spec_packet policy scripts false deep fs cx (i, pk) = Ok (set_slot fs P (Some (HPmt s c)), cx, (EvPacket s i nil :: nil)).
Proof. exact repetition_continuation_packet. Qed.
Print Assumptions C10_repetition_continuation_packet.

(* KNOWN FINDING F8 (refutation witness): after a PAT version change re-lists a program, a repetition of its
   unchanged PMT is applied again (request with serial 5 below), because the PMT handler instance — and with
   it the remembered version — was re-created.  Exact trace of the faithful model on the witness bytes. *)
Theorem C10_F8_refuted : run_dmx 0 [] [wit_F8b] = Some wit_F8b_trace.
Proof. vm_compute. reflexivity. Qed.
Print Assumptions C10_F8_refuted.

(* KNOWN FINDING F9: a repetition whose 3-byte section header straddles a packet boundary (a tightly packing multiplexer
   puts it right behind the end of the previous section, with 1 or 2 bytes left in that packet; the pointer_field is valid)
   is not merely dropped: the chain is reset and the remembered version forgotten (C10_F9_reset), so that the NEXT
   repetition is applied again.  (The source marks the spot: "TODO: not enough bytes to read section header - implement
   buffering".)  Witness: a 365-byte PMT three times, the second copy packed behind the first; the third is applied
   again (second request with program 256 in the trace). *)
Theorem C10_F9_reset : forall fz (IS CX EV : Type) inner (c : chain IS) (cx : CX) pk poff p T next,
  pkt_payload pk = Ok (Some (poff, p :: T ++ next)) -> pkt_payload_unit_start_indicator pk = Ok true ->
  length T = N.to_nat p -> (0 < length next < 3)%nat ->
  spc_consume (table_cfg fz) IS CX EV inner c cx pk =
  (do r1 <- (if Nat.ltb 0 (N.to_nat p) then sp_continue (table_cfg fz) IS CX EV inner c cx T else Ok (c, cx, []));
   Ok (sp_reset (table_cfg fz) IS (fst (fst r1)), snd (fst r1), snd r1)).
Proof. exact short_start_resets. Qed.
Print Assumptions C10_F9_reset.

Theorem C10_F9_forgets : forall fz (IS : Type) (c : chain IS),
  dd_last_version (sp_reset (table_cfg fz) IS c) = None /\ bf_state (sp_reset (table_cfg fz) IS c) = Complete /\
  in_state (sp_reset (table_cfg fz) IS c) = in_state c.
Proof. exact reset_forgets. Qed.
Print Assumptions C10_F9_forgets.

Theorem C10_F9_refuted : run_dmx 0 [] [wit_F9] = Some wit_F9_trace.
Proof. vm_compute. reflexivity. Qed.
Print Assumptions C10_F9_refuted.
