(* Props/C09.v — C09: continuity errors exactly at counter breaks; quarantine afterwards. *)
From TS Require Import Base.Res Model.Timestamp Model.Packet Model.Pes Model.PesFilter Spec.EsProtocol Proofs.PesFilterProofs.
Open Scope N_scope.

(* a continuity error is reported while processing a packet iff a previous packet was delivered to this
   filter and the counter is not its expected successor (equal without payload, +1 mod 16 with);
   never for the first packet; the counter of every delivered packet becomes the reference *)
Theorem C09_iff : forall f pk f' evs, pf_consume f pk = Ok (f', evs) ->
  forall ac c, pkt_adaptation_control pk = Ok ac -> pkt_continuity_counter pk = Ok c ->
  existsb is_cc_error evs =
    match pf_ccounter f with
    | Some prev => negb (if ac_has_payload ac then cc_follows c prev else c =? prev)
    | None => false
    end
  /\ pf_ccounter f' = Some c.
Proof. exact c09_iff. Qed.
Print Assumptions C09_iff.

(* follows() is the modulo-16 successor *)
Theorem C09_follows : forall c prev, c < 16 -> prev < 16 -> cc_follows c prev = (c =? (prev + 1) mod 16).
Proof. exact follows_fact. Qed.
Print Assumptions C09_follows.

(* in every trace the protocol monitor accepts (C08: all of them), between a continuity error and a
   later continuation slice there is a packet-begin *)
Theorem C09_quarantine : forall m pre mid o d post m',
  mrun m (pre ++ EsContinuityError :: mid ++ EsContinuePacket o d :: post) = Some m' ->
  existsb is_begin mid = true.
Proof. exact c09_quarantine. Qed.
Print Assumptions C09_quarantine.

Example C09_nonvacuous : cc_follows 0 15 = true /\ cc_follows 3 3 = false /\ expected_cc 15 true = 0 /\ expected_cc 7 false = 7.
Proof. repeat split; reflexivity. Qed.
