//! C15: timestamps and clock references.
use crate::util::*;

fn enc_ts(prefix: u8, v: u64) -> [u8; 5] {
    [ (prefix << 4) | (((v >> 30) & 7) as u8) << 1 | 1, (v >> 22) as u8, ((((v >> 15) & 0x7f) as u8) << 1) | 1, (v >> 7) as u8, (((v & 0x7f) as u8) << 1) | 1 ]
}

pub fn gen(tier: &str, seed: u64, emit: &mut dyn FnMut(String)) {
    let mut rng = Rng::new(seed ^ 0xC15);
    let big = tier == "thorough";
    const M33: u64 = 1 << 33;
    let bvals: Vec<u64> = vec![0, 1, 2, (1 << 32) - 1, 1 << 32, (1 << 32) + 1, M33 - 2, M33 - 1, M33, M33 + 1,
        (1 << 34) - 1, 1 << 34, (1 << 34) + 1, 1 << 35, 1 << 40, u64::MAX / 2, u64::MAX - 1, u64::MAX];
    // constructor arguments by boundary class, then random
    for &v in &bvals { emit(format!("TSU {}", v)); }
    for _ in 0..(if big { 200000 } else { 4000 }) {
        let v = match rng.below(4) { 0 => rng.below(M33), 1 => M33 + rng.below(M33), 2 => rng.next(), _ => rng.next() >> rng.below(40) };
        emit(format!("TSU {}", v));
    }
    // 40-bit encodings: every marker / prefix combination, random value bits; and round trips
    for prefix in 0..16u8 { for markers in 0..8u8 { for _ in 0..(if big { 400 } else { 24 }) {
        let v = rng.below(M33);
        let mut e = enc_ts(prefix, v);
        if markers & 1 != 0 { e[0] &= !1; }
        if markers & 2 != 0 { e[2] &= !1; }
        if markers & 4 != 0 { e[4] &= !1; }
        let mut buf = e.to_vec();
        let extra = rng.below(3) as usize; buf.extend(rng.bytes(extra));
        emit(format!("TSB {}", hex(&buf)));
    } } }
    for &v in &[0u64, 1, M33 - 1, M33 - 2, 1 << 32, (1 << 32) - 1, 1 << 30, (1 << 30) - 1, 1 << 15, (1 << 15) - 1, 0x155555555, 0xAAAAAAAA] {
        for prefix in [1u8, 2, 3, 0, 15] { emit(format!("TSB {}", hex(&enc_ts(prefix, v)))); }
    }
    for _ in 0..(if big { 2_000_000 } else { 30000 }) { emit(format!("TSB {}", hex(&rng.bytes(5)))); }
    // the same from buffers LONGER than the five bytes a timestamp occupies (6..=16 bytes): the rest must not matter
    for _ in 0..(if big { 200_000 } else { 6000 }) {
        let v = match rng.below(4) { 0 => 0, 1 => (1u64 << 33) - 1, 2 => 1u64 << rng.below(33), _ => rng.below(1 << 33) };
        let mut b = enc_ts(*rng.pick(&[1u8, 2, 3, 0, 15]), v).to_vec();
        if rng.chance(1, 4) { let k = rng.below(5) as usize; b[k] ^= 1 << rng.below(8); }
        let extra = rng.range(1, 11) as usize; let t = rng.bytes(extra); b.extend(t);
        emit(format!("TSB {}", hex(&b)));
    }
    // wrap detection: (earlier, distance) by boundary class and at random
    let es: Vec<u64> = vec![0, 1, (1 << 32) - 1, 1 << 32, (1 << 32) + 1, M33 - 2, M33 - 1];
    let ds: Vec<u64> = vec![0, 1, 2, (1 << 32) - 1, 1 << 32, (1 << 32) + 1, M33 - 1];
    for &e in &es { for &d in &ds { emit(format!("TSW {} {}", (e + d) % M33, e)); emit(format!("TSW {} {}", e, (e + d) % M33)); } }
    for _ in 0..(if big { 400000 } else { 20000 }) {
        let e = rng.below(M33);
        let d = match rng.below(3) { 0 => rng.below((1 << 32) + 1), 1 => rng.below(M33), _ => (1u64 << 32).wrapping_add(rng.below(5)).wrapping_sub(2) };
        emit(format!("TSW {} {}", (e + d) % M33, e));
    }
    // clock references
    for &bse in &[0u64, 1, M33 - 1, M33, M33 + 1, 1 << 40, u64::MAX] { for &ex in &[0u64, 1, 299, 300, 511, 512, 513, 0xffff] {
        emit(format!("CRP {} {}", bse, ex));
    } }
    for _ in 0..(if big { 100000 } else { 5000 }) {
        emit(format!("CRP {} {}", if rng.chance(3, 4) { rng.below(M33) } else { rng.next() >> rng.below(32) }, if rng.chance(3, 4) { rng.below(512) } else { rng.below(0x10000) }));
    }
    for _ in 0..(if big { 400000 } else { 20000 }) {
        let n = 6 + rng.below(3) as usize;
        let mut d = rng.bytes(n);
        if rng.chance(1, 8) { for x in d.iter_mut() { *x = if rng.chance(1, 2) { 0xff } else { 0 }; } }
        emit(format!("CRS {}", hex(&d)));
    }
}
