(* Spec/DescriptorSpec.v — ISO/IEC 13818-1 2.6: descriptor loops as the concatenation of encoded
   descriptors (tag 8 | length 8 | payload) followed by a tail that holds no complete descriptor;
   the tag table (Table 2-45); the typed descriptors' bit fields. *)
From TS Require Import Base.Res Base.Bits Model.Descriptor.
Open Scope N_scope.

Definition sdesc := (N * list N)%type.            (* (descriptor_tag, payload) *)
Definition enc_desc (d : sdesc) : list N := fst d :: N.of_nat (length (snd d)) :: snd d.
Definition enc_loop (ds : list sdesc) : list N := concat (map enc_desc ds).

(* a tail that holds no complete descriptor *)
Definition no_complete_desc (t : list N) : Prop :=
  match t with
  | [] => True
  | [_] => True
  | _ :: l :: rest => (length rest < N.to_nat l)%nat
  end.

(* Table 2-45 by ranges: (first tag, last tag, variant index of the crate's CoreDescriptors enum, in
   declaration order: Reserved = 0, VideoStream = 1, ... HevcVideo = 48, Extension = 49, UserPrivate = 50) *)
Definition tag_ranges : list (N * N * N) :=
  [(0, 1, 0); (2, 18, 255) (* 2..18: variant = tag - 1 *); (19, 26, 18); (27, 56, 254) (* variant = tag - 8 *);
   (57, 62, 0); (63, 63, 49); (64, 255, 50)].
Definition s_variant (tag : N) : N :=
  if tag <=? 1 then 0
  else if tag <=? 18 then tag - 1
  else if tag <=? 26 then 18
  else if tag <=? 56 then tag - 8
  else if tag <=? 62 then 0
  else if tag =? 63 then 49
  else 50.

(* minimum payload of the typed descriptors: registration 4, maximum_bitrate 3, AVC video 4 *)
Definition s_min_payload (tag : N) : nat :=
  if tag =? 5 then 4%nat else if tag =? 14 then 3%nat else if tag =? 40 then 4%nat else 0%nat.

(* what iteration yields for one complete descriptor located at [base] *)
Definition s_item (base : nat) (d : sdesc) : rresult desc desc_err :=
  let '(tag, payload) := d in
  if Nat.ltb (length payload) (s_min_payload tag)
  then RErr (DNotEnoughData tag (length payload) (s_min_payload tag))
  else ROk {| d_variant := s_variant tag; d_tag := tag; d_off := (base + 2)%nat; d_payload := payload |}.

Fixpoint s_items (base : nat) (ds : list sdesc) : list (rresult desc desc_err) :=
  match ds with
  | [] => []
  | d :: r => s_item base d :: s_items (base + length (snd d) + 2) r
  end.

(* exactly one error item iff trailing bytes remain *)
Definition s_tail_item (t : list N) : list (rresult desc desc_err) :=
  match t with
  | [] => []
  | [_] => [RErr (DBufferTooShort 1)]
  | tag :: l :: rest => [RErr (DNotEnoughData tag (length rest) (N.to_nat l))]
  end.

(* ISO_639_language_descriptor: complete 4-byte groups (3 code bytes, audio_type), then TooShort iff a partial group remains *)
Fixpoint s_languages (fuel : nat) (p : list N) : list lang_item :=
  match fuel with
  | O => []
  | S f =>
      match p with
      | [] => []
      | a :: b :: c :: t :: rest => LangOk [a; b; c] t :: s_languages f rest
      | _ => [LangTooShort (length p)]
      end
  end.

(* maximum_bitrate_descriptor: reserved 2 | maximum_bitrate 22 *)
Definition s_max_bitrate (p : list N) : N := field p 2 22.

(* AVC_video_descriptor: profile_idc 8 | constraint_set0..5 6x1 | AVC_compatible_flags 2 | level_idc 8 |
   AVC_still_present 1 | AVC_24_hour_picture_flag 1 | Frame_Packing_SEI_not_present_flag 1 | reserved 5 *)
Definition s_avc_fields (p : list N) : list N :=
  [field p 0 8; field p 8 1; field p 9 1; field p 10 1; field p 11 1; field p 12 1; field p 13 1; field p 14 2;
   field p 16 8; field p 24 1; field p 25 1; field p 26 1].
