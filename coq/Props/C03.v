(* Props/C03.v — C03: PSI sections are re-assembled exactly across transport packets.
   Chain: SectionPacketConsumer -> {SectionSyntax|CompactSyntax}SectionProcessor -> Buffer...Parser -> recording consumer. *)
From Coq Require Import Lia.
From TS Require Import Base.Res Model.Timestamp Model.Packet Model.Crc Model.Psi Proofs.SectionProofs.
Open Scope N_scope.

(* a section wholly inside its start packet is delivered once, in place ([Some off]), with exactly its
   bytes, whatever state the chain was in (idle, mid-section, abandoned section, ignoring) and whatever
   follows it in the packet (stuffing) *)
Theorem C03_start_complete : forall compact (c : chain unit) S data off,
  valid_start compact S -> (hdr_size compact <= length data)%nat -> (length S <= length data)%nat ->
  firstn (length S) data = S ->
  exists c', sp_start (rcfg compact) unit unit delivery recI c tt (hdr_of S) data off =
             Ok (c', tt, [(hdr_of S, (if compact then [] else skipn 3 data), S, Some off)]) /\ bf_state c' = Complete.
Proof. exact start_complete. Qed.
Print Assumptions C03_start_complete.

(* a section spanning packets: from the start_section call onwards exactly one delivery, of exactly S:
   for every prior state, every number (>= fixed header) of section bytes in the start packet, every
   tiling of the rest by non-empty continuation payloads of any sizes, the last one possibly followed by
   stuffing or by the next section's bytes *)
Theorem C03_exact : forall compact (c : chain unit) S data off cs extra,
  valid_start compact S -> (hdr_size compact <= length data < length S)%nat -> data = firstn (length data) S ->
  Forall (fun x => x <> []) cs -> concat cs = skipn (length data) S ++ extra ->
  (forall pre last, cs = pre ++ [last] -> (length extra < length last)%nat) -> cs <> [] ->
  exists c1 c2, sp_start (rcfg compact) unit unit delivery recI c tt (hdr_of S) data off = Ok (c1, tt, []) /\
                run_conts compact c1 cs = Ok (c2, [(hdr_of S, tsh_of compact S, S, None)]).
Proof. exact c03_exact. Qed.
Print Assumptions C03_exact.

(* a section declaring a length above 1021 is never delivered, and everything up to the next start is ignored *)
Theorem C03_overlimit : forall compact (c : chain unit) h data off, (1021 < ch_section_length h)%nat ->
  exists c', sp_start (rcfg compact) unit unit delivery recI c tt h data off = Ok (c', tt, []) /\ sp_ignore_rest c' = true.
Proof. exact start_overlimit. Qed.
Print Assumptions C03_overlimit.

Theorem C03_ignored : forall compact (c : chain unit) x, sp_ignore_rest c = true ->
  sp_continue (rcfg compact) unit unit delivery recI c tt x = Ok (c, tt, []).
Proof. exact ignored_continue. Qed.
Print Assumptions C03_ignored.

(* the start packet: pointer_field p, p bytes completing the previous section, then the new section;
   whatever the p bytes produce precedes, and is independent of, what the new section produces *)
Theorem C03_start_packet : forall compact (c : chain unit) pk poff p T next,
  pkt_payload pk = Ok (Some (poff, p :: T ++ next)) -> pkt_payload_unit_start_indicator pk = Ok true ->
  length T = N.to_nat p -> (3 <= length next)%nat ->
  spc_consume (rcfg compact) unit unit delivery recI c tt pk =
  (do r1 <- (if Nat.ltb 0 (N.to_nat p) then sp_continue (rcfg compact) unit unit delivery recI c tt T else Ok (c, tt, []));
   do r2 <- sp_start (rcfg compact) unit unit delivery recI (fst (fst r1)) tt (hdr_of next) next (poff + 1 + N.to_nat p);
   Ok (fst r2, snd r1 ++ snd r2)).
Proof. exact consume_start. Qed.
Print Assumptions C03_start_packet.

Theorem C03_continuation_packet : forall compact (c : chain unit) pk poff payload,
  pkt_payload pk = Ok (Some (poff, payload)) -> pkt_payload_unit_start_indicator pk = Ok false ->
  spc_consume (rcfg compact) unit unit delivery recI c tt pk = sp_continue (rcfg compact) unit unit delivery recI c tt payload.
Proof. exact consume_continuation. Qed.
Print Assumptions C03_continuation_packet.

(* payload-less packets (adaptation field only) in between change nothing *)
Theorem C03_no_payload_packet : forall compact (c : chain unit) pk, pkt_payload pk = Ok None ->
  spc_consume (rcfg compact) unit unit delivery recI c tt pk = Ok (c, tt, []).
Proof. exact consume_no_payload. Qed.
Print Assumptions C03_no_payload_packet.

Example C03_nonvacuous :
  let S := [66; 176; 9; 0; 1; 193; 0; 0; 1; 2; 3; 4] in
  valid_start false S /\
  (exists c1 c2, sp_start (rcfg false) unit unit delivery recI (chain_init tt) tt (hdr_of S) (firstn 9 S) 5 = Ok (c1, tt, []) /\
                 run_conts false c1 [[2]; [3]; [4; 255; 255]] = Ok (c2, [(hdr_of S, tsh_of false S, S, None)])).
Proof.
  cbv zeta. split; [repeat split; cbn; lia|].
  eexists; eexists. split; vm_compute; reflexivity.
Qed.
