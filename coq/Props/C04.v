(* Props/C04.v — C04: the checksum is the CRC-32 of Annex A; PAT/PMT act only on verified sections. *)
From TS Require Import Base.Res Gen.CrcTable Model.Timestamp Model.Packet Model.Crc Model.Psi Model.PesFilter Model.Demux
  Spec.CrcSpec Proofs.CrcProofs Proofs.GateProofs Proofs.TableProofs.
Open Scope N_scope.

(* the table-driven loop over the table found in the source equals the bitwise shift register *)
Theorem C04_sum32_is_annexA : forall data : list N, bytes_ok data -> m_sum32 data = s_crc data.
Proof. exact c04_sum32_is_annexA. Qed.
Print Assumptions C04_sum32_is_annexA.

(* a section followed by its CRC sums to zero *)
Theorem C04_codeword_zero : forall d : list N, bytes_ok d -> m_sum32 (d ++ be32 (m_sum32 d)) = 0.
Proof. exact c04_codeword_zero. Qed.
Print Assumptions C04_codeword_zero.

(* any error pattern confined to a window of at most 32 bits (single bits included), and any two
   isolated bit errors up to DIST_BOUND = 65792 bits apart, turn a verifying string into a failing one *)
Theorem C04_detects : forall c e : list N, bytes_ok c -> bytes_ok e -> length e = length c ->
  m_sum32 c = 0 -> (burst_pattern (bits_of e) \/ double_pattern (bits_of e)) ->
  m_sum32 (xor_bytes c e) <> 0.
Proof. exact c04_detects. Qed.
Print Assumptions C04_detects.

(* the CRC layer passes nothing on (no event, no state or context change) when the sum is non-zero *)
Theorem C04_gate_layer : forall cfg (IS CX EV : Type) inner (c : chain IS) (cx : CX) h tsh data origin r,
  cf_crc cfg = true -> cf_fuzzing cfg = false -> m_sum32 data <> 0 ->
  crc_layer_section cfg IS CX EV inner c cx h tsh data origin = Ok r -> r = (c, cx, []).
Proof. exact gate_layer. Qed.
Print Assumptions C04_gate_layer.

(* for a section spanning packets: whatever transmission completes in the re-assembly buffer with a non-zero sum
   changes neither the table processor's state nor the context and produces no event (with C11_multi_applied,
   which shows that [applied] is all that a multi-packet transmission does) *)
Theorem C04_gate_multi : forall (IS CX EV : Type) inner (c : chain IS) (cx : CX) S, m_sum32 S <> 0 ->
  applied false IS CX EV inner c cx S = Ok (set_buf IS c S Complete, cx, nil).
Proof. intros IS CX EV inner c cx S. exact (applied_crc_bad false IS CX EV inner c cx S eq_refl). Qed.
Print Assumptions C04_gate_multi.

(* PAT and PMT handlers are built with that layer in the chain, and process packets through it only *)
Theorem C04_gate_tables : forall fuzzing, cf_crc (table_cfg fuzzing) = true /\ cf_dedup (table_cfg fuzzing) = true /\
  cf_compact (table_cfg fuzzing) = false /\ cf_fuzzing (table_cfg fuzzing) = fuzzing.
Proof. exact gate_tables. Qed.
Print Assumptions C04_gate_tables.

Theorem C04_gate_pat_handler : forall policy scripts fuzzing deep s c cx i pk,
  handler_consume policy scripts fuzzing deep (HPat s c) cx i pk =
    (do r <- spc_consume (table_cfg fuzzing) pat_state ctx event (pat_section policy) c cx pk;
     Ok (HPat s (fst (fst r)), snd (fst r), EvPacket s i [] :: snd r)).
Proof. exact gate_handlers. Qed.
Print Assumptions C04_gate_pat_handler.

Theorem C04_gate_pmt_handler : forall policy scripts fuzzing deep s c cx i pk,
  handler_consume policy scripts fuzzing deep (HPmt s c) cx i pk =
    (do r <- spc_consume (table_cfg fuzzing) pmt_state ctx event (pmt_section policy deep) c cx pk;
     Ok (HPmt s (fst (fst r)), snd (fst r), EvPacket s i [] :: snd r)).
Proof. exact gate_handlers_pmt. Qed.
Print Assumptions C04_gate_pmt_handler.

Example C04_nonvacuous :
  m_sum32 [0; 176; 13; 0; 1; 193; 0; 0; 0; 1; 225; 0] = 3908656765 /\
  m_sum32 ([0; 176; 13; 0; 1; 193; 0; 0; 0; 1; 225; 0] ++ be32 3908656765) = 0 /\
  burst_pattern (bits_of [0; 0; 8; 0]) /\ double_pattern (bits_of [1; 0; 0; 128]).
Proof.
  split; [vm_compute; reflexivity|]. split; [vm_compute; reflexivity|]. split.
  - exists 20%nat, [true], 11%nat. split; [reflexivity|]. split; [cbn; repeat constructor|discriminate].
  - exists 7%nat, 16%nat, 7%nat. split; [reflexivity|]. vm_compute. discriminate.
Qed.
