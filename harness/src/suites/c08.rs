//! C08 / C09: PesPacketFilter call-back protocol and continuity errors.
use crate::mux::*;
use crate::util::*;

/// packet classes: unit start x payload presence (AFC 01 / 11 / 10) x counter relation x header recognisable
#[derive(Clone, Copy)]
pub struct Class { pub pusi: bool, pub afc: u8, pub ccrel: u8, pub hdr_ok: bool }
pub fn classes() -> Vec<Class> {
    let mut v = vec![];
    for pusi in [false, true] { for afc in [1u8, 3, 2] { for ccrel in 0..3u8 { for hdr_ok in [true, false] {
        if !pusi && !hdr_ok { continue; }            // header only matters on unit starts
        v.push(Class { pusi, afc, ccrel, hdr_ok });
    } } } }
    v
}
/// build one packet of the class; `last` = counter of the previous packet on the PID (None: first)
pub fn build(c: Class, last: Option<u8>, rng: &mut Rng) -> (Vec<u8>, u8) {
    let has_payload = c.afc & 1 != 0;
    let expect = match last { None => rng.below(16) as u8, Some(l) => if has_payload { (l + 1) & 15 } else { l } };
    let cc = match c.ccrel { 0 => expect, 1 => match last { Some(l) => if has_payload { l } else { (l + 1) & 15 }, None => expect }, _ => (expect + 2 + rng.below(12) as u8) & 15 };
    let mut payload_len = match c.afc { 1 => 184, 3 => rng.range(1, 182) as usize, _ => 0 };
    if c.afc == 3 && rng.chance(1, 6) { payload_len = *rng.pick(&[1usize, 5, 6, 8, 9, 182]); }
    let mut payload = rng.bytes(payload_len);
    if c.pusi && has_payload {
        if c.hdr_ok && payload_len >= 6 {
            payload[0] = 0; payload[1] = 0; payload[2] = 1;
            payload[3] = *rng.pick(&[0xe0u8, 0xc0, 0xbd, 0xbe, 0xbf, 0xfd]);
            // PES_packet_length: random, or related to what this packet carries (0 = unbounded; ends exactly with it; one off)
            match rng.below(6) { 0 => { payload[4] = 0; payload[5] = 0; }
                                 1 | 2 => { let l = payload_len - 6; payload[4] = (l >> 8) as u8; payload[5] = l as u8; }
                                 3 => { let l = (payload_len - 6 + 1) as usize; payload[4] = (l >> 8) as u8; payload[5] = l as u8; }
                                 4 => { let l = (payload_len - 6).saturating_sub(1); payload[4] = (l >> 8) as u8; payload[5] = l as u8; }
                                 _ => {} }
            if payload_len >= 9 { payload[6] = if rng.chance(5, 6) { 0x80 | (payload[6] & 0x3f) } else { payload[6] }; payload[8] = if rng.chance(3, 4) { 0 } else { payload[8] & 0x0f }; if rng.chance(3, 4) { payload[7] = 0; } }
        } else if payload_len >= 3 {
            // not recognisable: wrong start code (or too short when hdr_ok was requested but does not fit)
            if c.hdr_ok { /* fewer than 6 bytes: unrecognisable by length */ payload[0] = 0; payload[1] = 0; payload[2] = 1; }
            else { payload[2] = if payload[2] == 1 { 2 } else { payload[2] }; payload[0] = if rng.chance(1, 2) { 0 } else { payload[0] }; }
        }
    }
    let af = match c.afc { 1 => None, 3 => Some(if payload_len == 183 { vec![] } else { af_stuffing(183 - payload_len, None, rng) }), _ => Some(af_stuffing(183, None, rng)) };
    (ts_packet(0x101, c.pusi, cc, false, 0, af, &payload), cc)
}

pub fn gen(tier: &str, seed: u64, emit: &mut dyn FnMut(String)) {
    let mut rng = Rng::new(seed ^ 0xC08);
    let cls = classes();
    let big = tier == "thorough";
    let depth = if big { 4 } else { 3 };
    // every word over the packet classes up to `depth`, from the initial state
    let mut word: Vec<usize> = vec![];
    fn rec(word: &mut Vec<usize>, depth: usize, cls: &Vec<Class>, rng: &mut Rng, emit: &mut dyn FnMut(String)) {
        if !word.is_empty() {
            let mut last = None; let mut s = String::from("PESF 0");
            for &k in word.iter() { let (p, cc) = build(cls[k], last, rng); last = Some(cc); s.push(' '); s.push_str(&hex(&p)); }
            emit(s);
        }
        if word.len() < depth { for k in 0..cls.len() { word.push(k); rec(word, depth, cls, rng, emit); word.pop(); } }
    }
    rec(&mut word, depth, &cls, &mut rng, emit);
    // all 16 x 16 counter pairs x payload / none x unit start, from each filter state (reached by a prefix)
    let prefixes: [&[usize]; 3] = [&[], &[cls.iter().position(|c| c.pusi && c.afc == 1 && c.ccrel == 0 && c.hdr_ok).unwrap()],
                                   &[cls.iter().position(|c| c.pusi && c.afc == 1 && c.ccrel == 0 && c.hdr_ok).unwrap(), cls.iter().position(|c| !c.pusi && c.afc == 1 && c.ccrel == 2).unwrap()]];
    for pre in prefixes.iter() { for a in 0..16u8 { for b2 in 0..16u8 { for afc in [1u8, 3, 2] { for pusi in [false, true] {
        let mut s = String::from("PESF 0"); let mut last = None;
        for &k in pre.iter() { let (p, cc) = build(cls[k], last, &mut rng); last = Some(cc); s.push(' '); s.push_str(&hex(&p)); }
        let (mut p1, _) = build(Class { pusi: false, afc: 1, ccrel: 0, hdr_ok: true }, last, &mut rng); p1[3] = (p1[3] & 0xf0) | a;
        let (mut p2, _) = build(Class { pusi, afc, ccrel: 0, hdr_ok: true }, Some(a), &mut rng); p2[3] = (p2[3] & 0xf0) | b2;
        let (p3, _) = build(Class { pusi: false, afc: 1, ccrel: 0, hdr_ok: true }, Some(b2), &mut rng);
        for p in [p1, p2, p3] { s.push(' '); s.push_str(&hex(&p)); }
        emit(s);
    } } } } }
    // long random words, deep observation of the headers
    for _ in 0..(if big { 40000 } else { 4000 }) {
        let n = rng.range(4, 30) as usize; let mut last = None; let mut s = format!("PESF {}", rng.below(2));
        for _ in 0..n { let k = if rng.chance(2, 3) { *rng.pick(&[0usize, 6, 12]) } else { rng.below(cls.len() as u64) as usize };
            let (p, cc) = build(cls[k % cls.len()], last, &mut rng); last = Some(cc); s.push(' '); s.push_str(&hex(&p)); }
        emit(s);
    }
    // very long runs on one PID (counters that could overflow or saturate): 1100 unit starts each preceded by a counter gap;
    // a counter gap followed by 66000 continuation packets without a unit start (one 25 MB case)
    {
        let start = cls.iter().position(|c| c.pusi && c.afc == 1 && c.ccrel == 0 && c.hdr_ok).unwrap();
        let cont = cls.iter().position(|c| !c.pusi && c.afc == 1 && c.ccrel == 0).unwrap();
        let gap = cls.iter().position(|c| !c.pusi && c.afc == 1 && c.ccrel == 2).unwrap();
        let mut s = String::from("PESF 0"); let mut last = None;
        for _ in 0..(if big { 1300 } else { 1100 }) { for k in [start, cont, gap, cont] { let (p, cc) = build(cls[k], last, &mut rng); last = Some(cc); s.push(' '); s.push_str(&hex(&p)); } }
        emit(s);
        {
            let mut s = String::from("PESF 0"); let mut last = None;
            for k in [start, cont, gap] { let (p, cc) = build(cls[k], last, &mut rng); last = Some(cc); s.push(' '); s.push_str(&hex(&p)); }
            for _ in 0..66000 { let (p, cc) = build(cls[cont], last, &mut rng); last = Some(cc); s.push(' '); s.push_str(&hex(&p)); }
            let (p, _) = build(cls[start], last, &mut rng); s.push(' '); s.push_str(&hex(&p));
            emit(s);
        }
    }
    // loss / duplication / reordering of a clean stream
    for _ in 0..(if big { 20000 } else { 2500 }) {
        let mut m = Mux::new(); m.set_cc(0x101, rng.below(16) as u8);
        for _ in 0..rng.range(1, 4) {
            let n = rng.below(600) as usize;
            let spec = PesSpec { stream_id: 0xe0, pts: Some(rng.below(1 << 33)), dts: None, extra_hdr: 0, bounded: false, payload: rng.bytes(n), opt_flags: 0, opt_fill: vec![0xff] };
            let (bytes, hl) = pes_packet(&spec); m.unit(0x101, &bytes, rng.below(3), hl, &mut rng);
        }
        let mut pk = m.pkts.clone();
        match rng.below(4) { 0 => { if pk.len() > 1 { let i = rng.below(pk.len() as u64) as usize; pk.remove(i); } }
                             1 => { let i = rng.below(pk.len() as u64) as usize; let d = pk[i].clone(); pk.insert(i, d); }
                             2 => { if pk.len() > 2 { let i = rng.below(pk.len() as u64 - 1) as usize; pk.swap(i, i + 1); } }
                             _ => {} }
        let mut s = String::from("PESF 0"); for p in pk { s.push(' '); s.push_str(&hex(&p)); }
        emit(s);
    }
}
