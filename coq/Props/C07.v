(* Props/C07.v — C07: splitting the input across push calls never changes the result. *)
From TS Require Import Base.Res Model.Timestamp Model.Packet Model.PesFilter Model.Crc Model.Psi Model.Demux
  Spec.Dispatch Proofs.DispatchProofs.
Open Scope N_scope.

(* for every list of packet-aligned buffers (empty and single-packet ones included), every starting table
   and context, every policy: the successive pushes yield the same result, call-back trace and final
   state as one push of the concatenation *)
Theorem C07_chunking : forall policy scripts fuzzing deep bufs fs cx base, Forall aligned bufs ->
  pushes policy scripts fuzzing deep fs cx base bufs = push policy scripts fuzzing deep fs cx base (concat bufs).
Proof. exact c07_chunking. Qed.
Print Assumptions C07_chunking.

(* two pushes, the first one packet-aligned *)
Theorem C07_two : forall policy scripts fuzzing deep fs cx base a b, aligned a ->
  push policy scripts fuzzing deep fs cx base (a ++ b) =
  (do x <- push policy scripts fuzzing deep fs cx base a; let '(f1, c1, e1) := x in
   do y <- push policy scripts fuzzing deep f1 c1 (base + N.of_nat (length a)) b; let '(f2, c2, e2) := y in Ok (f2, c2, e1 ++ e2)).
Proof. exact push_app. Qed.
Print Assumptions C07_two.

Example C07_nonvacuous : aligned (repeat 0 188) /\ aligned [] /\ aligned (repeat 71 376).
Proof. repeat split; [exists 1%nat|exists 0%nat|exists 2%nat]; reflexivity. Qed.
