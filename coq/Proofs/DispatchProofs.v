(* Proofs/DispatchProofs.v — C06 / C07 / C18: the run-caching loop of Demultiplex::push implements the
   per-packet dispatcher; chunking at packet boundaries is invisible; queued changes apply in order. *)
From Coq Require Import List NArith Lia ZArith ZifyN ZifyNat ZifyBool Bool.
From TS Require Import Base.Res Base.ListX Model.Timestamp Model.Packet Model.PacketObs Model.Pes Model.PesObs
  Model.Descriptor Model.Tables Model.TablesObs Model.PesFilter Model.Crc Model.Psi Model.Demux Spec.Dispatch.
Import ListNotations.
Open Scope N_scope.

(* ---- Filters ---- *)
Lemma assoc_remove_same l k : assoc (assoc_remove l k) k = None.
Proof. induction l as [|[k' v] l IH]; [reflexivity|]. cbn. destruct (N.eqb_spec k' k); [exact IH|]. cbn. destruct (N.eqb_spec k' k); [contradiction|exact IH]. Qed.
Lemma assoc_remove_other l k k' : k' <> k -> assoc (assoc_remove l k) k' = assoc l k'.
Proof.
  intros H. induction l as [|[k2 v] l IH]; [reflexivity|]. cbn.
  destruct (N.eqb_spec k2 k) as [->|Hn].
  - destruct (N.eqb_spec k k'); [congruence|exact IH].
  - cbn. destruct (N.eqb_spec k2 k'); [reflexivity|exact IH].
Qed.

Lemma get_set_same fs pid h : pid < f_len fs -> filters_get (set_slot fs pid (Some h)) pid = Some h.
Proof. intros H. unfold filters_get, set_slot. cbn [f_len f_slots]. replace (pid <? f_len fs) with true by lia. cbn. rewrite N.eqb_refl. reflexivity. Qed.
Lemma get_set_none fs pid : filters_get (set_slot fs pid None) pid = None.
Proof. unfold filters_get, set_slot. cbn [f_len f_slots]. destruct (pid <? f_len fs); [apply assoc_remove_same|reflexivity]. Qed.
Lemma get_set_other fs pid v pid' : pid' <> pid -> filters_get (set_slot fs pid v) pid' = filters_get fs pid'.
Proof.
  intros H. unfold filters_get, set_slot. cbn [f_len f_slots]. destruct (pid' <? f_len fs); [|reflexivity].
  destruct v; cbn; [destruct (N.eqb_spec pid pid'); [congruence|]|]; apply assoc_remove_other; assumption.
Qed.
Lemma get_some_lt fs pid h : filters_get fs pid = Some h -> pid < f_len fs.
Proof. unfold filters_get. destruct (N.ltb_spec pid (f_len fs)); [auto|discriminate]. Qed.

(* insert never panics; afterwards the PID maps to the new handler, other PIDs are untouched *)
Definition wf (fs : filters) : Prop := forall k, assoc (f_slots fs) k <> None -> k < f_len fs.

Lemma wf_empty : wf filters_empty.
Proof. intros k H. exfalso. apply H. reflexivity. Qed.

Lemma wf_set_slot fs pid v : wf fs -> pid < f_len fs -> wf (set_slot fs pid v).
Proof.
  intros Hw Hp k Hk. unfold set_slot in *. cbn [f_len f_slots] in *.
  destruct (N.eq_dec k pid) as [->|Hne]; [exact Hp|]. apply Hw.
  destruct v; cbn in Hk.
  - destruct (N.eqb_spec pid k); [congruence|]. rewrite assoc_remove_other in Hk by assumption. exact Hk.
  - rewrite assoc_remove_other in Hk by assumption. exact Hk.
Qed.

Lemma get_wf_none fs p : wf fs -> f_len fs <= p -> assoc (f_slots fs) p = None.
Proof. intros Hw Hp. destruct (assoc (f_slots fs) p) eqn:E; [|reflexivity]. exfalso. assert (p < f_len fs) by (apply Hw; congruence). lia. Qed.

(* insert never panics; afterwards the PID maps to the new handler, other PIDs are untouched *)
Lemma insert_spec fs pid h : wf fs -> exists fs', filters_insert fs pid h = Ok fs' /\ wf fs' /\
  filters_get fs' pid = Some h /\ (forall p, p <> pid -> filters_get fs' p = filters_get fs p).
Proof.
  intros Hw. unfold filters_insert, assert.
  set (len' := if f_len fs <=? pid then f_len fs + (pid - f_len fs + 1) else f_len fs).
  assert (Hlt : pid < len') by (unfold len'; destruct (N.leb_spec (f_len fs) pid); lia).
  assert (Hge : f_len fs <= len') by (unfold len'; destruct (N.leb_spec (f_len fs) pid); lia).
  replace (pid <? len') with true by lia. cbn [bind]. eexists. split; [reflexivity|].
  assert (Hw' : wf {| f_len := len'; f_slots := f_slots fs |}).
  { intros k Hk. cbn [f_len f_slots] in *. specialize (Hw k Hk). lia. }
  split; [apply wf_set_slot; assumption|]. split.
  - apply get_set_same. exact Hlt.
  - intros p Hp. rewrite get_set_other by assumption. unfold filters_get. cbn [f_len f_slots].
    destruct (N.ltb_spec p (f_len fs)) as [H1|H1].
    + replace (p <? len') with true by lia. reflexivity.
    + rewrite (get_wf_none fs p Hw H1). destruct (p <? len'); reflexivity.
Qed.

Lemma remove_spec fs pid : wf fs -> wf (filters_remove fs pid) /\
  filters_get (filters_remove fs pid) pid = None /\ (forall p, p <> pid -> filters_get (filters_remove fs pid) p = filters_get fs p).
Proof.
  intros Hw. unfold filters_remove. destruct (N.ltb_spec pid (f_len fs)) as [H|H].
  - split; [apply wf_set_slot; assumption|]. split; [apply get_set_none|]. intros p Hp. apply get_set_other. assumption.
  - split; [assumption|]. split; [|reflexivity]. unfold filters_get. replace (pid <? f_len fs) with false by lia. reflexivity.
Qed.

(* FilterChangeset::apply: total, and the last request for a PID wins; a Remove of an absent PID changes nothing *)
Lemma apply_changes_spec cs : forall fs, wf fs -> exists fs', apply_changes fs cs = Ok fs' /\ wf fs' /\
  forall p, filters_get fs' p = match last_change cs p with Some x => x | None => filters_get fs p end.
Proof.
  induction cs as [|[pid h|pid] cs IH]; intros fs Hw.
  - exists fs. split; [reflexivity|]. split; [assumption|]. intros p. reflexivity.
  - cbn [apply_changes last_change]. destruct (insert_spec fs pid h Hw) as (fs1 & E1 & Hw1 & G1 & O1). rewrite E1. cbn [bind].
    destruct (IH fs1 Hw1) as (fs2 & E2 & Hw2 & G2). exists fs2. split; [exact E2|]. split; [exact Hw2|].
    intros p. rewrite G2. destruct (last_change cs p); [reflexivity|].
    destruct (N.eqb_spec pid p) as [->|Hn]; [exact G1|]. apply O1. congruence.
  - cbn [apply_changes last_change]. destruct (remove_spec fs pid Hw) as (Hw1 & G1 & O1).
    destruct (IH _ Hw1) as (fs2 & E2 & Hw2 & G2). exists fs2. split; [exact E2|]. split; [exact Hw2|].
    intros p. rewrite G2. destruct (last_change cs p); [reflexivity|].
    destruct (N.eqb_spec pid p) as [->|Hn]; [exact G1|]. apply O1. congruence.
Qed.

(* ---- C06: the loop with the cached handler is the per-packet dispatcher ---- *)
Section Refine.
Variable policy : request -> hkind.
Variable scripts : N -> nat -> list action.
Variable fuzzing deep : bool.

Notation push_loop' := (push_loop policy scripts fuzzing deep).
Notation spec_push' := (spec_push policy scripts fuzzing deep).

Lemma clear_changes_id cx : cx_changes cx = [] -> clear_changes cx = cx.
Proof. intros H. destruct cx as [c s]. cbn in *. subst. reflexivity. Qed.

Definition cache_ok (fs : filters) (cached : option N) : Prop :=
  match cached with Some p => filters_contains fs p = true | None => True end.

Lemma contains_get fs p : filters_contains fs p = true <-> exists h, filters_get fs p = Some h.
Proof. unfold filters_contains. destruct (filters_get fs p); split; intros H; eauto; try discriminate. destruct H; discriminate. Qed.

Lemma tail3 {A B C} (r : res (A * B * list C)) (ev : list C) :
  (do x <- r; let '(f, c, e) := x in Ok (f, c, ev ++ e)) =
  (do b <- r; let '(f, c, e) := b in Ok (f, c, ev ++ e)).
Proof. reflexivity. Qed.

Lemma c06_refines pkts : forall fs cx cached, cache_ok fs cached ->
  push_loop' fs cx cached pkts = spec_push' fs cx pkts.
Proof.
  induction pkts as [|[i pk] rest IH]; intros fs cx cached Hc; [reflexivity|].
  cbn [push_loop spec_push spec_packet].
  destruct (pkt_pid pk) as [pid|]; cbn [bind]; [|reflexivity].
  assert (Hr0 : (if match cached with Some c => c =? pid | None => false end then Ok (fs, cx, [])
                 else if filters_contains fs pid then Ok (fs, cx, [])
                 else let '(cx1, h, ev) := construct policy cx (RqByPid pid) in
                      do fs1 <- filters_insert fs pid h; Ok (fs1, cx1, ev)) =
                (if filters_contains fs pid then Ok (fs, cx, [])
                 else let '(cx1, h, ev) := construct policy cx (RqByPid pid) in
                      do fs1 <- filters_insert fs pid h; Ok (fs1, cx1, ev))).
  { destruct cached as [c|]; [|reflexivity]. destruct (N.eqb_spec c pid) as [->|]; [|reflexivity].
    cbn [cache_ok] in Hc. rewrite Hc. reflexivity. }
  rewrite Hr0. clear Hr0.
  destruct (if filters_contains fs pid then Ok (fs, cx, [])
            else let '(cx1, h, ev) := construct policy cx (RqByPid pid) in
                 do fs1 <- filters_insert fs pid h; Ok (fs1, cx1, ev)) as [[[fs1 cx1] ev1]|]; cbn [bind]; [|reflexivity].
  destruct (filters_get fs1 pid) as [hd|] eqn:Eg; [|reflexivity].
  assert (Hc1 : cache_ok fs1 (Some pid)) by (cbn; apply contains_get; eauto).
  destruct (pkt_transport_error_indicator pk) as [tei|]; cbn [bind]; [|reflexivity].
  destruct tei.
  - cbn [bind]. rewrite (IH fs1 cx1 (Some pid) Hc1). destruct (spec_push' fs1 cx1 rest) as [[[f2 c2] e2]|]; reflexivity.
  - destruct (pkt_transport_scrambling_control pk) as [tsc|]; cbn [bind]; [|reflexivity].
    destruct (tsc_is_scrambled tsc).
    + cbn [bind]. rewrite (IH fs1 cx1 (Some pid) Hc1). destruct (spec_push' fs1 cx1 rest) as [[[f2 c2] e2]|]; reflexivity.
    + destruct (handler_consume policy scripts fuzzing deep hd cx1 i pk) as [[[hd' cx2] ev2]|]; cbn [bind]; [|reflexivity].
      destruct (cx_changes cx2) as [|ch cs] eqn:Ecs.
      * cbn [apply_changes bind]. rewrite clear_changes_id by assumption.
        rewrite IH.
        -- destruct (spec_push' (set_slot fs1 pid (Some hd')) cx2 rest) as [[[f3 c3] e3]|]; cbn [bind]; [|reflexivity].
           rewrite app_assoc. reflexivity.
        -- cbn. apply contains_get. exists hd'. apply get_set_same. eapply get_some_lt; eassumption.
      * destruct (apply_changes (set_slot fs1 pid (Some hd')) (ch :: cs)) as [fs3|]; cbn [bind]; [|reflexivity].
        rewrite (IH fs3 _ None I). unfold clear_changes.
        destruct (spec_push' fs3 {| cx_changes := []; cx_serial := cx_serial cx2 |} rest) as [[[f4 c4] e4]|]; cbn [bind]; [|reflexivity].
        rewrite app_assoc. reflexivity.
Qed.

(* the per-packet dispatcher over a concatenation is the dispatcher over the parts *)
Lemma spec_push_app a : forall b fs cx,
  spec_push' fs cx (a ++ b) =
  (do x <- spec_push' fs cx a; let '(f1, c1, e1) := x in
   do y <- spec_push' f1 c1 b; let '(f2, c2, e2) := y in Ok (f2, c2, e1 ++ e2)).
Proof.
  induction a as [|p a IH]; intros b fs cx.
  - cbn [app spec_push bind]. destruct (spec_push' fs cx b) as [[[f c] e]|]; reflexivity.
  - cbn [app spec_push]. destruct (spec_packet policy scripts fuzzing deep fs cx p) as [[[f1 c1] e1]|]; cbn [bind]; [|reflexivity].
    rewrite IH. destruct (spec_push' f1 c1 a) as [[[f2 c2] e2]|]; cbn [bind]; [|reflexivity].
    destruct (spec_push' f2 c2 b) as [[[f3 c3] e3]|]; cbn [bind]; [|reflexivity].
    rewrite app_assoc. reflexivity.
Qed.
End Refine.

(* ---- C07: framing into packets, and chunk boundaries at packet boundaries ---- *)
Definition good_sync (c : list N) : bool := match c with b0 :: _ => b0 =? SYNC_BYTE | [] => false end.

Fixpoint chunks_pure (n : nat) (base : N) (buf : list N) : list (N * pkt) :=
  match n with
  | O => []
  | S n' => (if good_sync (firstn 188 buf) then [(base, firstn 188 buf)] else [])
            ++ chunks_pure n' (base + 188) (skipn 188 buf)
  end.

Lemma try_new_188 c : length c = 188%nat -> pkt_try_new c = Ok (if good_sync c then Some c else None).
Proof.
  intros H. unfold pkt_try_new, assert, PKT_SIZE. rewrite H. cbn [Nat.eqb bind].
  destruct c as [|b0 r]; [discriminate|]. reflexivity.
Qed.

Lemma chunks_total fuel : forall base buf, (length buf < fuel)%nat ->
  chunks fuel base buf = Ok (chunks_pure (length buf / 188) base buf).
Proof.
  induction fuel as [|fuel IH]; intros base buf Hl; [lia|]. cbn [chunks]. unfold PKT_SIZE.
  destruct (Nat.ltb_spec (length buf) 188) as [Hs|Hg].
  - rewrite Nat.div_small by assumption. reflexivity.
  - unfold slice_to, slice_from. replace (Nat.leb 188 (length buf)) with true by (symmetry; apply Nat.leb_le; lia).
    cbn [bind]. rewrite try_new_188 by (rewrite firstn_length; lia). cbn [bind].
    rewrite IH by (rewrite skipn_length; lia). cbn [bind].
    assert (Hd : (length buf / 188 = S (length (skipn 188 buf) / 188))%nat).
    { rewrite skipn_length. replace (length buf) with (1 * 188 + (length buf - 188))%nat at 1 by lia.
      rewrite Nat.div_add_l by lia. lia. }
    rewrite Hd. cbn [chunks_pure]. change (n2 188) with 188.
    destruct (good_sync (firstn 188 buf)); reflexivity.
Qed.

Lemma chunks_pure_app n : forall a b base m, length a = (n * 188)%nat ->
  chunks_pure (n + m) base (a ++ b) = chunks_pure n base a ++ chunks_pure m (base + N.of_nat (length a)) b.
Proof.
  induction n as [|n IH]; intros a b base m Ha.
  - destruct a; [|discriminate]. cbn [app chunks_pure length Nat.add]. rewrite N.add_0_r. reflexivity.
  - cbn [Nat.add chunks_pure].
    assert (Hal : (188 <= length a)%nat) by lia.
    rewrite firstn_app. replace (188 - length a)%nat with 0%nat by lia. rewrite firstn_O, app_nil_r.
    rewrite skipn_app. replace (188 - length a)%nat with 0%nat by lia. rewrite skipn_O.
    rewrite IH by (rewrite skipn_length; lia).
    rewrite skipn_length. rewrite <- app_assoc. do 2 f_equal.
    f_equal. lia.
Qed.

Section Chunking.
Variable policy : request -> hkind.
Variable scripts : N -> nat -> list action.
Variable fuzzing deep : bool.
Notation push' := (push policy scripts fuzzing deep).
Notation pushes' := (pushes policy scripts fuzzing deep).
Notation spec_push' := (spec_push policy scripts fuzzing deep).

(* push = the per-packet dispatcher over the packets with a valid sync byte *)
Lemma push_spec fs cx base buf :
  push' fs cx base buf = spec_push' fs cx (chunks_pure (length buf / 188) base buf).
Proof.
  unfold push. rewrite chunks_total by lia. cbn [bind]. apply c06_refines. exact I.
Qed.

Definition aligned (buf : list N) : Prop := exists n, length buf = (n * 188)%nat.

Lemma push_app fs cx base a b : aligned a ->
  push' fs cx base (a ++ b) =
  (do x <- push' fs cx base a; let '(f1, c1, e1) := x in
   do y <- push' f1 c1 (base + N.of_nat (length a)) b; let '(f2, c2, e2) := y in Ok (f2, c2, e1 ++ e2)).
Proof.
  intros [n Hn]. rewrite !push_spec. rewrite app_length, Hn.
  rewrite Nat.div_add_l by lia. rewrite Nat.div_mul by lia.
  rewrite (chunks_pure_app n a b base (length b / 188)) by exact Hn.
  rewrite spec_push_app. rewrite Hn.
  destruct (spec_push' fs cx (chunks_pure n base a)) as [[[f1 c1] e1]|]; cbn [bind]; [|reflexivity].
  rewrite push_spec. reflexivity.
Qed.

Lemma pushes_single fs cx base b : pushes' fs cx base [b] = push' fs cx base b.
Proof.
  cbn [pushes]. destruct (push' fs cx base b) as [[[f c] e]|]; cbn [bind]; [|reflexivity]. rewrite app_nil_r. reflexivity.
Qed.

(* any packet-aligned cutting of the stream into successive push calls (empty and single-packet calls
   included) produces the same call-backs and the same final state as one push of the whole stream *)
Lemma c07_chunking bufs : forall fs cx base, Forall aligned bufs ->
  pushes' fs cx base bufs = push' fs cx base (concat bufs).
Proof.
  induction bufs as [|a rest IH]; intros fs cx base Hal.
  - cbn [pushes concat]. rewrite push_spec. reflexivity.
  - inversion Hal as [|? ? Ha Hrest]; subst. cbn [pushes concat]. rewrite push_app by assumption.
    destruct (push' fs cx base a) as [[[f1 c1] e1]|]; cbn [bind]; [|reflexivity].
    rewrite IH by assumption. change (n2 (length a)) with (N.of_nat (length a)). reflexivity.
Qed.
End Chunking.

(* ---- consequences stated on the per-packet dispatcher ---- *)
Section Consequences.
Variable policy : request -> hkind.
Variable scripts : N -> nat -> list action.
Variable fuzzing deep : bool.
Notation spec_packet' := (spec_packet policy scripts fuzzing deep).

(* a packet flagged with transport_error_indicator or scrambling is handed to no handler: the table
   entry of its PID (requested if absent) and the context are all that can change *)
Lemma flagged_none fs cx i pk pid hd :
  pkt_pid pk = Ok pid -> filters_get fs pid = Some hd ->
  (pkt_transport_error_indicator pk = Ok true \/
   (pkt_transport_error_indicator pk = Ok false /\ exists tsc, pkt_transport_scrambling_control pk = Ok tsc /\ tsc_is_scrambled tsc = true)) ->
  spec_packet' fs cx (i, pk) = Ok (fs, cx, []).
Proof.
  intros Hp Hg Hf. cbn [spec_packet]. rewrite Hp. cbn [bind].
  replace (filters_contains fs pid) with true by (symmetry; apply contains_get; eauto). cbn [bind]. rewrite Hg.
  destruct Hf as [Ht|(Ht & tsc & Hs & Hsc)]; rewrite Ht; cbn [bind]; [reflexivity|]. rewrite Hs. cbn [bind]. rewrite Hsc. reflexivity.
Qed.

(* a PID without handler is offered to the application as an unannounced PID when it next appears *)
Lemma reoffer fs cx i pk pid : wf fs ->
  pkt_pid pk = Ok pid -> filters_get fs pid = None ->
  exists fs1, filters_insert fs pid (mk_handler (policy (RqByPid pid)) (cx_serial cx)) = Ok fs1 /\
  forall r, spec_packet' fs cx (i, pk) = Ok r -> exists ev, snd r = EvConstruct (cx_serial cx) (RqByPid pid) :: ev.
Proof.
  intros Hw Hp Hg. destruct (insert_spec fs pid (mk_handler (policy (RqByPid pid)) (cx_serial cx)) Hw) as (fs1 & E1 & Hw1 & G1 & _).
  exists fs1. split; [exact E1|]. intros r. cbn [spec_packet]. rewrite Hp. cbn [bind].
  unfold filters_contains. rewrite Hg. unfold construct. rewrite E1. cbn [bind]. rewrite G1.
  destruct (pkt_transport_error_indicator pk) as [[|]|]; cbn [bind]; try discriminate.
  - intros E; inversion E; subst. eexists; reflexivity.
  - destruct (pkt_transport_scrambling_control pk) as [tsc|]; cbn [bind]; try discriminate.
    destruct (tsc_is_scrambled tsc); [intros E; inversion E; subst; eexists; reflexivity|].
    destruct (handler_consume _ _ _ _ _ _ _ _) as [[[hd' cx2] ev2]|]; cbn [bind]; try discriminate.
    destruct (apply_changes _ _); cbn [bind]; try discriminate.
    intros E; inversion E; subst. cbn [snd app]. eexists; reflexivity.
Qed.

(* a packet on a PID handled by a scripted handler: the handler that was in the table BEFORE receives it
   (its own invocation counter advances), the queued requests are then applied in order, and the queue is
   empty afterwards; the next packet (even of the same PID) is dispatched against the new table *)
Lemma script_step fs cx i pk pid s id n :
  wf fs -> pkt_pid pk = Ok pid -> filters_get fs pid = Some (HScript s id n) ->
  pkt_transport_error_indicator pk = Ok false ->
  (exists tsc, pkt_transport_scrambling_control pk = Ok tsc /\ tsc_is_scrambled tsc = false) ->
  forall r, spec_packet' fs cx (i, pk) = Ok r ->
  exists cx2 evq fs3,
    queue_actions cx (scripts id n) = Ok (cx2, evq) /\
    apply_changes (set_slot fs pid (Some (HScript s id (S n)))) (cx_changes cx2) = Ok fs3 /\
    r = (fs3, clear_changes cx2, EvPacket s i [] :: evq) /\
    (forall p, filters_get fs3 p = match last_change (cx_changes cx2) p with
                                    | Some x => x
                                    | None => filters_get (set_slot fs pid (Some (HScript s id (S n)))) p end).
Proof.
  intros Hw Hp Hg Ht (tsc & Hs & Hsc) r. cbn [spec_packet]. rewrite Hp. cbn [bind].
  replace (filters_contains fs pid) with true by (symmetry; apply contains_get; eauto). cbn [bind]. rewrite Hg, Ht. cbn [bind].
  rewrite Hs. cbn [bind]. rewrite Hsc. cbn [handler_consume].
  destruct (queue_actions cx (scripts id n)) as [[cx2 evq]|]; cbn [bind fst snd]; [|discriminate].
  assert (Hw2 : wf (set_slot fs pid (Some (HScript s id (S n))))) by (apply wf_set_slot; [assumption|eapply get_some_lt; eassumption]).
  destruct (apply_changes_spec (cx_changes cx2) _ Hw2) as (fs3 & E3 & Hw3 & G3). rewrite E3. cbn [bind].
  intros E. injection E as <-. exists cx2, evq, fs3. split; [reflexivity|]. split; [exact E3|]. split; [reflexivity|exact G3].
Qed.
End Consequences.
