//! Observation encoders mirroring the Coq `enc_*` / `obs_*` definitions (Model/*Obs.v).
use mpeg2ts_reader::packet::{self, AdaptationField, AdaptationFieldError, AdaptationFieldExtension, ClockRef, Packet};
use mpeg2ts_reader::pes::{Timestamp, TimestampError};

pub fn b(x: bool) -> u64 { x as u64 }

pub fn off_in(base: &[u8], s: &[u8]) -> u64 {
    (s.as_ptr() as usize).wrapping_sub(base.as_ptr() as usize) as u64
}

pub fn enc_ts_err(e: &TimestampError, v: &mut Vec<u64>) {
    match e {
        TimestampError::IncorrectPrefixBits { expected, actual } => { v.push(1); v.push(*expected as u64); v.push(*actual as u64); }
        TimestampError::MarkerBitNotSet { bit_number } => { v.push(2); v.push(*bit_number as u64); }
    }
}
pub fn enc_ts_result(r: &Result<Timestamp, TimestampError>, v: &mut Vec<u64>) {
    match r {
        Ok(t) => { v.push(0); v.push(t.value()); }
        Err(e) => { v.push(1); enc_ts_err(e, v); }
    }
}
pub fn enc_af_err(e: &AdaptationFieldError, v: &mut Vec<u64>) {
    match e {
        AdaptationFieldError::FieldNotPresent => v.push(1),
        AdaptationFieldError::NotEnoughData => v.push(2),
        AdaptationFieldError::SpliceTimestampError(t) => { v.push(3); enc_ts_err(t, v); }
    }
}
pub fn enc_clockref(c: &ClockRef, v: &mut Vec<u64>) {
    v.push(c.base()); v.push(c.extension() as u64); v.push(u64::from(*c));
}
fn enc_rr<T>(r: &Result<T, AdaptationFieldError>, v: &mut Vec<u64>, f: impl FnOnce(&T, &mut Vec<u64>)) {
    match r { Ok(x) => { v.push(0); f(x, v); } Err(e) => { v.push(1); enc_af_err(e, v); } }
}
pub fn obs_afe(e: &AdaptationFieldExtension<'_>, v: &mut Vec<u64>) {
    enc_rr(&e.ltw_offset(), v, |o, v| match o { Some(x) => { v.push(1); v.push(*x as u64); } None => v.push(0) });
    enc_rr(&e.piecewise_rate(), v, |x, v| v.push(*x as u64));
    enc_rr(&e.seamless_splice(), v, |s, v| { v.push(s.splice_type as u64); v.push(s.dts_next_au.value()); });
    let _ = format!("{:?}", e);
}
/// `base` = the buffer relative to which private-data offsets are reported
pub fn obs_af(af: &AdaptationField<'_>, base: &[u8], v: &mut Vec<u64>) {
    v.push(b(af.discontinuity_indicator()));
    v.push(b(af.random_access_indicator()));
    v.push(af.elementary_stream_priority_indicator() as u64);
    enc_rr(&af.pcr(), v, enc_clockref);
    enc_rr(&af.opcr(), v, enc_clockref);
    enc_rr(&af.splice_countdown(), v, |x, v| v.push(*x as u64));
    enc_rr(&af.transport_private_data(), v, |d, v| { v.push(off_in(base, d)); v.push(d.len() as u64); });
    match af.adaptation_field_extension() {
        Ok(e) => { v.push(0); obs_afe(&e, v); }
        Err(e) => { v.push(1); enc_af_err(&e, v); }
    }
    let _ = format!("{:?}", af);
}
pub fn obs_packet(p: &Packet<'_>, v: &mut Vec<u64>) {
    let buf = p.buffer();
    v.push(b(p.transport_error_indicator()));
    v.push(b(p.payload_unit_start_indicator()));
    v.push(b(p.transport_priority()));
    v.push(u16::from(p.pid()) as u64);
    let tsc = p.transport_scrambling_control();
    v.push(tsc.scheme().map(|x| x.get() as u64).unwrap_or(0));
    v.push(b(tsc.is_scrambled()));
    let _ = format!("{:?}", tsc);
    let ac = p.adaptation_control();
    v.push(b(ac.has_adaptation_field()));
    v.push(b(ac.has_payload()));
    let _ = format!("{:?}", ac);
    v.push(p.continuity_counter().count() as u64);
    match p.payload() {
        Some(d) => { v.push(1); v.push(off_in(buf, d)); v.push(d.len() as u64); }
        None => v.push(0),
    }
    match p.adaptation_field() {
        Some(af) => { v.push(1); obs_af(&af, buf, v); }
        None => v.push(0),
    }
    let _ = format!("{:?}", p.pid());
}
pub fn run_packet(buf: &[u8]) -> Vec<u64> {
    let mut v = vec![];
    match packet::Packet::try_new(buf) {
        None => v.push(0),
        Some(p) => { v.push(1); obs_packet(&p, &mut v); }
    }
    v
}
pub fn run_af(buf: &[u8]) -> Vec<u64> {
    let mut v = vec![];
    let af = AdaptationField::new(buf);
    obs_af(&af, buf, &mut v);
    // the accessors are functions of the bytes alone: the same value asked again, and a second value asked in the opposite
    // order first (extension, private data, splice countdown, OPCR, PCR), must answer the same.  If not, the observation of
    // the second value is reported with a marker, so that it differs from the model's.
    let mut again = vec![];
    obs_af(&af, buf, &mut again);
    let af2 = AdaptationField::new(buf);
    if let Ok(e) = af2.adaptation_field_extension() { let _ = (e.seamless_splice(), e.piecewise_rate(), e.ltw_offset()); }
    let _ = af2.transport_private_data(); let _ = af2.splice_countdown(); let _ = af2.opcr(); let _ = af2.pcr();
    let mut rev = vec![];
    obs_af(&af2, buf, &mut rev);
    if again != v { again.push(777_777); return again; }
    if rev != v { rev.push(777_778); return rev; }
    v
}

// ---- C12 observation with the adaptation-field range fingerprint (mirrors obs_packet_c12) ----
fn tpd_abs(af: &AdaptationField<'_>, base: &[u8]) -> Vec<u64> {
    let mut v = vec![];
    enc_rr(&af.transport_private_data(), &mut v, |d, v| { v.push(off_in(base, d)); v.push(d.len() as u64); });
    v
}
fn fp_cands(l: u8) -> Vec<usize> {
    let l = l as usize;
    [l.saturating_sub(1), l, l + 1, 182, 183].iter().cloned().filter(|n| *n >= 1 && *n <= 183).collect()
}
pub fn run_packet_c12(buf: &[u8]) -> Vec<u64> {
    let mut v = vec![];
    let p = match packet::Packet::try_new(buf) { None => { v.push(0); return v; } Some(p) => p };
    v.push(1);
    v.push(b(p.transport_error_indicator()));
    v.push(b(p.payload_unit_start_indicator()));
    v.push(b(p.transport_priority()));
    v.push(u16::from(p.pid()) as u64);
    let tsc = p.transport_scrambling_control();
    v.push(tsc.scheme().map(|x| x.get() as u64).unwrap_or(0));
    v.push(b(tsc.is_scrambled()));
    let ac = p.adaptation_control();
    v.push(b(ac.has_adaptation_field()));
    v.push(b(ac.has_payload()));
    v.push(p.continuity_counter().count() as u64);
    match p.payload() {
        Some(d) => { v.push(1); v.push(off_in(buf, d)); v.push(d.len() as u64); }
        None => v.push(0),
    }
    v.push(b(p.adaptation_field().is_some()));
    let l = buf[4];
    for k in [l.saturating_sub(2), l.saturating_sub(1), 181, 182] {
        let mut q = buf.to_vec();
        q[5] = 2; q[6] = k;
        let pp = packet::Packet::new(&q);
        match pp.adaptation_field() {
            None => v.push(0),
            Some(af) => {
                v.push(1);
                let via = tpd_abs(&af, &q);
                for n in fp_cands(l) {
                    let sa = AdaptationField::new(&q[5..5 + n]);
                    v.push(b(tpd_abs(&sa, &q) == via));
                }
            }
        }
    }
    v
}

// ---- C15 ----
pub fn run_tsb(buf: &[u8]) -> Vec<u64> {
    let mut v = vec![];
    enc_ts_result(&Timestamp::from_bytes(buf), &mut v);
    enc_ts_result(&Timestamp::from_pts_bytes(buf), &mut v);
    enc_ts_result(&Timestamp::from_dts_bytes(buf), &mut v);
    v
}
pub fn run_tsu(x: u64) -> Vec<u64> {
    let t = Timestamp::from_u64(x);
    let _ = format!("{:?}", t);
    vec![t.value(), b(t.value() <= Timestamp::MAX.value())]
}
pub fn run_tsw(a: u64, since: u64) -> Vec<u64> {
    vec![b(Timestamp::from_u64(a).likely_wrapped_since(Timestamp::from_u64(since)))]
}
pub fn run_crp(base: u64, ext: u64) -> Vec<u64> {
    let mut v = vec![];
    if ext > 0xffff { panic!("extension does not fit u16"); }
    let c = ClockRef::from_parts(base, ext as u16);
    let _ = format!("{:?}", c);
    enc_clockref(&c, &mut v);
    v
}
pub fn run_crs(d: &[u8]) -> Vec<u64> {
    let mut v = vec![];
    enc_clockref(&ClockRef::from_slice(d), &mut v);
    v
}

// ---- C14: PES header ----
use mpeg2ts_reader::pes::{self, DsmTrickMode, FrequencyTruncationCoefficientSelection, PesContents, PesError, PesHeader, PesLength, PesParsedContents, PtsDts};

pub fn enc_pes_err(e: &PesError, v: &mut Vec<u64>) {
    match e {
        PesError::FieldNotPresent => v.push(1),
        PesError::PtsDtsFlagsInvalid => v.push(2),
        PesError::NotEnoughData { requested, available } => { v.push(3); v.push(*requested as u64); v.push(*available as u64); }
        PesError::MarkerBitNotSet => v.push(4),
    }
}
fn enc_pr<T>(r: &Result<T, PesError>, v: &mut Vec<u64>, f: impl FnOnce(&T, &mut Vec<u64>)) {
    match r { Ok(x) => { v.push(0); f(x, v); } Err(e) => { v.push(1); enc_pes_err(e, v); } }
}
fn freq(f: &FrequencyTruncationCoefficientSelection) -> u64 {
    match f {
        FrequencyTruncationCoefficientSelection::DCNonZero => 0,
        FrequencyTruncationCoefficientSelection::FirstThreeNonZero => 1,
        FrequencyTruncationCoefficientSelection::FirstSixNonZero => 2,
        FrequencyTruncationCoefficientSelection::AllMaybeNonZero => 3,
    }
}
fn enc_trick(t: &DsmTrickMode, v: &mut Vec<u64>) {
    match t {
        DsmTrickMode::FastForward { field_id, intra_slice_refresh, frequency_truncation } => { v.extend([0, *field_id as u64, b(*intra_slice_refresh), freq(frequency_truncation)]); }
        DsmTrickMode::SlowMotion { rep_cntrl } => v.extend([1, *rep_cntrl as u64]),
        DsmTrickMode::FreezeFrame { field_id, reserved } => v.extend([2, *field_id as u64, *reserved as u64]),
        DsmTrickMode::FastReverse { field_id, intra_slice_refresh, frequency_truncation } => { v.extend([3, *field_id as u64, b(*intra_slice_refresh), freq(frequency_truncation)]); }
        DsmTrickMode::SlowReverse { rep_cntrl } => v.extend([4, *rep_cntrl as u64]),
        DsmTrickMode::Reserved { reserved } => v.extend([5, *reserved as u64]),
    }
}
pub fn obs_ppc(p: &PesParsedContents<'_>, base: &[u8], v: &mut Vec<u64>) {
    v.push(p.pes_priority() as u64);
    v.push(b(p.data_alignment_indicator() == pes::DataAlignment::Aligned));
    v.push(b(p.copyright() == pes::Copyright::Protected));
    v.push(b(p.original_or_copy() == pes::OriginalOrCopy::Original));
    enc_pr(&p.pts_dts(), v, |x, v| match x {
        PtsDts::PtsOnly(t) => { v.push(1); enc_ts_result(t, v); }
        PtsDts::Both { pts, dts } => { v.push(2); enc_ts_result(pts, v); enc_ts_result(dts, v); }
        PtsDts::None => v.push(8),
        PtsDts::Invalid => v.push(9),
    });
    enc_pr(&p.escr(), v, enc_clockref);
    enc_pr(&p.es_rate(), v, |r, v| { v.push(r.bytes_per_second() as u64 / 50); v.push(r.bytes_per_second() as u64); });
    enc_pr(&p.dsm_trick_mode(), v, enc_trick);
    enc_pr(&p.additional_copy_info(), v, |x, v| v.push(*x as u64));
    enc_pr(&p.previous_pes_packet_crc(), v, |x, v| v.push(*x as u64));
    enc_pr(&p.pes_extension(), v, |_, _| {});
    let pl = p.payload();
    v.push(off_in(base, pl)); v.push(pl.len() as u64);
    let _ = format!("{:?}", p);
}
/// StreamId is opaque (private field, no accessor): recover the numeric value from equality with the
/// public constants and, for the numbered ranges, from the Debug rendering.
pub fn sid_value(s: &pes::StreamId) -> u64 {
    use pes::StreamId as S;
    let named: [(S, u64); 20] = [(S::PROGRAM_STREAM_MAP, 0xbc), (S::PRIVATE_STREAM1, 0xbd), (S::PADDING_STREAM, 0xbe), (S::PRIVATE_STREAM2, 0xbf),
        (S::ECM_STREAM, 0xf0), (S::EMM_STREAM, 0xf1), (S::DSM_CC, 0xf2), (S::ISO_13522_STREAM, 0xf3), (S::H222_1_TYPE_A, 0xf4), (S::H222_1_TYPE_B, 0xf5),
        (S::H222_1_TYPE_C, 0xf6), (S::H222_1_TYPE_D, 0xf7), (S::H222_1_TYPE_E, 0xf8), (S::ANCILLARY_STREAM, 0xf9), (S::SL_PACKETIZED_STREAM, 0xfa),
        (S::FLEX_MUX_STREAM, 0xfb), (S::METADATA_STREAM, 0xfc), (S::EXTENDED_STREAM_ID, 0xfd), (S::RESERVED_DATA_STREAM, 0xfe), (S::PROGRAM_STREAM_DIRECTORY, 0xff)];
    for (c, n) in named.iter() { if c == s { return *n; } }
    let d = format!("{:?}", s);
    let num = |p: &str| d.strip_prefix(p).and_then(|r| r.strip_suffix(')')).and_then(|r| r.parse::<u64>().ok());
    if let Some(k) = num("Audio(") { return 0xc0 + k; }
    if let Some(k) = num("Video(") { return 0xe0 + k; }
    if let Some(k) = num("Unknown(") { return k; }
    1000
}
pub fn obs_pes_header(h: &PesHeader<'_>, base: &[u8], v: &mut Vec<u64>) {
    v.push(sid_value(&h.stream_id()));
    v.push(match h.pes_packet_length() { PesLength::Unbounded => 0, PesLength::Bounded(l) => l.get() as u64 });
    match h.contents() {
        PesContents::Payload(d) => { v.push(2); v.push(off_in(base, d)); v.push(d.len() as u64); }
        PesContents::Parsed(None) => v.push(0),
        PesContents::Parsed(Some(p)) => { v.push(1); obs_ppc(&p, base, v); }
    }
}
pub fn run_pes(buf: &[u8]) -> Vec<u64> {
    let mut v = vec![];
    match PesHeader::from_bytes(buf) {
        None => v.push(0),
        Some(h) => {
            v.push(1); obs_pes_header(&h, buf, &mut v);
            // answers must not depend on what was asked before (see run_af)
            let mut again = vec![1]; obs_pes_header(&h, buf, &mut again);
            let mut rev = vec![1];
            if let Some(h2) = PesHeader::from_bytes(buf) {
                if let PesContents::Parsed(Some(q)) = h2.contents() { touch_ppc_rev(&q); }
                let _ = h2.pes_packet_length(); let _ = h2.stream_id();
                obs_pes_header(&h2, buf, &mut rev);
            }
            return stable(v, again, rev);
        }
    }
    v
}
/// `v` unless asking again (`again`) or asking in the opposite order first (`rev`) answered differently; then that other
/// answer, marked, so that it differs from the model's
pub fn stable(v: Vec<u64>, mut again: Vec<u64>, mut rev: Vec<u64>) -> Vec<u64> {
    if again != v { again.push(777_777); return again; }
    if rev != v { rev.push(777_778); return rev; }
    v
}
fn touch_ppc_rev(q: &PesParsedContents<'_>) {
    let _ = q.payload(); let _ = q.pes_extension(); let _ = q.previous_pes_packet_crc(); let _ = q.additional_copy_info();
    let _ = q.dsm_trick_mode(); let _ = q.es_rate(); let _ = q.escr(); let _ = q.pts_dts();
    let _ = q.original_or_copy(); let _ = q.copyright(); let _ = q.data_alignment_indicator(); let _ = q.pes_priority();
}
pub fn run_ppc(buf: &[u8]) -> Vec<u64> {
    let mut v = vec![];
    match PesParsedContents::from_bytes(buf) {
        None => v.push(0),
        Some(p) => {
            v.push(1); obs_ppc(&p, buf, &mut v);
            let mut again = vec![1]; obs_ppc(&p, buf, &mut again);
            let mut rev = vec![1];
            if let Some(q) = PesParsedContents::from_bytes(buf) { touch_ppc_rev(&q); obs_ppc(&q, buf, &mut rev); }
            return stable(v, again, rev);
        }
    }
    v
}
