(* Extract/Extract.v — extraction of the executable model and checkers (ExtrOcamlBasic only). *)
Require Extraction.
Require Import ExtrOcamlBasic.
From TS Require Import Spec.CrcSpec Base.Res Model.Timestamp Model.Packet Model.PacketObs Model.Pes Model.PesObs Model.Crc Model.Descriptor Model.Tables Model.TablesObs Model.PesFilter Model.Psi Model.PsiObs Model.Demux Model.DemuxObs.
Extraction "Extract/model.ml" run_packet run_packet_c12 run_af run_tsb run_tsu run_tsw run_crp run_crs run_pes run_ppc run_crc run_sec run_dsc run_pat run_pmt run_dmx run_pesf run_alloc run_mem s_crc.
