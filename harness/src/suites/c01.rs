//! C01: arbitrary input never panics the demultiplexer or any accessor (deep observer; both cfgs).
use crate::mux::*;
use crate::suites::streams::*;
use crate::util::*;

fn chunkings(bytes: &[u8], style: u64, rng: &mut Rng) -> Vec<Vec<u8>> {
    match style {
        0 => vec![bytes.to_vec()],
        1 => bytes.chunks(188).map(|c| c.to_vec()).collect(),
        2 => { let mut v = vec![]; let mut pos = 0; while pos < bytes.len() { let n = (188 * rng.range(1, 6) as usize).min(bytes.len() - pos); v.push(bytes[pos..pos + n].to_vec()); pos += n; } v }
        3 => { let mut v = vec![]; let mut pos = 0; while pos < bytes.len() { let n = (rng.range(1, 700) as usize).min(bytes.len() - pos); v.push(bytes[pos..pos + n].to_vec()); pos += n; } v }
        _ => { let n = bytes.len().min(600); let mut v: Vec<Vec<u8>> = bytes[..n].iter().map(|b| vec![*b]).collect(); v.push(bytes[n..].to_vec()); v }
    }
}

/// steer a length-like byte of a packet to a boundary value
fn steer(p: &mut Vec<u8>, rng: &mut Rng) {
    match rng.below(9) {
        0 => { p[3] |= 0x20; p[4] = *rng.pick(&[0u8, 1, 181, 182, 183, 184, 255]); }                  // adaptation_field_length
        1 => { p[1] |= 0x40; p[3] = (p[3] & 0xcf) | 0x10; p[4] = *rng.pick(&[0u8, 1, 170, 180, 181, 182, 183, 184, 255]); } // pointer_field
        2 => { p[1] |= 0x40; p[3] = (p[3] & 0xcf) | 0x10; p[4] = 0; p[6] = 0xb0 | (rng.byte() & 0x0f); p[7] = *rng.pick(&[0u8, 1, 4, 5, 8, 9, 12, 13, 170, 176, 177, 178, 179, 180, 0xfd, 0xfe, 0xff]); } // section_length
        3 => { let k = rng.range(5, 187) as usize; p[k] = *rng.pick(&[0u8, 1, 2, 0x7f, 0x80, 0xf0, 0xfe, 0xff]); }
        4 => { let k = rng.range(4, 186) as usize; p[k] = 0xf0 | (rng.byte() & 0x0f); p[k + 1] = rng.byte(); }                // a 12-bit length somewhere
        5 => { p[1] |= 0x40; p[3] = (p[3] & 0xcf) | 0x10; p[4] = 0; p[5] = 0; p[6] = 1; p[10] = 0x80 | (rng.byte() & 0x3f); p[12] = *rng.pick(&[0u8, 1, 4, 5, 9, 10, 13, 170, 174, 175, 176, 255]); } // PES header length
        6 => { p[3] = (p[3] & 0x0f) | ((rng.below(16) as u8) << 4); }
        7 => { p[0] = *rng.pick(&[0u8, 0x47, 0x48]); }
        _ => { let k = rng.below(188) as usize; p[k] ^= 1 << rng.below(8); }
    }
}

/// a hostile sequence of packets on one table PID following the grammar of the section layer: section starts with every
/// kind of pointer_field (in range, at the end, beyond the payload), declared lengths around every boundary (so that 0..8 or
/// many bytes stay outstanding), starts with fewer than 3 / 8 bytes in the packet, continuations of any size, payload-less packets
pub fn psi_grammar(pid: u16, rng: &mut Rng) -> Vec<Vec<u8>> {
    let mut m = Mux::new(); m.set_cc(pid, rng.below(16) as u8);
    let tid = if pid == 0 { 0u8 } else { 2 };
    for _ in 0..rng.range(2, 9) {
        match rng.below(8) {
            0 | 1 | 2 => { // a start: `avail` payload bytes, pointer p, then a section header declaring `len`
                let avail = *rng.pick(&[184usize, 184, 184, 100, 20, 12, 10, 9, 5, 4, 3, 2, 1]);
                let p = match rng.below(6) { 0 => avail - 1, 1 => avail, 2 => avail + 3, 3 => rng.below(avail as u64) as usize, _ => 0 };
                let room = avail.saturating_sub(1 + p);                       // section bytes that fit this packet
                let len = match rng.below(8) { 0 => room.saturating_sub(3), 1 => room.saturating_sub(3) + 1 + rng.below(8) as usize, 2 => room + rng.below(200) as usize, 3 => 1021, 4 => 1022, 5 => rng.below(13) as usize, 6 => 4095, _ => rng.below(1022) as usize };
                let mut pl = vec![p as u8];
                let mut sec = vec![tid, (if rng.chance(7, 8) { 0xb0 } else { 0x30 }) | ((len >> 8) as u8 & 0x0f), len as u8, rng.byte(), rng.byte(), 0xc1 | (rng.below(32) as u8) << 1, 0, 0];
                sec.extend(rng.bytes(len.min(1100)));
                if rng.chance(1, 2) && sec.len() >= 12 && sec.len() == len + 3 { let n = sec.len(); let c = crc32_mpeg(&sec[..n - 4]); sec[n - 4..].copy_from_slice(&c.to_be_bytes()); }
                let filler = rng.bytes(p.min(183)); pl.extend(filler); pl.extend(sec);
                pl.truncate(avail);
                while pl.len() < avail { pl.push(0xff); }
                m.data_packet(pid, true, &pl, rng);
            }
            3 | 4 | 5 => { let n = *rng.pick(&[1usize, 2, 3, 4, 5, 7, 8, 9, 100, 183, 184, 184]); let pl = rng.bytes(n); m.data_packet(pid, false, &pl, rng); }
            6 => { m.af_only(pid, None, rng); }
            _ => { let pl = vec![0xffu8; 184]; m.data_packet(pid, rng.chance(1, 2), &pl, rng); }
        }
    }
    m.pkts
}

pub fn gen(tier: &str, seed: u64, emit: &mut dyn FnMut(String)) {
    let mut rng = Rng::new(seed ^ 0xC01);
    let big = tier == "thorough";
    let n = if big { 40000 } else { 1500 };
    for i in 0..n {
        let (m, _t, progs) = valid_stream(&mut rng, 1 + (i % 3) as usize, 1 + (i % 3) as usize, true);
        let mut pk = m.pkts.clone();
        // hostile edits
        match i % 6 {
            0 => {}
            1 => { for _ in 0..rng.range(1, 12) { let k = rng.below(pk.len() as u64) as usize; steer(&mut pk[k], &mut rng); } }
            2 => { for _ in 0..rng.range(1, 6) { let k = rng.below(pk.len() as u64) as usize;
                       match rng.below(3) { 0 => { pk.remove(k); if pk.is_empty() { pk.push(rng.bytes(188)); } } 1 => { let d = pk[k].clone(); pk.insert(k, d); } _ => { let j = rng.below(pk.len() as u64) as usize; pk.swap(k, j); } } } }
            3 => { // table PIDs flooded with section-looking junk (reaches the table parsers under cfg(fuzzing))
                   let mut pids: Vec<u16> = vec![0]; for p in progs.iter() { pids.push(p.pmt_pid); }
                   for _ in 0..rng.range(2, 10) { let pid = *rng.pick(&pids);
                       let l = *rng.pick(&[0usize, 5, 9, 12, 13, 17, 40, 170, 176, 180, 300, 1021, 1022]);
                       let mut s = vec![if pid == 0 { 0 } else { 2 }, 0xb0 | ((l >> 8) as u8 & 0x0f), l as u8]; let body = rng.bytes(l.min(400)); s.extend(body);
                       if rng.chance(1, 2) && s.len() >= 12 { let n = s.len(); let c = crc32_mpeg(&s[..n - 4]); s[n - 4..].copy_from_slice(&c.to_be_bytes()); }
                       let mut mm = Mux::new(); mm.set_cc(pid, rng.below(16) as u8); mm.psi(pid, &s, if rng.chance(1, 4) { rng.range(1, 30) as usize } else { 0 }, rng.below(3), &mut rng);
                       let at = rng.below(pk.len() as u64 + 1) as usize; for (j, p) in mm.pkts.into_iter().enumerate() { pk.insert((at + j).min(pk.len()), p); } } }
            4 => { // grammar-directed hostile sequences on the table PIDs, placed after the tables that create their handlers
                   let mut pids: Vec<u16> = vec![0]; for p in progs.iter() { pids.push(p.pmt_pid); }
                   for _ in 0..rng.range(1, 4) { let pid = *rng.pick(&pids); let g = psi_grammar(pid, &mut rng);
                       let at = rng.range((pk.len() as u64).min(progs.len() as u64 + 1), pk.len() as u64) as usize;
                       for (j, p) in g.into_iter().enumerate() { pk.insert((at + j).min(pk.len()), p); } } }
            _ => { let k = rng.range(1, 40) as usize; pk = (0..k).map(|_| { let mut p = rng.bytes(188); if rng.chance(3, 4) { p[0] = 0x47; } if rng.chance(1, 2) { p[1] &= 0x60; p[2] = rng.below(4) as u8; } p }).collect(); }
        }
        let mut bytes: Vec<u8> = pk.concat();
        if rng.chance(1, 6) { let cut = rng.below(bytes.len() as u64 + 1) as usize; bytes.truncate(cut); }
        if rng.chance(1, 8) { let extra = rng.range(1, 187) as usize; let junk = rng.bytes(extra); let at = 188 * rng.below((bytes.len() / 188) as u64 + 1) as usize; let at = at.min(bytes.len()); bytes.splice(at..at, junk); }
        let style = if bytes.len() > 20000 { rng.below(4) } else { rng.below(5) };
        let chunks = chunkings(&bytes, style, &mut rng);
        emit(dmx_case(1, "", &chunks));
    }
    // one very long run on an elementary PID: a PES packet, a counter gap, then 66000 continuation packets without a unit start
    // (beyond any 16-bit counter), pushed 48 packets at a time
    {
        let mut m = Mux::new();
        let pat = section(0, 1, 0, true, &pat_body(&[(1, 0x100)], &mut rng));
        let pmt = section(2, 1, 0, true, &pmt_body(0x101, &[], &[(0x1b, 0x101, vec![])], &mut rng));
        m.psi(0, &pat, 0, 0, &mut rng); m.psi(0x100, &pmt, 0, 0, &mut rng);
        let spec = PesSpec { stream_id: 0xe0, pts: Some(1), dts: None, extra_hdr: 0, bounded: false, payload: rng.bytes(300), opt_flags: 0, opt_fill: vec![0xff] };
        let (bytes, hl) = pes_packet(&spec); m.unit(0x101, &bytes, 0, hl, &mut rng);
        let mut cc = (m.pkts.last().unwrap()[3] & 15).wrapping_add(5) & 15;      // the gap
        for _ in 0..66000 { let pl = [0x55u8; 184]; m.pkts.push(ts_packet(0x101, false, cc, false, 0, None, &pl)); cc = (cc + 1) & 15; }
        m.set_cc(0x101, cc.wrapping_sub(1) & 15);
        let (bytes, hl) = pes_packet(&spec); m.unit(0x101, &bytes, 0, hl, &mut rng);
        let mut chunks: Vec<Vec<u8>> = vec![]; let mut cur: Vec<u8> = vec![];
        for p in m.pkts.iter() { cur.extend_from_slice(p); if cur.len() >= 188 * 48 { chunks.push(std::mem::take(&mut cur)); } }
        chunks.push(cur);
        emit(dmx_case(0, "", &chunks));
    }
    // 66000 damaged PAT sections in a row, each with another version_number (beyond any 16-bit counter of failures)
    {
        let mut m = Mux::new();
        let good = section(0, 1, 0, true, &pat_body(&[(1, 0x100)], &mut rng));
        m.psi(0, &good, 0, 0, &mut rng);
        let mut chunks: Vec<Vec<u8>> = vec![m.bytes()]; m.pkts.clear();
        let mut cur: Vec<u8> = vec![];
        for k in 0..66000usize {
            let mut bad = good.clone(); bad[5] = (bad[5] & 0xc1) | ((((k * 3 + 7) & 31) as u8) << 1); bad[9] ^= 0x10;
            let mut pl = vec![0u8]; pl.extend_from_slice(&bad); pl.resize(184, 0xff);
            cur.extend(ts_packet(0, true, (k & 15) as u8, false, 0, None, &pl));
            if cur.len() >= 188 * 48 { chunks.push(std::mem::take(&mut cur)); }
        }
        chunks.push(cur);
        emit(dmx_case(0, "", &chunks));
    }
    // the repository's own fuzz corpus
    if let Ok(rd) = std::fs::read_dir("/repo/fuzz/corpus/fuzz_target_1") {
        let mut files: Vec<_> = rd.filter_map(|e| e.ok()).map(|e| e.path()).collect(); files.sort();
        for f in files { if let Ok(b) = std::fs::read(&f) { if b.len() <= 200000 { for style in 0..5 { let c = chunkings(&b, style, &mut rng); emit(dmx_case(1, "", &c)); } } } }
    }
    // pure random bytes
    for _ in 0..(if big { 4000 } else { 150 }) { let n = rng.range(0, 3000) as usize; let b = rng.bytes(n); let style = rng.below(5); let c = chunkings(&b, style, &mut rng); emit(dmx_case(1, "", &c)); }
}
