(* Proofs/PesProofs.v — C14: PES header model equals the Table 2-21 reader. *)
From Coq Require Import List NArith Lia ZArith ZifyN ZifyNat ZifyBool Bool.
From TS Require Import Base.Res Base.ListX Base.Bits Model.Timestamp Model.Packet Model.Pes
  Spec.TimestampSpec Spec.AdaptationSpec Spec.PesSpec Proofs.PacketProofs Proofs.TimestampProofs.
Import ListNotations.
Open Scope N_scope.
Ltac Zify.zify_post_hook ::= Z.div_mod_to_equations.

(* ---- single-byte facts ---- *)
Lemma shr6_fact b : b < 256 -> N.shiftr b 6 = field [b] 0 2.
Proof. intros H. apply N.eqb_eq. sweep1 b H. Qed.
Lemma shr6_lt b : b < 256 -> N.shiftr b 6 < 4.
Proof. intros H. apply N.ltb_lt. sweep1 b H. Qed.
Lemma flagsh_fact (sh : N) b : b < 256 -> sh < 6 -> nz (N.land (N.shiftr b sh) 1) = bitf [b] (7 - sh).
Proof.
  intros Hb Hs. assert (Hc : sh = 0 \/ sh = 1 \/ sh = 2 \/ sh = 3 \/ sh = 4 \/ sh = 5) by lia.
  destruct Hc as [->|[->|[->|[->|[->| ->]]]]]; apply Bool.eqb_prop; revert b Hb; apply byte_sweep; vm_compute; reflexivity.
Qed.
Lemma prio_fact b : b < 256 -> N.land (N.shiftr b 3) 1 = field [b] 4 1.
Proof. intros H. apply N.eqb_eq. sweep1 b H. Qed.

(* ---- fixed part of PesHeader ---- *)
Lemma buf6 (buf : list N) : (6 <= length buf)%nat ->
  exists b0 b1 b2 b3 b4 b5 rest, buf = b0 :: b1 :: b2 :: b3 :: b4 :: b5 :: rest.
Proof. apply buf6_shape. Qed.

Lemma prefix_fact a b c : a < 256 -> b < 256 -> c < 256 ->
  N.lor (N.lor (N.shiftl a 16) (N.shiftl b 8)) c = field [a; b; c] 0 24.
Proof.
  intros. rewrite !N.shiftl_mul_pow2.
  rewrite (lor_add _ (b * 2^8) 16) by (pow_eval; lia).
  rewrite (lor_add _ c 8) by (pow_eval; lia).
  unfold field, nbits. cbn [length]. rewrite be3. change (8 * N.of_nat 3 - 0 - 24) with 0. pow_eval. lia.
Qed.
Lemma len16_fact a b : a < 256 -> b < 256 -> N.lor (N.shiftl a 8) b = field [a; b] 0 16.
Proof. intros Ha Hb. apply N.eqb_eq. sweep2 a b Ha Hb. Qed.

Lemma field_pre3 b0 b1 b2 rest off w : bytes_ok (b0 :: b1 :: b2 :: rest) -> off + w <= 24 ->
  field (b0 :: b1 :: b2 :: rest) off w = field [b0; b1; b2] off w.
Proof.
  intros Hok Hfit.
  change (b0 :: b1 :: b2 :: rest) with ([] ++ [b0; b1; b2] ++ rest).
  change off with (nbits [] + off) at 1.
  apply field_window; [| |cbn; lia].
  - apply (Forall_firstn _ _ 3) in Hok. exact Hok.
  - apply (Forall_skipn _ _ 3) in Hok. exact Hok.
Qed.

Lemma c14_header (buf : list N) : bytes_ok buf ->
  pes_header_from_bytes buf = Ok (if s_pes_accept buf then Some buf else None).
Proof.
  intros Hok. unfold pes_header_from_bytes, s_pes_accept, PES_FIXED_HEADER_SIZE.
  destruct (Nat.ltb_spec (length buf) 6) as [Hs|Hl].
  - replace (Nat.leb 6 (length buf)) with false by (symmetry; apply Nat.leb_gt; lia). reflexivity.
  - replace (Nat.leb 6 (length buf)) with true by (symmetry; apply Nat.leb_le; lia).
    destruct (buf6 buf Hl) as (b0 & b1 & b2 & b3 & b4 & b5 & rest & ->).
    cbn [idx nth_error bind andb].
    assert (Hb : b0 < 256 /\ b1 < 256 /\ b2 < 256).
    { repeat match goal with H : bytes_ok (_ :: _) |- _ => inversion H; clear H; subst end.
      repeat match goal with H : Forall _ (_ :: _) |- _ => inversion H; clear H; subst end. repeat split; assumption. }
    destruct Hb as (H0 & H1 & H2).
    rewrite (field_pre3 b0 b1 b2 (b3 :: b4 :: b5 :: rest)) by (assumption || lia).
    rewrite prefix_fact by assumption.
    destruct (field [b0; b1; b2] 0 24 =? 1); reflexivity.
Qed.

Lemma c14_header_fields (h : list N) : bytes_ok h -> (6 <= length h)%nat ->
  pes_stream_id h = Ok (s_stream_id h) /\ pes_packet_length h = Ok (s_packet_length h).
Proof.
  intros Hok Hl. destruct (buf6 h Hl) as (b0 & b1 & b2 & b3 & b4 & b5 & rest & ->).
  assert (Hb : b3 < 256 /\ b4 < 256 /\ b5 < 256).
  { repeat match goal with H : bytes_ok (_ :: _) |- _ => inversion H; clear H; subst end.
    repeat match goal with H : Forall _ (_ :: _) |- _ => inversion H; clear H; subst end. repeat split; assumption. }
  destruct Hb as (H3 & H4 & H5).
  unfold pes_stream_id, pes_packet_length, s_stream_id, s_packet_length. cbn [idx nth_error bind].
  split; f_equal.
  - change 24 with (8 * N.of_nat 3 + 0). rewrite (field_nth _ 3 b3 0 8 Hok eq_refl) by lia.
    symmetry. apply afl_fact, H3.
  - change 32 with (8 * N.of_nat 4 + 0). rewrite (field_nth2 _ 4 b4 b5 0 16 Hok eq_refl eq_refl) by lia.
    apply len16_fact; assumption.
Qed.

Lemma c14_headerless sid : sid_is_parsed sid = negb (s_headerless sid).
Proof.
  unfold sid_is_parsed, s_headerless. cbn [existsb]. rewrite orb_false_r.
  repeat rewrite <- orb_assoc. reflexivity.
Qed.

(* ---- multi-byte field facts ---- *)
Lemma and56_fact b : b < 256 -> N.land b 56 = ((b / 8) mod 8) * 8.
Proof. intros H. apply N.eqb_eq. sweep1 b H. Qed.
Lemma and3_fact b : b < 256 -> N.land b 3 = b mod 4.
Proof. intros H. apply N.eqb_eq. sweep1 b H. Qed.
Lemma and248_fact b : b < 256 -> N.land b 248 = (b / 8) * 8.
Proof. intros H. apply N.eqb_eq. sweep1 b H. Qed.
Lemma and248s_fact b : b < 256 -> N.shiftr (N.land b 248) 3 = b / 8.
Proof. intros H. apply N.eqb_eq. sweep1 b H. Qed.
Lemma and254s_fact b : b < 256 -> N.shiftr (N.land b 254) 1 = b / 2.
Proof. intros H. apply N.eqb_eq. sweep1 b H. Qed.
Lemma and127_fact b : b < 256 -> N.land b 127 = b mod 128.
Proof. intros H. apply N.eqb_eq. sweep1 b H. Qed.

Lemma field3_6_15 a b c : a < 256 -> b < 256 -> c < 256 ->
  field [a; b; c] 6 15 = (a mod 4) * 8192 + b * 32 + c / 8.
Proof.
  intros. unfold field, nbits. cbn [length]. rewrite be3. change (8 * N.of_nat 3 - 6 - 15) with 3. pow_eval. lia.
Qed.
Lemma field1_2_3 a : a < 256 -> field [a] 2 3 = (a / 8) mod 8.
Proof. intros H. apply N.eqb_eq. sweep1 a H. Qed.
Lemma field2_6_9 a b : a < 256 -> b < 256 -> field [a; b] 6 9 = (a mod 4) * 128 + b / 2.
Proof. intros Ha Hb. apply N.eqb_eq. sweep2 a b Ha Hb. Qed.

Lemma escr_windows s0 s1 s2 s3 s4 s5 :
  s0 < 256 -> s1 < 256 -> s2 < 256 -> s3 < 256 -> s4 < 256 -> s5 < 256 ->
  let w := [s0; s1; s2; s3; s4; s5] in
  field w 2 3 = field [s0] 2 3 /\ field w 6 15 = field [s0; s1; s2] 6 15 /\
  field w 22 15 = field [s2; s3; s4] 6 15 /\ field w 38 9 = field [s4; s5] 6 9.
Proof.
  intros H0 H1 H2 H3 H4 H5 w. unfold w.
  assert (F : forall l, Forall (fun x => x < 256) l -> Forall is_byte l) by (intros; assumption).
  repeat split.
  - change [s0; s1; s2; s3; s4; s5] with ([] ++ [s0] ++ [s1; s2; s3; s4; s5]).
    change 2 with (nbits [] + 2) at 1. apply field_window; [repeat constructor; assumption|repeat constructor; assumption|cbn; lia].
  - change [s0; s1; s2; s3; s4; s5] with ([] ++ [s0; s1; s2] ++ [s3; s4; s5]).
    change 6 with (nbits [] + 6) at 1. apply field_window; [repeat constructor; assumption|repeat constructor; assumption|cbn; lia].
  - change [s0; s1; s2; s3; s4; s5] with ([s0; s1] ++ [s2; s3; s4] ++ [s5]).
    change 22 with (nbits [s0; s1] + 6). apply field_window; [repeat constructor; assumption|repeat constructor; assumption|cbn; lia].
  - change [s0; s1; s2; s3; s4; s5] with ([s0; s1; s2; s3] ++ [s4; s5] ++ []).
    change 38 with (nbits [s0; s1; s2; s3] + 6). apply field_window; [repeat constructor; assumption|repeat constructor; assumption|cbn; lia].
Qed.

Lemma escr_fact s0 s1 s2 s3 s4 s5 :
  s0 < 256 -> s1 < 256 -> s2 < 256 -> s3 < 256 -> s4 < 256 -> s5 < 256 ->
  let base := N.lor (N.lor (N.lor (N.lor (N.lor (N.lor
            (N.shiftl (N.land s0 56) 27) (N.shiftl (N.land s0 3) 28)) (N.shiftl s1 20))
            (N.shiftl (N.land s2 248) 12)) (N.shiftl (N.land s2 3) 13)) (N.shiftl s3 5))
            (N.shiftr (N.land s4 248) 3) in
  let ext := N.lor (N.shiftl (N.land s4 3) 7) (N.shiftr (N.land s5 254) 1) in
  base = cr_base (s_escr [s0; s1; s2; s3; s4; s5]) /\ ext = cr_ext (s_escr [s0; s1; s2; s3; s4; s5]) /\
  base < 8589934592 /\ ext < 512.
Proof.
  intros H0 H1 H2 H3 H4 H5. cbv zeta.
  rewrite and56_fact, !and3_fact, and248_fact, and248s_fact, and254s_fact by assumption.
  rewrite !N.shiftl_mul_pow2.
  rewrite (lor_add _ (s0 mod 4 * 2^28) 30) by (pow_eval; lia).
  rewrite (lor_add _ (s1 * 2^20) 28) by (pow_eval; lia).
  rewrite (lor_add _ (s2 / 8 * 8 * 2^12) 20) by (pow_eval; lia).
  rewrite (lor_add _ (s2 mod 4 * 2^13) 15) by (pow_eval; lia).
  rewrite (lor_add _ (s3 * 2^5) 13) by (pow_eval; lia).
  rewrite (lor_add _ (s4 / 8) 5) by (pow_eval; lia).
  rewrite (lor_add _ (s5 / 2) 7) by (pow_eval; lia).
  unfold s_escr, cr_base, cr_ext.
  destruct (escr_windows s0 s1 s2 s3 s4 s5 H0 H1 H2 H3 H4 H5) as (W1 & W2 & W3 & W4). cbv zeta in W1, W2, W3, W4.
  rewrite W1, W2, W3, W4.
  rewrite field1_2_3, !field3_6_15, field2_6_9 by assumption.
  pow_eval.
  set (q0 := (s0 / 8) mod 8). set (r0 := s0 mod 4). set (q2 := s2 / 8). set (r2 := s2 mod 4).
  set (q4 := s4 / 8). set (r4 := s4 mod 4). set (q5 := s5 / 2).
  assert (q0 < 8) by (unfold q0; lia). assert (r0 < 4) by (unfold r0; lia). assert (q2 < 32) by (unfold q2; lia).
  assert (r2 < 4) by (unfold r2; lia). assert (q4 < 32) by (unfold q4; lia). assert (r4 < 4) by (unfold r4; lia).
  assert (q5 < 128) by (unfold q5; lia).
  clearbody q0 r0 q2 r2 q4 r4 q5.
  repeat split; lia.
Qed.

Lemma esrate_fact s0 s1 s2 : s0 < 256 -> s1 < 256 -> s2 < 256 ->
  let v := N.lor (N.lor (N.shiftl (N.land s0 127) 15) (N.shiftl s1 7)) (N.shiftr (N.land s2 254) 1) in
  v = field [s0; s1; s2] 1 22 /\ v < 4194304.
Proof.
  intros H0 H1 H2. cbv zeta. rewrite and127_fact, and254s_fact by assumption. rewrite !N.shiftl_mul_pow2.
  rewrite (lor_add _ (s1 * 2^7) 15) by (pow_eval; lia).
  rewrite (lor_add _ (s2 / 2) 7) by (pow_eval; lia).
  unfold field, nbits. cbn [length]. rewrite be3. change (8 * N.of_nat 3 - 1 - 22) with 1. pow_eval. split; lia.
Qed.

(* trick mode byte: every field by sweep *)
Lemma trick_facts b : b < 256 ->
  N.shiftr b 5 = field [b] 0 3 /\ N.land b 31 = field [b] 3 5 /\
  N.shiftr (N.land b 31) 3 = field [b] 3 2 /\ nz (N.land (N.land b 31) 4) = bitf [b] 5 /\
  N.land (N.land b 31) 3 = field [b] 6 2 /\ N.land (N.land b 31) 7 = field [b] 5 3 /\
  field [b] 6 2 < 4 /\ field [b] 0 3 < 8.
Proof.
  intros H. repeat split.
  - apply N.eqb_eq. sweep1 b H.
  - apply N.eqb_eq. sweep1 b H.
  - apply N.eqb_eq. sweep1 b H.
  - apply Bool.eqb_prop. sweep1 b H.
  - apply N.eqb_eq. sweep1 b H.
  - apply N.eqb_eq. sweep1 b H.
  - apply N.ltb_lt. sweep1 b H.
  - apply N.ltb_lt. sweep1 b H.
Qed.
Lemma aci_facts b : b < 256 -> (N.land b 128 =? 0) = negb (bitf [b] 0) /\ N.land b 127 = field [b] 1 7.
Proof.
  intros H. split.
  - apply Bool.eqb_prop. sweep1 b H.
  - apply N.eqb_eq. sweep1 b H.
Qed.

(* ---- optional header ---- *)
Section PPC.
Variables (c0 c1 c2 : N) (rest : list N).
Let c := c0 :: c1 :: c2 :: rest.
Hypothesis Hok : bytes_ok c.

Lemma C0 : c0 < 256. Proof. inversion Hok; assumption. Qed.
Lemma C1 : c1 < 256. Proof. inversion Hok as [|? ? _ H]. inversion H; assumption. Qed.
Lemma C2 : c2 < 256. Proof. inversion Hok as [|? ? _ H]. inversion H as [|? ? _ H']. inversion H'; assumption. Qed.

Lemma fc0 off w : off + w <= 8 -> field c off w = field [c0] off w.
Proof. intros. replace off with (8 * N.of_nat 0 + off) at 1 by lia. apply field_nth; [exact Hok|reflexivity|assumption]. Qed.
Lemma fc1 off w : off + w <= 8 -> field c (8 + off) w = field [c1] off w.
Proof. intros. change 8 with (8 * N.of_nat 1) at 1. apply field_nth; [exact Hok|reflexivity|assumption]. Qed.
Lemma fc2 : field c 16 8 = c2.
Proof. change 16 with (8 * N.of_nat 2 + 0). rewrite (field_nth c 2 c2 0 8 Hok eq_refl) by lia. apply afl_fact, C2. Qed.

Lemma hdl_spec : ppc_pes_header_data_len c = Ok (s_hdl c).
Proof. unfold ppc_pes_header_data_len, s_hdl. cbn [idx nth_error bind c]. fold c. rewrite fc2. reflexivity. Qed.

Lemma ptsdts_flags_spec : ppc_pts_dts_flags c = Ok (field c 8 2) /\ field c 8 2 < 4.
Proof.
  assert (E : field c 8 2 = field [c1] 0 2) by (apply (fc1 0 2); lia).
  unfold ppc_pts_dts_flags. cbn [idx nth_error bind c]. fold c.
  rewrite E. rewrite <- shr6_fact by apply C1.
  split; [reflexivity|apply shr6_lt, C1].
Qed.

Lemma flag1_spec (sh : N) site : sh < 6 -> ppc_flag c sh site = Ok (bitf c (15 - sh)).
Proof.
  intros Hs. unfold ppc_flag. cbn [idx nth_error bind c]. fold c. f_equal.
  unfold bitf. replace (15 - sh) with (8 + (7 - sh)) by lia. rewrite fc1 by lia.
  apply flagsh_fact; [apply C1|assumption].
Qed.
Lemma L_escr : ppc_escr_flag c = Ok (bitf c 10). Proof. apply (flag1_spec 5); lia. Qed.
Lemma L_esrate : ppc_esrate_flag c = Ok (bitf c 11). Proof. apply (flag1_spec 4); lia. Qed.
Lemma L_trick : ppc_dsm_trick_mode_flag c = Ok (bitf c 12). Proof. apply (flag1_spec 3); lia. Qed.
Lemma L_aci : ppc_additional_copy_info_flag c = Ok (bitf c 13). Proof. apply (flag1_spec 2); lia. Qed.
Lemma L_crc : ppc_pes_crc_flag c = Ok (bitf c 14). Proof. apply (flag1_spec 1); lia. Qed.
Lemma L_ext : ppc_pes_extension_flag c = Ok (bitf c 15). Proof. apply (flag1_spec 0); lia. Qed.

Definition e_pd : nat := (3 + s_ptsdts_size c)%nat.
Definition e_escr : nat := (e_pd + if bitf c 10 then 6 else 0)%nat.
Definition e_er : nat := (e_escr + if bitf c 11 then 3 else 0)%nat.
Definition e_tm : nat := (e_er + if bitf c 12 then 1 else 0)%nat.
Definition e_aci : nat := (e_tm + if bitf c 13 then 1 else 0)%nat.
Definition e_crc : nat := (e_aci + if bitf c 14 then 2 else 0)%nat.

Lemma E_pd : ppc_pts_dts_end c = Ok e_pd.
Proof.
  unfold ppc_pts_dts_end, e_pd, s_ptsdts_size. destruct ptsdts_flags_spec as [-> Hlt]. cbn [bind].
  assert (Hc : field c 8 2 = 0 \/ field c 8 2 = 1 \/ field c 8 2 = 2 \/ field c 8 2 = 3) by lia.
  destruct Hc as [->|[->|[->| ->]]]; reflexivity.
Qed.
Lemma E_escr : ppc_escr_end c = Ok e_escr. Proof. unfold ppc_escr_end. rewrite E_pd, L_escr. reflexivity. Qed.
Lemma E_er : ppc_es_rate_end c = Ok e_er. Proof. unfold ppc_es_rate_end. rewrite E_escr, L_esrate. reflexivity. Qed.
Lemma E_tm : ppc_dsm_trick_mode_end c = Ok e_tm. Proof. unfold ppc_dsm_trick_mode_end. rewrite E_er, L_trick. reflexivity. Qed.
Lemma E_aci : ppc_additional_copy_info_end c = Ok e_aci. Proof. unfold ppc_additional_copy_info_end. rewrite E_tm, L_aci. reflexivity. Qed.
Lemma E_crc : ppc_pes_crc_end c = Ok e_crc. Proof. unfold ppc_pes_crc_end. rewrite E_aci, L_crc. reflexivity. Qed.
Lemma e_crc_need : e_crc = (3 + s_need c)%nat.
Proof. unfold e_crc, e_aci, e_tm, e_er, e_escr, e_pd, s_need. lia. Qed.

Lemma c14_accept_c : ppc_from_bytes c = Ok (if s_ppc_accept c then Some c else None).
Proof.
  unfold ppc_from_bytes, s_ppc_accept, PPC_FIXED_HEADER_SIZE.
  assert (Hl : (3 <= length c)%nat) by (unfold c; cbn [length]; lia).
  replace (Nat.ltb (length c) 3) with false by (symmetry; apply Nat.ltb_ge; lia).
  replace (Nat.leb 3 (length c)) with true by (symmetry; apply Nat.leb_le; lia).
  cbn [idx nth_error bind c andb]. fold c.
  rewrite (shr6_fact c0 C0). rewrite <- (fc0 0 2) by lia.
  destruct (field c 0 2 =? 2); cbn [negb andb]; [|reflexivity].
  rewrite hdl_spec. cbn [bind].
  destruct (Nat.ltb_spec (length c) (3 + s_hdl c)) as [H1|H1].
  - replace (Nat.leb (3 + s_hdl c) (length c)) with false by (symmetry; apply Nat.leb_gt; lia). reflexivity.
  - replace (Nat.leb (3 + s_hdl c) (length c)) with true by (symmetry; apply Nat.leb_le; lia).
    rewrite E_crc. cbn [bind andb]. rewrite e_crc_need.
    destruct (Nat.ltb_spec (3 + s_hdl c) (3 + s_need c)) as [H2|H2].
    + replace (Nat.leb (s_need c) (s_hdl c)) with false by (symmetry; apply Nat.leb_gt; lia). reflexivity.
    + replace (Nat.leb (s_need c) (s_hdl c)) with true by (symmetry; apply Nat.leb_le; lia). reflexivity.
Qed.

(* ---- accessors of an accepted header ---- *)
Hypothesis Hacc : s_ppc_accept c = true.

Lemma acc_facts : (3 + s_hdl c <= length c)%nat /\ (s_need c <= s_hdl c)%nat.
Proof.
  unfold s_ppc_accept in Hacc. rewrite !andb_true_iff in Hacc.
  destruct Hacc as [[[_ _] H1] H2]. apply Nat.leb_le in H1, H2. split; assumption.
Qed.

Lemma hslice from to : (from <= to)%nat -> (to <= 3 + s_hdl c)%nat ->
  ppc_header_slice c from to = Ok (ROk (win c from (to - from))).
Proof.
  intros H1 H2. destruct acc_facts as [Hl _].
  unfold ppc_header_slice, PPC_FIXED_HEADER_SIZE. rewrite hdl_spec. cbn [bind].
  replace (Nat.ltb (s_hdl c + 3) to) with false by (symmetry; apply Nat.ltb_ge; lia).
  replace (Nat.ltb (length c) to) with false by (symmetry; apply Nat.ltb_ge; lia).
  unfold slice. replace (Nat.leb from to) with true by (symmetry; apply Nat.leb_le; lia).
  replace (Nat.leb to (length c)) with true by (symmetry; apply Nat.leb_le; lia). reflexivity.
Qed.

Lemma win_len pos n : (pos + n <= 3 + s_hdl c)%nat -> length (win c pos n) = n.
Proof. intros H. destruct acc_facts as [Hl _]. unfold win. rewrite firstn_length, skipn_length. lia. Qed.
Lemma win_ok pos n : bytes_ok (win c pos n).
Proof. unfold win. apply Forall_firstn, Forall_skipn, Hok. Qed.

Lemma bounds : (e_pd <= e_escr <= e_er)%nat /\ (e_er <= e_tm <= e_aci)%nat /\ (e_aci <= e_crc <= 3 + s_hdl c)%nat /\ (3 <= e_pd)%nat.
Proof.
  destruct acc_facts as [_ Hn]. pose proof e_crc_need.
  unfold e_crc, e_aci, e_tm, e_er, e_escr, e_pd in *.
  repeat match goal with |- context [if ?b then _ else _] => destruct b end; lia.
Qed.

(* ---- byte-6 accessors ---- *)
Lemma a_priority : ppc_pes_priority c = Ok (w_priority (s_ppc_parse c)).
Proof.
  assert (E : field c 4 1 = field [c0] 4 1) by (apply (fc0 4 1); lia).
  unfold ppc_pes_priority. cbn [idx nth_error bind c]. fold c. rewrite (prio_fact c0 C0), <- E.
  unfold s_ppc_parse.
  repeat match goal with |- context [if ?b then _ else _] => destruct b end; reflexivity.
Qed.
Lemma bit6 (k : N) (m : N) : k < 8 -> m = 2 ^ (7 - k) -> nz (N.land c0 m) = bitf c k.
Proof.
  intros Hk ->. unfold bitf. rewrite (fc0 k 1) by lia. apply bit_mask_fact; [apply C0|assumption].
Qed.
Lemma a_alignment : ppc_data_alignment_indicator c = Ok (w_alignment (s_ppc_parse c)).
Proof.
  unfold ppc_data_alignment_indicator. cbn [idx nth_error bind c]. fold c. rewrite (bit6 5 4) by (reflexivity || lia).
  unfold s_ppc_parse. repeat match goal with |- context [if ?b then _ else _] => destruct b end; reflexivity.
Qed.
(* F5: the code reports the complement of the standard's copyright bit *)
Lemma a_copyright : ppc_copyright c = Ok (negb (w_copyright (s_ppc_parse c))).
Proof.
  unfold ppc_copyright. cbn [idx nth_error bind c]. fold c. rewrite (bit6 6 2) by (reflexivity || lia).
  unfold s_ppc_parse. repeat match goal with |- context [if ?b then _ else _] => destruct b end; reflexivity.
Qed.
Lemma a_original : ppc_original_or_copy c = Ok (w_original (s_ppc_parse c)).
Proof.
  unfold ppc_original_or_copy. cbn [idx nth_error bind c]. fold c. rewrite (bit6 7 1) by (reflexivity || lia).
  unfold s_ppc_parse. repeat match goal with |- context [if ?b then _ else _] => destruct b end; reflexivity.
Qed.

(* the reader's cursor positions equal the code's offset chain *)
Ltac spec_positions :=
  unfold s_ppc_parse, e_crc, e_aci, e_tm, e_er, e_escr, e_pd, s_ptsdts_size in *.

Lemma pd_cases : field c 8 2 = 0 \/ field c 8 2 = 1 \/ field c 8 2 = 2 \/ field c 8 2 = 3.
Proof. destruct ptsdts_flags_spec as [_ H]. lia. Qed.

Lemma a_pts_dts : ppc_pts_dts c = Ok (w_pts_dts (s_ppc_parse c)).
Proof.
  destruct bounds as (B1 & B2 & B3 & B4).
  unfold ppc_pts_dts. destruct ptsdts_flags_spec as [-> _]. cbn [bind]. rewrite E_pd. cbn [bind].
  unfold PPC_FIXED_HEADER_SIZE, TIMESTAMP_SIZE.
  assert (Hv : forall P : s_ppc_view -> Prop, True) by auto.
  destruct pd_cases as [E|[E|[E|E]]].
  - rewrite E. cbn [N.eqb Pos.eqb]. spec_positions. rewrite E. cbn [N.eqb Pos.eqb].
    repeat match goal with |- context [if ?b then _ else _] => destruct b end; reflexivity.
  - rewrite E. cbn [N.eqb Pos.eqb]. spec_positions. rewrite E. cbn [N.eqb Pos.eqb].
    repeat match goal with |- context [if ?b then _ else _] => destruct b end; reflexivity.
  - rewrite E. cbn [N.eqb Pos.eqb].
    assert (Hpd : e_pd = 8%nat) by (unfold e_pd, s_ptsdts_size; rewrite E; reflexivity).
    rewrite hslice by lia. rewrite Hpd. change (8 - 3)%nat with 5%nat. cbn [bind]. cbv iota.
    rewrite c15_decode by (rewrite ?win_len by lia; lia || apply win_ok). cbn [bind].
    spec_positions. rewrite E. cbn [N.eqb Pos.eqb].
    repeat match goal with |- context [if ?b then _ else _] => destruct b end; reflexivity.
  - rewrite E. cbn [N.eqb Pos.eqb].
    assert (Hpd : e_pd = 13%nat) by (unfold e_pd, s_ptsdts_size; rewrite E; reflexivity).
    rewrite hslice by lia. rewrite Hpd. change (13 - 3)%nat with 10%nat. cbn [bind]. cbv iota.
    assert (Hw : length (win c 3 10) = 10%nat) by (apply win_len; lia).
    unfold slice_to, slice_from. rewrite Hw. cbn [Nat.leb bind].
    assert (H1 : firstn 5 (win c 3 10) = win c 3 5).
    { unfold win. rewrite firstn_firstn. reflexivity. }
    assert (H2 : skipn 5 (win c 3 10) = win c 8 5).
    { unfold win. rewrite <- (firstn_skipn_comm 5 5). rewrite skipn_skipn. reflexivity. }
    rewrite H1, H2.
    rewrite !c15_decode by (rewrite ?win_len by lia; lia || apply win_ok). cbn [bind].
    spec_positions. rewrite E. cbn [N.eqb Pos.eqb Nat.add].
    repeat match goal with |- context [if ?b then _ else _] => destruct b end; reflexivity.
Qed.

Lemma win1 pos : (pos + 1 <= 3 + s_hdl c)%nat -> exists x, win c pos 1 = [x] /\ x < 256.
Proof.
  intros H. pose proof (win_len pos 1 H) as Hl. pose proof (win_ok pos 1) as Hb.
  destruct (win c pos 1) as [|x [|]]; cbn in Hl; try lia. exists x. split; [reflexivity|inversion Hb; assumption].
Qed.
Lemma win2 pos : (pos + 2 <= 3 + s_hdl c)%nat -> exists x y, win c pos 2 = [x; y] /\ x < 256 /\ y < 256.
Proof.
  intros H. pose proof (win_len pos 2 H) as Hl. pose proof (win_ok pos 2) as Hb.
  destruct (win c pos 2) as [|x [|y [|]]]; cbn in Hl; try lia. exists x, y.
  repeat match goal with H : bytes_ok (_ :: _) |- _ => inversion H; clear H; subst end.
  repeat match goal with H : Forall _ (_ :: _) |- _ => inversion H; clear H; subst end. repeat split; assumption.
Qed.
Lemma win3 pos : (pos + 3 <= 3 + s_hdl c)%nat -> exists x y z, win c pos 3 = [x; y; z] /\ x < 256 /\ y < 256 /\ z < 256.
Proof.
  intros H. pose proof (win_len pos 3 H) as Hl. pose proof (win_ok pos 3) as Hb.
  destruct (win c pos 3) as [|x [|y [|z [|]]]]; cbn in Hl; try lia. exists x, y, z.
  repeat match goal with H : bytes_ok (_ :: _) |- _ => inversion H; clear H; subst end.
  repeat match goal with H : Forall _ (_ :: _) |- _ => inversion H; clear H; subst end. repeat split; assumption.
Qed.
Lemma win6 pos : (pos + 6 <= 3 + s_hdl c)%nat -> exists s0 s1 s2 s3 s4 s5, win c pos 6 = [s0; s1; s2; s3; s4; s5] /\
  s0 < 256 /\ s1 < 256 /\ s2 < 256 /\ s3 < 256 /\ s4 < 256 /\ s5 < 256.
Proof.
  intros H. pose proof (win_len pos 6 H) as Hl. pose proof (win_ok pos 6) as Hb.
  destruct (win c pos 6) as [|s0 [|s1 [|s2 [|s3 [|s4 [|s5 [|]]]]]]]; cbn in Hl; try lia. exists s0, s1, s2, s3, s4, s5.
  repeat match goal with H : bytes_ok (_ :: _) |- _ => inversion H; clear H; subst end.
  repeat match goal with H : Forall _ (_ :: _) |- _ => inversion H; clear H; subst end. repeat split; assumption.
Qed.

Ltac finish_view :=
  spec_positions;
  repeat match goal with |- context [if ?b then _ else _] => destruct b end; try reflexivity.

Lemma a_escr : ppc_escr c = Ok (w_escr (s_ppc_parse c)).
Proof.
  destruct bounds as (B1 & B2 & B3 & B4).
  unfold ppc_escr. rewrite L_escr. cbn [bind].
  destruct (bitf c 10) eqn:F.
  2:{ spec_positions. rewrite F. finish_view. }
  rewrite E_pd. cbn [bind]. assert (Hnext : e_escr = (e_pd + 6)%nat) by (unfold e_escr; rewrite F; reflexivity).
  rewrite hslice by lia. replace (e_pd + 6 - e_pd)%nat with 6%nat by lia. cbv iota.
  destruct (win6 e_pd) as (s0 & s1 & s2 & s3 & s4 & s5 & Ew & H0 & H1 & H2 & H3 & H4 & H5); [lia|].
  rewrite Ew. cbn [idx nth_error bind].
  destruct (escr_fact s0 s1 s2 s3 s4 s5 H0 H1 H2 H3 H4 H5) as (Eb & Ee & Lb & Le). cbv zeta in Eb, Ee, Lb, Le.
  rewrite c15_clockref_from_parts.
  replace (_ <? 8589934592) with true by (symmetry; apply N.ltb_lt; exact Lb).
  replace (_ <? 512) with true by (symmetry; apply N.ltb_lt; exact Le).
  cbn [bind]. rewrite Eb, Ee.
  assert (Hgoal : w_escr (s_ppc_parse c) = ROk (s_escr (win c e_pd 6))).
  { spec_positions. rewrite F. destruct pd_cases as [E|[E|[E|E]]]; rewrite E; cbn [N.eqb Pos.eqb Nat.add]; finish_view. }
  rewrite Hgoal, Ew. destruct (s_escr [s0; s1; s2; s3; s4; s5]). reflexivity.
Qed.

Lemma a_es_rate : ppc_es_rate c = Ok (w_es_rate (s_ppc_parse c)).
Proof.
  destruct bounds as (B1 & B2 & B3 & B4).
  unfold ppc_es_rate. rewrite L_esrate. cbn [bind].
  destruct (bitf c 11) eqn:F.
  2:{ spec_positions. rewrite F. finish_view. }
  rewrite E_escr. cbn [bind]. assert (Hnext : e_er = (e_escr + 3)%nat) by (unfold e_er; rewrite F; reflexivity).
  rewrite hslice by lia. replace (e_escr + 3 - e_escr)%nat with 3%nat by lia. cbv iota.
  destruct (win3 e_escr) as (x & y & z & Ew & Hx & Hy & Hz); [lia|].
  rewrite Ew. cbn [idx nth_error bind].
  destruct (esrate_fact x y z Hx Hy Hz) as (Ev & Lv). cbv zeta in Ev, Lv.
  unfold es_rate_new, assert. replace (_ <? 4194304) with true by (symmetry; apply N.ltb_lt; exact Lv).
  cbn [bind]. rewrite Ev.
  assert (Hgoal : w_es_rate (s_ppc_parse c) = ROk (field (win c e_escr 3) 1 22)).
  { spec_positions. rewrite F. destruct pd_cases as [E|[E|[E|E]]]; rewrite E; cbn [N.eqb Pos.eqb Nat.add]; finish_view. }
  rewrite Hgoal, Ew. reflexivity.
Qed.

Lemma a_trick : ppc_dsm_trick_mode c = Ok (w_trick (s_ppc_parse c)).
Proof.
  destruct bounds as (B1 & B2 & B3 & B4).
  unfold ppc_dsm_trick_mode. rewrite L_trick. cbn [bind].
  destruct (bitf c 12) eqn:F.
  2:{ spec_positions. rewrite F. finish_view. }
  rewrite E_er. cbn [bind]. assert (Hnext : e_tm = (e_er + 1)%nat) by (unfold e_tm; rewrite F; reflexivity).
  rewrite hslice by lia. replace (e_er + 1 - e_er)%nat with 1%nat by lia. cbv iota.
  destruct (win1 e_er) as (x & Ew & Hx); [lia|].
  rewrite Ew. cbn [idx nth_error bind].
  destruct (trick_facts x Hx) as (T1 & T2 & T3 & T4 & T5 & T6 & T7 & T8).
  assert (Hgoal : w_trick (s_ppc_parse c) = ROk (s_trick (win c e_er 1))).
  { spec_positions. rewrite F. destruct pd_cases as [E|[E|[E|E]]]; rewrite E; cbn [N.eqb Pos.eqb Nat.add]; finish_view. }
  rewrite Hgoal, Ew. unfold s_trick. cbv zeta. rewrite T1, T3, T4, T5, T6, T2.
  unfold freq_trunc_from_id. replace (field [x] 6 2 <? 4) with true by lia. cbn [bind].
  repeat match goal with |- context [if ?b then _ else _] => destruct b end; reflexivity.
Qed.

Lemma a_copy_info : ppc_additional_copy_info c = Ok (w_copy_info (s_ppc_parse c)).
Proof.
  destruct bounds as (B1 & B2 & B3 & B4).
  unfold ppc_additional_copy_info. rewrite L_aci. cbn [bind].
  destruct (bitf c 13) eqn:F.
  2:{ spec_positions. rewrite F. finish_view. }
  rewrite E_tm. cbn [bind]. assert (Hnext : e_aci = (e_tm + 1)%nat) by (unfold e_aci; rewrite F; reflexivity).
  rewrite hslice by lia. replace (e_tm + 1 - e_tm)%nat with 1%nat by lia. cbv iota.
  destruct (win1 e_tm) as (x & Ew & Hx); [lia|].
  rewrite Ew. cbn [idx nth_error bind].
  destruct (aci_facts x Hx) as (A1 & A2). rewrite A1, A2.
  assert (Hgoal : w_copy_info (s_ppc_parse c) =
                  if bitf (win c e_tm 1) 0 then ROk (field (win c e_tm 1) 1 7) else RErr PesMarkerBitNotSet).
  { spec_positions. rewrite F. destruct pd_cases as [E|[E|[E|E]]]; rewrite E; cbn [N.eqb Pos.eqb Nat.add];
    destruct (bitf c 10); destruct (bitf c 11); destruct (bitf c 12); destruct (bitf c 14); cbn [Nat.add]; reflexivity. }
  rewrite Hgoal, Ew. destruct (bitf [x] 0); reflexivity.
Qed.

Lemma a_crc : ppc_previous_pes_packet_crc c = Ok (w_crc (s_ppc_parse c)).
Proof.
  destruct bounds as (B1 & B2 & B3 & B4).
  unfold ppc_previous_pes_packet_crc. rewrite L_crc. cbn [bind].
  destruct (bitf c 14) eqn:F.
  2:{ spec_positions. rewrite F. finish_view. }
  rewrite E_aci. cbn [bind]. assert (Hnext : e_crc = (e_aci + 2)%nat) by (unfold e_crc; rewrite F; reflexivity).
  rewrite hslice by lia. replace (e_aci + 2 - e_aci)%nat with 2%nat by lia. cbv iota.
  destruct (win2 e_aci) as (x & y & Ew & Hx & Hy); [lia|].
  rewrite Ew. cbn [idx nth_error bind]. rewrite len16_fact by assumption.
  assert (Hgoal : w_crc (s_ppc_parse c) = ROk (field (win c e_aci 2) 0 16)).
  { spec_positions. rewrite F. destruct pd_cases as [E|[E|[E|E]]]; rewrite E; cbn [N.eqb Pos.eqb Nat.add];
    destruct (bitf c 10); destruct (bitf c 11); destruct (bitf c 12); destruct (bitf c 13); cbn [Nat.add]; reflexivity. }
  rewrite Hgoal, Ew. reflexivity.
Qed.

Lemma a_extension : ppc_pes_extension c = Ok (w_extension (s_ppc_parse c)).
Proof.
  destruct bounds as (B1 & B2 & B3 & B4).
  unfold ppc_pes_extension. rewrite L_ext. cbn [bind].
  destruct (bitf c 15) eqn:F.
  2:{ spec_positions. rewrite F. finish_view. }
  rewrite E_crc, hdl_spec. cbn [bind]. unfold PPC_FIXED_HEADER_SIZE.
  rewrite hslice by lia. replace (s_hdl c + 3 - e_crc)%nat with (3 + s_hdl c - e_crc)%nat by lia.
  assert (Hgoal : w_extension (s_ppc_parse c) = ROk (win c e_crc (3 + s_hdl c - e_crc))).
  { spec_positions. rewrite F. destruct pd_cases as [E|[E|[E|E]]]; rewrite E; cbn [N.eqb Pos.eqb Nat.add];
    destruct (bitf c 10); destruct (bitf c 11); destruct (bitf c 12); destruct (bitf c 13); destruct (bitf c 14); cbn [Nat.add]; reflexivity. }
  rewrite Hgoal. reflexivity.
Qed.

Lemma a_payload : ppc_payload c = Ok (w_payload (s_ppc_parse c)).
Proof.
  destruct acc_facts as [Hl _].
  unfold ppc_payload. rewrite hdl_spec. cbn [bind]. unfold slice_from, PPC_FIXED_HEADER_SIZE.
  replace (Nat.leb (3 + s_hdl c) (length c)) with true by (symmetry; apply Nat.leb_le; lia). cbn [bind].
  unfold s_ppc_parse. repeat match goal with |- context [if ?b then _ else _] => destruct b end; reflexivity.
Qed.
End PPC.

(* ---- statements over arbitrary byte strings ---- *)
Lemma c14_parsed_accept (c : list N) : bytes_ok c ->
  ppc_from_bytes c = Ok (if s_ppc_accept c then Some c else None).
Proof.
  intros Hok. destruct c as [|c0 [|c1 [|c2 rest]]]; try reflexivity.
  apply c14_accept_c, Hok.
Qed.

Lemma accept_shape (c : list N) : s_ppc_accept c = true -> exists c0 c1 c2 rest, c = c0 :: c1 :: c2 :: rest.
Proof.
  intros H. destruct c as [|c0 [|c1 [|c2 rest]]]; try discriminate H. eauto.
Qed.

Lemma c14_fields (c : list N) : bytes_ok c -> s_ppc_accept c = true ->
  ppc_pes_priority c = Ok (w_priority (s_ppc_parse c)) /\
  ppc_data_alignment_indicator c = Ok (w_alignment (s_ppc_parse c)) /\
  ppc_original_or_copy c = Ok (w_original (s_ppc_parse c)) /\
  ppc_pts_dts c = Ok (w_pts_dts (s_ppc_parse c)) /\
  ppc_escr c = Ok (w_escr (s_ppc_parse c)) /\
  ppc_es_rate c = Ok (w_es_rate (s_ppc_parse c)) /\
  ppc_dsm_trick_mode c = Ok (w_trick (s_ppc_parse c)) /\
  ppc_additional_copy_info c = Ok (w_copy_info (s_ppc_parse c)) /\
  ppc_previous_pes_packet_crc c = Ok (w_crc (s_ppc_parse c)) /\
  ppc_pes_extension c = Ok (w_extension (s_ppc_parse c)) /\
  ppc_payload c = Ok (w_payload (s_ppc_parse c)).
Proof.
  intros Hok Hacc. destruct (accept_shape c Hacc) as (c0 & c1 & c2 & rest & ->).
  repeat split.
  - apply a_priority; assumption.
  - apply a_alignment; assumption.
  - apply a_original; assumption.
  - apply a_pts_dts; assumption.
  - apply a_escr; assumption.
  - apply a_es_rate; assumption.
  - apply a_trick; assumption.
  - apply a_copy_info; assumption.
  - apply a_crc; assumption.
  - apply a_extension; assumption.
  - apply a_payload; assumption.
Qed.

(* F5: the copyright accessor reports the complement of the standard's bit, on every accepted header *)
Lemma c14_copyright_inverted (c : list N) : bytes_ok c -> s_ppc_accept c = true ->
  ppc_copyright c = Ok (negb (w_copyright (s_ppc_parse c))).
Proof.
  intros Hok Hacc. destruct (accept_shape c Hacc) as (c0 & c1 & c2 & rest & ->).
  apply a_copyright; assumption.
Qed.

Lemma c14_contents (h : list N) : bytes_ok h -> s_pes_accept h = true ->
  pes_contents_of h =
  Ok (if s_headerless (s_stream_id h) then PesPayload (skipn 6 h)
      else PesParsed (if s_ppc_accept (skipn 6 h) then Some (skipn 6 h) else None)).
Proof.
  intros Hok Hacc. unfold s_pes_accept in Hacc. apply andb_true_iff in Hacc. destruct Hacc as [Hl _].
  apply Nat.leb_le in Hl.
  unfold pes_contents_of, slice_from, PES_FIXED_HEADER_SIZE.
  replace (Nat.leb 6 (length h)) with true by (symmetry; apply Nat.leb_le; lia). cbn [bind].
  destruct (c14_header_fields h Hok Hl) as [-> _]. cbn [bind].
  rewrite c14_headerless. destruct (s_headerless (s_stream_id h)); cbn [negb]; [reflexivity|].
  rewrite c14_parsed_accept by (apply Forall_skipn, Hok). reflexivity.
Qed.
