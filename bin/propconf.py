"""Per-property configuration of bin/check."""
from vlib import hex_to_coq

COMMON_TRUSTED = [
    "Coq 8.16.1 kernel (coqc); vm_compute for finite sweeps and case evaluation; no native_compute",
    "axioms: none (every property theorem is 'Closed under the global context')",
    "hand-written Gallina model of the Rust functions (coq/Model), tied to /repo by the correspondence check",
    "extraction: ExtrOcamlBasic only (bool, option, unit, list, prod, sumbool, sumor mapped to OCaml's; no Extract Constant); ocamlfind ocamlopt 4.13.1",
    "Rust harness /verif/harness (recording handlers, observation encoder, generators), OCaml driver, bin/check",
    "translator bin/gen_tables.py (CRC table + named constants copied from the source into coq/Gen)",
]

def r_hex1(fn):
    return lambda toks: f"{fn} {hex_to_coq(toks[1])}"

PROPS = {
    "C12": dict(
        props_files=["Props/C12.v"],
        suites=["C12"],
        render=r_hex1("run_packet_c12"),
        exhaustive=True,
        rule="exhaustive over header bytes (b1,b2) and over (b3, adaptation_field_length), all 256 sync-byte values; "
             "remaining bytes random from VERIF_SEED; distinct = distinct case lines; every case is non-trivial "
             "(each exercises all header accessors, the payload split and the adaptation-field range fingerprint)",
        trusted=["ISO/IEC 13818-1 2.4.3.2 header layout as transcribed in coq/Spec/PacketSpec.v"],
        assumptions=["input bytes are < 256 (true of every u8)", "AdaptationField exposes no raw-bytes accessor: its range is observed through transport_private_data() probes (range fingerprint)"],
    ),
}
