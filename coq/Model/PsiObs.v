(* Model/PsiObs.v — the chain with a recording whole-section consumer (C03 suite). *)
From TS Require Import Base.Res Model.Timestamp Model.Packet Model.PacketObs Model.Crc Model.Psi.
Open Scope N_scope.

(* what the recording consumer notes about one delivery *)
Definition rec_inner (compact : bool) (_ : unit) (_ : unit) (h : common_header) (tsh data : list N) (origin : option nat)
  : res (unit * unit * list (list N)) :=
  do t <- (if compact then Ok []
           else do id <- tsh_id tsh; do v <- tsh_version tsh; do cn <- tsh_current_next tsh;
                do sn <- tsh_section_number tsh; do ls <- tsh_last_section_number tsh; Ok [id; v; cn; sn; ls]);
  Ok (tt, tt, [[ch_table_id h; b2n (ch_ssi h); b2n (ch_private h); n2 (ch_section_length h)] ++ t
           ++ match origin with Some o => [1; n2 o] | None => [0; 0] end
           ++ n2 (length data) :: data]).

Definition mk_cfg (flags : N) : chain_cfg :=
  {| cf_compact := N.testbit flags 0; cf_dedup := N.testbit flags 1; cf_crc := N.testbit flags 2; cf_fuzzing := N.testbit flags 3 |}.

(* run a list of 188-byte buffers through Packet::new + SectionPacketConsumer::consume *)
Fixpoint run_sec_loop (cfg : chain_cfg) (c : chain unit) (pkts : list (list N)) (i : nat) : res (list N) :=
  match pkts with
  | [] => Ok []
  | p :: rest =>
      do pk <- pkt_new p;
      do r <- spc_consume cfg unit unit (list N) (rec_inner (cf_compact cfg)) c tt pk;
      let evs := snd r in
      do more <- run_sec_loop cfg (fst (fst r)) rest (S i);
      Ok (n2 (length evs) :: concat evs ++ more)
  end.

Definition run_sec (flags : N) (pkts : list (list N)) : option (list N) :=
  opt_of_res (run_sec_loop (mk_cfg flags) (chain_init tt) pkts 0).
