(* Props/C15.v — C15: timestamps and clock references stay in range and wrap correctly. *)
From TS Require Import Base.Res Base.Bits Model.Timestamp Model.Packet Spec.TimestampSpec Proofs.TimestampProofs.
Open Scope N_scope.

(* decoding: first cleared marker reported (7, 23, 39 in that order), else the 33 value bits *)
Theorem C15_decode : forall buf : list N, (5 <= length buf)%nat -> bytes_ok buf ->
  ts_from_bytes buf = Ok (s_ts_decode buf).
Proof. exact c15_decode. Qed.
Print Assumptions C15_decode.

(* every decoded timestamp lies in 0..=2^33-1 *)
Theorem C15_decode_range : forall (buf : list N) v, (5 <= length buf)%nat -> bytes_ok buf ->
  ts_from_bytes buf = Ok (ROk v) -> v <= TS_MAX.
Proof. exact c15_decode_range. Qed.
Print Assumptions C15_decode_range.

(* PTS / DTS variants additionally demand prefix 0010 / 0001, reporting expected and actual *)
Theorem C15_decode_prefixed : forall buf : list N, (5 <= length buf)%nat -> bytes_ok buf ->
  ts_from_pts_bytes buf = Ok (s_ts_decode_prefixed 2 buf) /\
  ts_from_dts_bytes buf = Ok (s_ts_decode_prefixed 1 buf).
Proof. exact c15_decode_pts. Qed.
Print Assumptions C15_decode_prefixed.

(* encoding any 33-bit value in the PTS/DTS layout and decoding it yields that value *)
Theorem C15_roundtrip : forall prefix v, prefix < 16 -> v < 8589934592 ->
  bytes_ok (ts_encode prefix v) /\
  ts_from_bytes (ts_encode prefix v) = Ok (ROk v) /\
  s_ts_prefix (ts_encode prefix v) = prefix.
Proof. exact c15_roundtrip. Qed.
Print Assumptions C15_roundtrip.

(* constructing a timestamp from an out-of-range integer is refused (after fix F4) *)
Theorem C15_from_u64 : forall v, ts_from_u64 v = if v <? 8589934592 then Ok v else Panic 209.
Proof. exact c15_from_u64. Qed.
Print Assumptions C15_from_u64.

(* wrap detection: true exactly when a later timestamp at most half the range ahead has wrapped *)
Theorem C15_wrap : forall e d, e < 8589934592 -> d <= 4294967296 ->
  ts_likely_wrapped_since ((e + d) mod 8589934592) e = (8589934592 <=? e + d).
Proof. exact c15_wrap. Qed.
Print Assumptions C15_wrap.

(* ... and only then: over ALL pairs of in-range timestamps the answer is true exactly when `self` is `since` advanced by
   some 1..=2^32 ticks modulo 2^33 with the sum passing 2^33 (so no pair outside C15_wrap's parametrisation answers true) *)
Theorem C15_wrap_pairs : forall self since, self < 8589934592 -> since < 8589934592 ->
  ts_likely_wrapped_since self since = true <->
  exists d, 0 < d /\ d <= 4294967296 /\ 8589934592 <= since + d /\ self = (since + d) mod 8589934592.
Proof. exact c15_wrap_pairs. Qed.
Print Assumptions C15_wrap_pairs.

(* two timestamps are never each "wrapped since" the other *)
Theorem C15_wrap_antisym : forall a b, ts_likely_wrapped_since a b = true -> ts_likely_wrapped_since b a = false.
Proof. exact c15_wrap_antisym. Qed.
Print Assumptions C15_wrap_antisym.

(* clock references: from_parts refuses out-of-range parts *)
Theorem C15_clockref_from_parts : forall base ext,
  clockref_from_parts base ext =
  if (base <? 8589934592) then (if ext <? 512 then Ok {| cr_base := base; cr_ext := ext |} else Panic 108) else Panic 107.
Proof. exact c15_clockref_from_parts. Qed.
Print Assumptions C15_clockref_from_parts.

(* from_slice: 33-bit base, 6 reserved bits, 9-bit extension; always in range *)
Theorem C15_clockref_from_slice : forall data : list N, (6 <= length data)%nat -> bytes_ok data ->
  clockref_from_slice data = Ok {| cr_base := s_pcr_base data; cr_ext := s_pcr_ext data |} /\
  s_pcr_base data < 8589934592 /\ s_pcr_ext data < 512.
Proof. exact c15_clockref_from_slice. Qed.
Print Assumptions C15_clockref_from_slice.

(* the 27 MHz value is base x 300 + extension and fits u64 *)
Theorem C15_clockref_u64 : forall c, cr_base c < 8589934592 -> cr_ext c < 512 ->
  clockref_to_u64 c = cr_base c * 300 + cr_ext c /\ clockref_to_u64 c < 18446744073709551616.
Proof. exact c15_clockref_u64. Qed.
Print Assumptions C15_clockref_u64.

Example C15_nonvacuous :
  ts_from_pts_bytes [33; 0; 7; 216; 97] = Ok (ROk 126000) /\ ts_encode 2 126000 = [33; 0; 7; 216; 97] /\
  ts_likely_wrapped_since 5 8589934590 = true.
Proof. vm_compute. repeat split; reflexivity. Qed.
