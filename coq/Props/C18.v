(* Props/C18.v — C18: queued handler changes apply between packets, in order. *)
From TS Require Import Base.Res Model.Timestamp Model.Packet Model.PesFilter Model.Crc Model.Psi Model.Demux
  Spec.Dispatch Proofs.DispatchProofs.
Open Scope N_scope.

(* the queue is applied in order and never panics: afterwards each PID maps to the LAST request made for it
   (insert: that handler; remove: nothing), untouched PIDs keep their handler; removing an unregistered PID
   is harmless *)
Theorem C18_apply_in_order : forall cs fs, wf fs -> exists fs', apply_changes fs cs = Ok fs' /\ wf fs' /\
  forall p, filters_get fs' p = match last_change cs p with Some x => x | None => filters_get fs p end.
Proof. exact apply_changes_spec. Qed.
Print Assumptions C18_apply_in_order.

(* packet k goes to the handler in the table BEFORE; its requests (self-replacement and self-removal
   included) are in force, the queue empty, when packet k+1 is dispatched; closed over every script *)
Theorem C18_script_step : forall policy scripts fuzzing deep fs cx i pk pid s id n,
  wf fs -> pkt_pid pk = Ok pid -> filters_get fs pid = Some (HScript s id n) ->
  pkt_transport_error_indicator pk = Ok false ->
  (exists tsc, pkt_transport_scrambling_control pk = Ok tsc /\ tsc_is_scrambled tsc = false) ->
  forall r, spec_packet policy scripts fuzzing deep fs cx (i, pk) = Ok r ->
  exists cx2 evq fs3,
    queue_actions cx (scripts id n) = Ok (cx2, evq) /\
    apply_changes (set_slot fs pid (Some (HScript s id (S n)))) (cx_changes cx2) = Ok fs3 /\
    r = (fs3, clear_changes cx2, EvPacket s i [] :: evq) /\
    (forall p, filters_get fs3 p = match last_change (cx_changes cx2) p with
                                    | Some x => x
                                    | None => filters_get (set_slot fs pid (Some (HScript s id (S n)))) p end).
Proof. exact script_step. Qed.
Print Assumptions C18_script_step.

(* the real loop dispatches every following packet (same PID or not) against the updated table *)
Theorem C18_loop_is_per_packet : forall policy scripts fuzzing deep pkts fs cx cached, cache_ok fs cached ->
  push_loop policy scripts fuzzing deep fs cx cached pkts = spec_push policy scripts fuzzing deep fs cx pkts.
Proof. exact c06_refines. Qed.
Print Assumptions C18_loop_is_per_packet.

(* a PID left without a handler is offered again as an unannounced PID when it next appears *)
Theorem C18_reoffer : forall policy scripts fuzzing deep fs cx i pk pid, wf fs ->
  pkt_pid pk = Ok pid -> filters_get fs pid = None ->
  exists fs1, filters_insert fs pid (mk_handler (policy (RqByPid pid)) (cx_serial cx)) = Ok fs1 /\
  forall r, spec_packet policy scripts fuzzing deep fs cx (i, pk) = Ok r -> exists ev, snd r = EvConstruct (cx_serial cx) (RqByPid pid) :: ev.
Proof. exact reoffer. Qed.
Print Assumptions C18_reoffer.

Example C18_nonvacuous :
  last_change [ChInsert 5 (HRec 1); ChRemove 5; ChInsert 5 (HRec 2); ChRemove 9] 5 = Some (Some (HRec 2)) /\
  last_change [ChInsert 5 (HRec 1); ChRemove 5] 5 = Some None /\ last_change [ChRemove 9] 5 = None.
Proof. repeat split; reflexivity. Qed.
