(* Model/All.v — re-exports every executable model file (used by generated sample files). *)
From TS Require Export Base.Res Model.Timestamp Model.Packet Model.PacketObs Model.Pes Model.PesObs Model.Crc Model.Descriptor Model.Tables Model.TablesObs Model.PesFilter Model.Psi Model.PsiObs Model.Demux Model.DemuxObs.
