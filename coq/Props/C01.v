(* Props/C01.v — C01: arbitrary input never panics the demultiplexer or any accessor. *)
From TS Require Import Base.Res Model.Timestamp Model.Packet Model.PesFilter Model.Crc Model.Psi Model.Demux
  Model.PacketObs Model.PesObs Model.TablesObs Spec.PesSpec Spec.TablesSpec Proofs.DeepTotality Proofs.TotalityProofs.
Open Scope N_scope.

(* for EVERY list of byte chunks of any lengths (packet-aligned or not), every application policy and every
   script of handler changes, in the normal build (fz = false) and with the CRC comparison bypassed
   (fz = true, the cfg(fuzzing) build): Demultiplex::new followed by the successive push calls, with the
   library's PAT, PMT and PES handling, returns a value — no [Panic site] is ever reached — both when the
   application call-backs only record what they are handed (deep = false) and when they call EVERY accessor of
   every object they are handed (deep = true: the whole Packet incl. adaptation field and its extension, the
   PesHeader with all optional fields, the PmtSection with its descriptor loops and every StreamInfo).  Every indexing,
   slicing, split_at, assert!, unwrap, usize subtraction and range-checked constructor of the modelled code
   is a checked operation of the model, so this covers them all. *)
Theorem C01_push_total : forall policy scripts fz deep bufs, Forall bytes_ok bufs ->
  exists fs cx ev, run_demux policy scripts fz deep bufs = Ok (fs, cx, ev).
Proof. exact c01_run_demux_total. Qed.
Print Assumptions C01_push_total.

(* the invariant that carries it: the handler table is well formed and every table chain satisfies
   "Buffering => at least 8 buffered bytes whose header has the syntax bit set"; one packet preserves it *)
Theorem C01_packet_step : forall policy scripts fz deep fs cx i pk, filters_inv fs -> ctx_inv cx -> pkt_ok pk ->
  exists fs' cx' ev, Spec.Dispatch.spec_packet policy scripts fz deep fs cx (i, pk) = Ok (fs', cx', ev) /\ filters_inv fs' /\ ctx_inv cx'.
Proof. exact spec_packet_total. Qed.
Print Assumptions C01_packet_step.

(* the section chain alone, for any total table processor *)
Theorem C01_chain_total : forall fz (IS CX EV : Type) inner (IOK : IS -> Prop) (CXOK : CX -> Prop),
  (forall i cx h tsh data origin, IOK i -> CXOK cx -> bytes_ok data -> (12 <= length data)%nat ->
     exists i' cx' ev, inner i cx h tsh data origin = Ok (i', cx', ev) /\ IOK i' /\ CXOK cx') ->
  forall (c : chain IS) cx pk, chain_inv IS IOK c -> CXOK cx -> pkt_ok pk ->
  exists c' cx' ev, spc_consume (table_cfg fz) IS CX EV inner c cx pk = Ok (c', cx', ev) /\ chain_inv IS IOK c' /\ CXOK cx'.
Proof. exact spc_consume_total. Qed.
Print Assumptions C01_chain_total.

(* the accessors of the objects handed to application call-backs, each for EVERY input of its domain *)
Theorem C01_packet_accessors : forall pk, pkt_ok pk -> exists o, obs_packet pk = Ok o.
Proof. exact obs_packet_total. Qed.
Print Assumptions C01_packet_accessors.

Theorem C01_adaptation_accessors : forall base b, (1 <= length b)%nat -> bytes_ok b -> exists o, obs_af base b = Ok o.
Proof. exact obs_af_total. Qed.
Print Assumptions C01_adaptation_accessors.

Theorem C01_pes_header_accessors : forall pol g base c, bytes_ok c -> s_ppc_accept c = true -> exists o, obs_ppc_at pol g base c = Ok o.
Proof. exact obs_ppc_total. Qed.
Print Assumptions C01_pes_header_accessors.

Theorem C01_descriptor_accessors : forall base b, bytes_ok b -> exists o, obs_desc_loop base b = Ok o.
Proof. exact obs_desc_loop_total. Qed.
Print Assumptions C01_descriptor_accessors.

Theorem C01_pmt_accessors : forall b, bytes_ok b -> s_pmt_accept b = ROk b -> exists o, obs_pmt_section b = Ok o.
Proof. exact obs_pmt_section_total. Qed.
Print Assumptions C01_pmt_accessors.
