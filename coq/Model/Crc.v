(* Model/Crc.v — src/mpegts_crc.rs: table-driven CRC over the table regenerated from the source. *)
From TS Require Import Base.Res Gen.CrcTable.
Open Scope N_scope.

(* one iteration of the loop in sum32; `crc << 8` wraps on u32 *)
Definition crc_step (crc d : N) : N :=
  let index := N.land (N.lxor (N.shiftr crc 24) d) 255 in
  N.lxor (N.land (N.shiftl crc 8) 4294967295) (nth (N.to_nat index) CRC_TABLE 0).

Definition m_sum32 (data : list N) : N := fold_left crc_step data CRC_INIT.

Definition run_crc (data : list N) : option (list N) := Some [m_sum32 data].
