(* Model/PesFilter.v — src/pes.rs lines 50-152: PesPacketFilter (after fixes F1a, F1b). *)
From TS Require Import Base.Res Model.Timestamp Model.Packet Model.Pes.
Open Scope N_scope.

Inductive pes_state := PsBegin | PsStarted | PsIgnoreRest.
Definition pes_state_eqb (a b : pes_state) : bool :=
  match a, b with PsBegin, PsBegin | PsStarted, PsStarted | PsIgnoreRest, PsIgnoreRest => true | _, _ => false end.

Record pes_filter := { pf_ccounter : option N; pf_state : pes_state }.
Definition pes_filter_new : pes_filter := {| pf_ccounter := None; pf_state := PsBegin |}.

(* ElementaryStreamConsumer call-backs; slices are (offset within the packet, bytes) *)
Inductive es_event :=
| EsStartStream
| EsBeginPacket (off : nat) (header : list N)
| EsContinuePacket (off : nat) (data : list N)
| EsEndPacket
| EsContinuityError.

(* fn is_continuous(&self, packet) *)
Definition pf_is_continuous (f : pes_filter) (pk : pkt) : res bool :=
  match pf_ccounter f with
  | Some cc =>
      do ac <- pkt_adaptation_control pk;
      if ac_has_payload ac then do c <- pkt_continuity_counter pk; Ok (cc_follows c cc)
      else do c <- pkt_continuity_counter pk; Ok (c =? cc)
  | None => Ok true
  end.

(* PacketFilter::consume *)
Definition pf_consume (f : pes_filter) (pk : pkt) : res (pes_filter * list es_event) :=
  do cont <- pf_is_continuous f pk;
  let '(st1, e1) :=
    if negb cont then
      (* F1a: a counter gap before the stream has started leaves the filter in Begin *)
      ((if pes_state_eqb (pf_state f) PsBegin then PsBegin else PsIgnoreRest), [EsContinuityError])
    else (pf_state f, []) in
  do c <- pkt_continuity_counter pk;
  do pusi <- pkt_payload_unit_start_indicator pk;
  if pusi then
    let '(st2, e2) :=
      if pes_state_eqb st1 PsStarted then (st1, [EsEndPacket])
      else ((PsStarted), (if pes_state_eqb st1 PsBegin then [EsStartStream] else [])) in
    do pl <- pkt_payload pk;
    do hdr <- match pl with
              | Some (off, payload) =>
                  do h <- pes_header_from_bytes payload;
                  Ok (match h with Some hb => Some (off, hb) | None => None end)
              | None => Ok None
              end;
    match hdr with
    | Some (off, hb) =>
        Ok ({| pf_ccounter := Some c; pf_state := st2 |}, e1 ++ e2 ++ [EsBeginPacket off hb])
    | None =>
        (* F1b: no recognisable PES header: nothing of this packet is delivered *)
        Ok ({| pf_ccounter := Some c; pf_state := PsIgnoreRest |}, e1 ++ e2)
    end
  else
    match st1 with
    | PsStarted =>
        do pl <- pkt_payload pk;
        match pl with
        | Some (off, payload) =>
            if negb (Nat.eqb (length payload) 0)
            then Ok ({| pf_ccounter := Some c; pf_state := st1 |}, e1 ++ [EsContinuePacket off payload])
            else Ok ({| pf_ccounter := Some c; pf_state := st1 |}, e1)
        | None => Ok ({| pf_ccounter := Some c; pf_state := st1 |}, e1)
        end
    | PsBegin => Ok ({| pf_ccounter := Some c; pf_state := st1 |}, e1)
    | PsIgnoreRest => Ok ({| pf_ccounter := Some c; pf_state := st1 |}, e1)
    end.
