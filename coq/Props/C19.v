(* Props/C19.v — C19: payload access is zero-copy, allocation-free in steady state, and bounded.  PARTIAL:
   the logic of the three claims is proved on the model; what the allocator is actually asked and the
   addresses of delivered slices are runtime facts, sampled by the harness (counting global allocator,
   pointer ranges) and compared with what the model predicts. *)
From TS Require Import Base.Res Model.Timestamp Model.Packet Model.Pes Model.PesFilter Model.Crc Model.Psi Model.Demux
  Model.DemuxObs Proofs.PesFilterProofs Proofs.SectionProofs Proofs.TableProofs Proofs.DeepTotality Proofs.TotalityProofs Proofs.ResourceProofs Proofs.Witnesses.
Open Scope N_scope.

(* every payload the packet layer hands out is a suffix range of the 188-byte packet itself *)
Theorem C19_payload_is_range : forall pk o d, pkt_ok pk -> pkt_payload pk = Ok (Some (o, d)) ->
  d = skipn o pk /\ (o < 188)%nat /\ (o + length d = 188)%nat.
Proof. exact payload_is_suffix. Qed.
Print Assumptions C19_payload_is_range.

(* every slice an elementary-stream consumer receives (header of packet-begin, continuation data) is such a
   range of the packet being processed: the model computes ranges, it never copies *)
Theorem C19_es_provenance : forall f pk f' evs, pkt_ok pk -> pf_consume f pk = Ok (f', evs) -> Forall (slice_of pk) evs.
Proof. exact c19_es_provenance. Qed.
Print Assumptions C19_es_provenance.

(* a section that fits in its start packet is delivered in place ([Some off] = a range of the packet) *)
Theorem C19_section_in_place : forall compact (c : chain unit) S data off,
  valid_start compact S -> (hdr_size compact <= length data)%nat -> (length S <= length data)%nat ->
  firstn (length S) data = S ->
  exists c', sp_start (rcfg compact) unit unit delivery recI c tt (hdr_of S) data off =
             Ok (c', tt, [(hdr_of S, (if compact then [] else skipn 3 data), S, Some off)]) /\ bf_state c' = Complete.
Proof. exact start_complete. Qed.
Print Assumptions C19_section_in_place.

(* steady state: a packet for a PES consumer leaves the change queue and the construction counter untouched
   and replaces only that consumer's own filter state; a repeated table is skipped before any buffering (C10) *)
Theorem C19_pes_no_growth : forall policy scripts fz deep s f cx i pk r,
  handler_consume policy scripts fz deep (HPes s f) cx i pk = Ok r -> exists f' ev, r = (HPes s f', cx, ev).
Proof. exact c19_pes_no_growth. Qed.
Print Assumptions C19_pes_no_growth.

Theorem C19_repeat_no_growth : forall fz (IS CX EV : Type) inner (c : chain IS) (cx : CX) h data off v,
  accepted_start h data -> dd_last_version c = Some v -> tsh_version (skipn 3 data) = Ok v ->
  sp_start (table_cfg fz) IS CX EV inner c cx h data off = Ok (skipped IS c v, cx, []).
Proof. exact c10_skip_start. Qed.
Print Assumptions C19_repeat_no_growth.

(* bounded retained state under ANY input: a table chain's section buffer never holds more than 1024 bytes *)
Theorem C19_buffer_bounded : forall fz (IS CX EV : Type) inner (c : chain IS) (cx : CX) pk r,
  buf_bnd IS c -> spc_consume (table_cfg fz) IS CX EV inner c cx pk = Ok r -> buf_bnd IS (fst (fst r)).
Proof. exact c19_buffer_bounded. Qed.
Print Assumptions C19_buffer_bounded.

(* KNOWN FINDING F10 (refutation witness): two programs whose maps travel on ONE program-map PID with different
   version_numbers.  The de-duplication layer remembers one version per PID, so each map differs from "the last one" and is
   applied again every time it is repeated: in the steady part of the witness (both maps once more, nothing new) the model
   makes 2 handler requests (last number; the implementation makes the same 2 requests and 2 heap allocations for the
   PMT processor's bit sets).  With equal version_numbers the second map is taken for a repetition and nothing happens. *)
Theorem C19_F10_refuted : run_alloc wit_F10_warm wit_F10_steady = Some (0 :: 0 :: 0 :: 2 :: nil).
Proof. vm_compute. reflexivity. Qed.
Print Assumptions C19_F10_refuted.
