#!/usr/bin/env python3
"""bin/benign_eval.py <dir> ... — behaviour-preserving changes: apply each to /repo, check that the crate's suite still
passes (scratch worktree), run EVERY property's quick check (all must stay quiet), undo, and file the result under
/verif/seeded/benign/<id>/."""
import json, os, shutil, subprocess, sys, time
WT = "/tmp/wt_seed"
ENV = dict(os.environ, CARGO_NET_OFFLINE="true")
PROPS = [f"C{n:02d}" for n in range(1, 20)]

def sh(cmd, cwd=None, timeout=3600):
    p = subprocess.run(cmd, shell=True, cwd=cwd, stdout=subprocess.PIPE, stderr=subprocess.STDOUT, env=ENV, timeout=timeout)
    return p.returncode, p.stdout.decode("utf-8", "replace")

def main():
    if not os.path.isdir(WT):
        rc, out = sh(f"git -C /repo worktree add -q {WT} HEAD"); assert rc == 0, out
    for d in sys.argv[1:]:
        d = d.rstrip("/"); name = os.path.basename(d)
        meta = json.load(open(f"{d}/meta.json"))
        sh(f"git -C {WT} checkout -- . && git -C {WT} clean -fdq -e target")
        rc, out = sh(f"git -C {WT} apply {d}/patch.diff")
        res = {"applies": rc == 0}
        if rc == 0:
            _, out_t = sh("cargo test --offline 2>&1 | grep 'test result'", cwd=WT)
            res["suite_passes"] = "63 passed; 0 failed" in out_t
        sh(f"git -C {WT} checkout -- . && git -C {WT} clean -fdq -e target")
        checks = {}
        if res.get("suite_passes"):
            rc, out = sh(f"git -C /repo apply {d}/patch.diff")
            if rc == 0:
                try:
                    for p in PROPS:
                        t0 = time.time()
                        rc_k, out_k = sh(f"/verif/bin/check {p}", cwd="/verif")
                        lines = [l for l in out_k.splitlines() if l.startswith(("VIOLATION", "OK "))]
                        checks[p] = {"exit": rc_k, "verdict": lines, "wall_s": round(time.time() - t0, 1)}
                finally:
                    sh("git -C /repo checkout -- .")
        res["checks"] = checks
        res["alarms"] = sorted(p for p, v in checks.items() if v["exit"] != 0)
        od = f"/verif/seeded/benign/{name}"
        os.makedirs(od, exist_ok=True)
        shutil.copy(f"{d}/patch.diff", f"{od}/patch.diff")
        meta["evaluation"] = res
        json.dump(meta, open(f"{od}/meta.json", "w"), indent=1)
        print(name, "suite", res.get("suite_passes"), "alarms", res["alarms"], flush=True)
    sh(f"git -C /repo worktree remove --force {WT}"); sh("git -C /repo worktree prune")

if __name__ == "__main__":
    main()
