//! Structured valid-stream generator with ground truth, shared by the stream-level suites.
use crate::mux::*;
use crate::util::*;

pub struct Program { pub number: u16, pub pmt_pid: u16, pub pcr_pid: u16, pub streams: Vec<(u8, u16)> }
pub struct Truth {
    /// per elementary PID: the PES packets multiplexed, in order: (stream_id, payload bytes)
    pub pes: Vec<(u16, Vec<(u8, Option<u64>, Option<u64>, Vec<u8>)>)>,
}

pub fn pick_pids(rng: &mut Rng, n: usize) -> Vec<u16> {
    let mut v: Vec<u16> = vec![];
    while v.len() < n {
        let p = match rng.below(6) { 0 => rng.range(0x10, 0x30) as u16, 1 => rng.range(0x1ff0, 0x1ffe) as u16, _ => rng.range(0x20, 0x1ffe) as u16 };
        if !v.contains(&p) { v.push(p); }
    }
    v
}
pub const PES_TYPES: [u8; 8] = [0x01, 0x02, 0x03, 0x04, 0x0f, 0x1b, 0x24, 0x06];

pub fn gen_programs(rng: &mut Rng, nprog: usize) -> Vec<Program> {
    let per: Vec<usize> = (0..nprog).map(|_| rng.range(1, 4) as usize).collect();
    let total: usize = per.iter().sum::<usize>() + nprog;
    let pids = pick_pids(rng, total);
    let mut k = 0; let mut out = vec![];
    for (i, n) in per.iter().enumerate() {
        let pmt_pid = pids[k]; k += 1;
        let streams: Vec<(u8, u16)> = (0..*n).map(|_| { let p = pids[k]; k += 1; (*rng.pick(&PES_TYPES), p) }).collect();
        out.push(Program { number: (i as u16 + 1) + 16 * (rng.range(1, 9) as u16 - 1), pmt_pid, pcr_pid: streams[0].1, streams });   // distinct program numbers
    }
    out
}

pub static BIG_PES: std::sync::atomic::AtomicBool = std::sync::atomic::AtomicBool::new(false);
pub fn pes_payload(rng: &mut Rng) -> Vec<u8> {
    // beyond any 16-bit counter (only where the suite pushes in small pieces: the model's cost per push is quadratic)
    if BIG_PES.load(std::sync::atomic::Ordering::Relaxed) && rng.chance(1, 500) { let n = rng.range(65_600, 72_000) as usize; return rng.bytes(n); }
    let n = match rng.below(10) { 0 => 0, 1 => 1, 2 => 184 - 9, 3 => 184 - 14, 4 => 184 - 19, 5 => 368 - 14, 6 => rng.range(2, 40) as usize, 7 => rng.range(150, 200) as usize, _ => rng.range(0, 900) as usize };
    let mut b = rng.bytes(n);
    // elementary-stream bytes that look like transport / PES syntax: start codes, sync bytes, stuffing, all zero
    match rng.below(10) {
        0 => { for k in 0..n { b[k] = [0u8, 0, 1, 0xe0][k % 4]; } }
        1 => { let mut k = 0; while k + 4 <= n { b[k] = 0; b[k + 1] = 0; b[k + 2] = 1; b[k + 3] = *rng.pick(&[0xe0u8, 0xc0, 0xbd, 0xbe, 0xb3, 0x00]); k += rng.range(4, 190) as usize; } }
        2 => { for k in 0..n { b[k] = *rng.pick(&[0x47u8, 0xff, 0x00]); } }
        _ => {}
    }
    b
}

/// tables first, then PES packets of every stream interleaved by a random schedule, tables repeated now and then
pub fn valid_stream(rng: &mut Rng, nprog: usize, pes_per_stream: usize, repeats: bool) -> (Mux, Truth, Vec<Program>) {
    let progs = gen_programs(rng, nprog);
    let mut m = Mux::new();
    let pat = section(0, rng.range(0, 0xffff) as u16, rng.below(32) as u8, true, &pat_body(&progs.iter().map(|p| (p.number, p.pmt_pid)).collect::<Vec<_>>(), rng));
    let pmts: Vec<Vec<u8>> = progs.iter().map(|p| {
        let pd = if rng.chance(1, 3) { descriptor(5, b"CUEI") } else { vec![] };
        let ss: Vec<(u8, u16, Vec<u8>)> = p.streams.iter().map(|(t, pid)| (*t, *pid, if rng.chance(1, 3) { descriptor(10, &[b'e', b'n', b'g', 0]) } else { vec![] })).collect();
        section(2, p.number, rng.below(32) as u8, true, &pmt_body(p.pcr_pid, &pd, &ss, rng))
    }).collect();
    m.psi(0, &pat, if rng.chance(1, 4) { rng.range(1, 20) as usize } else { 0 }, 0, rng);
    for (p, s) in progs.iter().zip(pmts.iter()) { m.psi(p.pmt_pid, s, 0, rng.below(2), rng); }
    // per stream: queue of transport packets (built with a private Mux so counters stay per PID), then interleave
    let mut queues: Vec<(u16, Vec<Vec<u8>>)> = vec![];
    let mut truth = Truth { pes: vec![] };
    for p in progs.iter() { for (_, pid) in p.streams.iter() {
        let mut q = Mux::new(); q.set_cc(*pid, rng.below(16) as u8);
        let mut list = vec![];
        for _ in 0..pes_per_stream {
            let sid = match rng.below(10) { 0 => 0xbd, 1 => 0xbe, 2 => 0xfd, 3 => 0xc0 + rng.below(32) as u8,
                // every stream id without the optional header (Table 2-21), and the remaining ids that do have one
                4 => *rng.pick(&[0xbcu8, 0xbf, 0xf0, 0xf1, 0xf2, 0xf8, 0xff]), 5 => *rng.pick(&[0xf3u8, 0xf4, 0xf5, 0xf6, 0xf7, 0xf9, 0xfa, 0xfb, 0xfc, 0xfe]),
                _ => 0xe0 + rng.below(16) as u8 };
            let payload = pes_payload(rng);
            let spec = PesSpec { stream_id: sid, pts: if rng.chance(3, 4) { Some(rng.below(1 << 33)) } else { None }, dts: if rng.chance(1, 3) { Some(rng.below(1 << 33)) } else { None },
                                 extra_hdr: if rng.chance(1, 4) { rng.range(1, 6) as usize } else { 0 }, bounded: rng.chance(1, 2), payload: payload.clone(),
                                 opt_flags: if rng.chance(1, 3) { rng.byte() & 0x3f } else { 0 }, opt_fill: rng.bytes(8) };
            // DTS present only with a PTS; equal to it in a quarter of those cases
            let spec = PesSpec { dts: if spec.pts.is_some() { if spec.dts.is_some() && rng.chance(1, 4) { spec.pts } else { spec.dts } } else { None }, ..spec };
            let (bytes, hl) = pes_packet(&spec);
            let style = rng.below(4);
            let first = (hl + rng.below(60) as usize).min(184);
            q.unit(*pid, &bytes, style, if style == 3 { first.max(hl) } else { hl }, rng);
            list.push((sid, if headerless(sid) { None } else { spec.pts }, if headerless(sid) { None } else { spec.dts }, payload));
        }
        truth.pes.push((*pid, list));
        queues.push((*pid, q.pkts));
    } }
    let mut idx: Vec<usize> = vec![0; queues.len()];
    let mut left: usize = queues.iter().map(|q| q.1.len()).sum();
    while left > 0 {
        let k = rng.below(queues.len() as u64) as usize;
        if idx[k] < queues[k].1.len() {
            let run = rng.range(1, 4) as usize;
            for _ in 0..run { if idx[k] < queues[k].1.len() { m.pkts.push(queues[k].1[idx[k]].clone()); idx[k] += 1; left -= 1; } }
        }
        if repeats && rng.chance(1, 12) {
            if rng.chance(1, 2) { m.psi(0, &pat, 0, 0, rng); } else { let j = rng.below(progs.len() as u64) as usize; m.psi(progs[j].pmt_pid, &pmts[j], 0, rng.below(2), rng); }
        }
        if rng.chance(1, 20) { // unrelated / null packets
            let pl = rng.bytes(184); let cc = rng.below(16) as u8;
            m.pkts.push(ts_packet(0x1fff, false, cc, false, 0, None, &pl));
        }
    }
    (m, truth, progs)
}

pub fn dmx_case(flags: u64, scripts: &str, chunks: &[Vec<u8>]) -> String {
    let mut s = format!("DMX {} S{}", flags, scripts);
    for c in chunks { s.push(' '); s.push_str(&hex(c)); }
    s
}

/// smoke suite: valid streams pushed in one call
pub fn gen_smoke(_tier: &str, seed: u64, emit: &mut dyn FnMut(String)) {
    let mut rng = Rng::new(seed ^ 0xD3);
    for i in 0..60 {
        let (m, _t, _p) = valid_stream(&mut rng, 1 + (i % 3), 1 + (i % 4), i % 2 == 0);
        emit(dmx_case((i % 2) as u64, "", &[m.bytes()]));
    }
}
