//! A small transport-stream multiplexer used by the generators.  Independent of the crate under test
//! (own CRC, own bit packing) so that "valid" means valid per ISO/IEC 13818-1, not per the implementation.
use crate::util::Rng;
use std::collections::HashMap;

/// bitwise CRC-32/MPEG-2 (Annex A)
pub fn crc32_mpeg(data: &[u8]) -> u32 {
    let mut r: u32 = 0xffff_ffff;
    for &b in data {
        for i in (0..8).rev() {
            let inb = ((b >> i) & 1) as u32;
            let top = (r >> 31) ^ inb;
            r <<= 1;
            if top != 0 { r ^= 0x04C1_1DB7; }
        }
    }
    r
}

/// one transport packet: header, optional adaptation field of exactly `af_len` content bytes
/// (af_len = None: no adaptation field), then payload which must fill the packet exactly
pub fn ts_packet(pid: u16, pusi: bool, cc: u8, tei: bool, scramble: u8, af: Option<Vec<u8>>, payload: &[u8]) -> Vec<u8> {
    let has_payload = !payload.is_empty();
    let afc = match (&af, has_payload) { (None, true) => 1u8, (Some(_), false) => 2, (Some(_), true) => 3, (None, false) => 0 };
    let mut p = vec![0x47, ((tei as u8) << 7) | ((pusi as u8) << 6) | ((pid >> 8) as u8 & 0x1f), pid as u8, (scramble << 6) | (afc << 4) | (cc & 15)];
    if let Some(a) = af { p.push(a.len() as u8); p.extend(a); }
    p.extend_from_slice(payload);
    assert_eq!(p.len(), 188, "packet does not add up: pid {} afc {} payload {}", pid, afc, payload.len());
    p
}

/// adaptation field content of `n` bytes (n >= 1): flags byte (optionally with PCR) + stuffing 0xff
pub fn af_stuffing(n: usize, pcr: Option<u64>, rng: &mut Rng) -> Vec<u8> {
    let mut a = vec![0u8; n];
    for x in a.iter_mut().skip(1) { *x = 0xff; }
    if n >= 1 { a[0] = 0; }
    if let Some(v) = pcr { if n >= 7 {
        a[0] |= 0x10;
        let base = v & ((1u64 << 33) - 1); let ext = (rng.below(300)) as u64;
        a[1] = (base >> 25) as u8; a[2] = (base >> 17) as u8; a[3] = (base >> 9) as u8; a[4] = (base >> 1) as u8;
        a[5] = (((base & 1) as u8) << 7) | 0x7e | ((ext >> 8) as u8 & 1); a[6] = ext as u8;
    } }
    if rng.chance(1, 4) && n >= 1 { a[0] |= 0x40; }
    // discontinuity_indicator / elementary_stream_priority_indicator: flags that need no further bytes
    if rng.chance(1, 3) && n >= 1 { a[0] |= 0x80; }
    if rng.chance(1, 6) && n >= 1 { a[0] |= 0x20; }
    a
}

pub struct Mux {
    pub pkts: Vec<Vec<u8>>,
    pub cc: HashMap<u16, u8>,
}
impl Mux {
    pub fn new() -> Mux { Mux { pkts: vec![], cc: HashMap::new() } }
    pub fn set_cc(&mut self, pid: u16, v: u8) { self.cc.insert(pid, v & 15); }
    /// next counter for a packet that carries payload
    fn next_cc(&mut self, pid: u16) -> u8 { let e = self.cc.entry(pid).or_insert(15); *e = (*e + 1) & 15; *e }
    fn cur_cc(&mut self, pid: u16) -> u8 { *self.cc.entry(pid).or_insert(15) }

    /// payload-less packet (adaptation field only, e.g. a PCR packet): counter does not advance
    pub fn af_only(&mut self, pid: u16, pcr: Option<u64>, rng: &mut Rng) {
        let cc = self.cur_cc(pid);
        let af = af_stuffing(183, pcr, rng);
        self.pkts.push(ts_packet(pid, false, cc, false, 0, Some(af), &[]));
    }
    /// one packet carrying exactly `chunk` (1..=184 bytes), padded with adaptation-field stuffing in front
    pub fn data_packet(&mut self, pid: u16, pusi: bool, chunk: &[u8], rng: &mut Rng) {
        assert!(!chunk.is_empty() && chunk.len() <= 184);
        let cc = self.next_cc(pid);
        let af = if chunk.len() == 184 { None } else if chunk.len() == 183 { Some(vec![]) } else { Some(af_stuffing(183 - chunk.len(), if rng.chance(1, 6) { Some(rng.next()) } else { None }, rng)) };
        self.pkts.push(ts_packet(pid, pusi, cc, false, 0, af, chunk));
    }
    /// split `data` into packets on `pid`; first packet has pusi; chunk sizes chosen by `style`:
    /// 0 = as large as possible, 1 = random sizes 1..=184, 2 = tiny chunks, 3 = max; the first chunk has at least `first` bytes
    pub fn unit(&mut self, pid: u16, data: &[u8], style: u64, first: usize, rng: &mut Rng) {
        let mut pos = 0usize; let mut firstp = true;
        while pos < data.len() {
            let remain = data.len() - pos;
            let mut n = match style { 0 => 184, 1 => rng.range(1, 184) as usize, 2 => rng.range(1, 8) as usize, _ => 184 };
            if firstp { n = n.max(first).max(1); }
            n = n.min(remain).min(184);
            self.data_packet(pid, firstp, &data[pos..pos + n], rng);
            pos += n; firstp = false;
            if style == 1 && rng.chance(1, 10) { self.af_only(pid, Some(rng.next()), rng); }
        }
    }
    pub fn bytes(&self) -> Vec<u8> { self.pkts.concat() }
}

// ---- PSI ----
/// a section with section-syntax: table_id, id (table_id_extension), version, body; CRC appended
pub fn section(table_id: u8, id: u16, version: u8, current: bool, body: &[u8]) -> Vec<u8> {
    let len = 5 + body.len() + 4;
    assert!(len <= 4093);
    let mut s = vec![table_id, 0xB0 | ((len >> 8) as u8 & 0x0f), len as u8, (id >> 8) as u8, id as u8, 0xC0 | ((version & 31) << 1) | (current as u8), 0, 0];
    s.extend_from_slice(body);
    let c = crc32_mpeg(&s);
    s.extend_from_slice(&c.to_be_bytes());
    s
}
pub fn pat_body(progs: &[(u16, u16)], rng: &mut Rng) -> Vec<u8> {
    let mut b = vec![];
    for (n, p) in progs { let r = if rng.chance(1, 2) { 0xE0 } else { (rng.byte() & 7) << 5 }; b.extend_from_slice(&[(n >> 8) as u8, *n as u8, r | ((p >> 8) as u8 & 0x1f), *p as u8]); }
    b
}
pub fn descriptor(tag: u8, payload: &[u8]) -> Vec<u8> { let mut d = vec![tag, payload.len() as u8]; d.extend_from_slice(payload); d }
pub fn pmt_body(pcr_pid: u16, prog_desc: &[u8], streams: &[(u8, u16, Vec<u8>)], rng: &mut Rng) -> Vec<u8> {
    let r1 = if rng.chance(1, 2) { 0xE0 } else { (rng.byte() & 7) << 5 };
    let r2 = if rng.chance(1, 2) { 0xF0 } else { (rng.byte() & 15) << 4 };
    let mut b = vec![r1 | ((pcr_pid >> 8) as u8 & 0x1f), pcr_pid as u8, r2 | ((prog_desc.len() >> 8) as u8 & 0x0f), prog_desc.len() as u8];
    b.extend_from_slice(prog_desc);
    for (t, p, d) in streams {
        let r3 = if rng.chance(1, 2) { 0xE0 } else { (rng.byte() & 7) << 5 };
        let r4 = if rng.chance(1, 2) { 0xF0 } else { (rng.byte() & 15) << 4 };
        b.extend_from_slice(&[*t, r3 | ((p >> 8) as u8 & 0x1f), *p as u8, r4 | ((d.len() >> 8) as u8 & 0x0f), d.len() as u8]);
        b.extend_from_slice(d);
    }
    b
}
/// payload bytes of the packets carrying one section: pointer_field (with `ptr` filler bytes before the
/// section), the section, then 0xff stuffing to a packet boundary
pub fn psi_payload(sect: &[u8], ptr: usize) -> Vec<u8> {
    let mut v = vec![ptr as u8]; v.extend(std::iter::repeat(0xff).take(ptr)); v.extend_from_slice(sect); v
}
impl Mux {
    /// transmit one section on `pid`: first packet carries pointer_field + as much as fits (`first` section
    /// bytes, at least `min_first`), later packets `style`-sized chunks; last packet padded with 0xff payload stuffing
    pub fn psi(&mut self, pid: u16, sect: &[u8], ptr: usize, style: u64, rng: &mut Rng) {
        let pl = psi_payload(sect, ptr);
        // first packet: take up to 184 bytes; pad with 0xff to 184 when the whole thing is shorter and style says so
        let mut pos = 0usize; let mut firstp = true;
        while pos < pl.len() {
            let remain = pl.len() - pos;
            let mut n = if firstp { match style { 2 => if rng.chance(1, 4) { 1 + ptr + 8 } else { (1 + ptr + 8).max(rng.range(12, 40) as usize) }, _ => 184 } } else { match style { 1 => rng.range(1, 184) as usize, 2 => rng.range(1, 30) as usize, _ => 184 } };
            n = n.min(remain).min(184);
            let last = pos + n == pl.len();
            if last && (style == 0 || rng.chance(1, 2)) {
                // payload stuffing after the section
                let mut chunk = pl[pos..pos + n].to_vec();
                let pad = if style == 0 { 184 - n } else { rng.below((184 - n) as u64 + 1) as usize };
                chunk.extend(std::iter::repeat(0xff).take(pad));
                self.data_packet(pid, firstp, &chunk, rng);
            } else {
                self.data_packet(pid, firstp, &pl[pos..pos + n], rng);
            }
            pos += n; firstp = false;
        }
    }
}


impl Mux {
    /// transmit the sections back to back on `pid` the way a tightly packing multiplexer does: when a section ends inside
    /// a packet in which no section has started yet, the next one starts right behind it (pointer_field = bytes of the
    /// old section in this packet); at most one section starts per packet; the last packet is stuffed with 0xff.
    /// Returns (first packet, last packet, section bytes in the start packet) per section.
    pub fn psi_packed(&mut self, pid: u16, sects: &[Vec<u8>], rng: &mut Rng) -> Vec<(usize, usize, usize)> {
        let mut out: Vec<(usize, usize, usize)> = vec![];
        let mut carry: Vec<u8> = vec![];           // bytes of the section in progress that are still to be sent
        let mut k = 0usize;
        while k < sects.len() || !carry.is_empty() {
            let idx = self.pkts.len();
            if carry.len() >= 184 {
                let chunk: Vec<u8> = carry.drain(..184).collect();
                self.data_packet(pid, false, &chunk, rng);
            } else if carry.is_empty() {
                let s = &sects[k]; k += 1;
                let n = s.len().min(183);
                let mut pl = vec![0u8]; pl.extend_from_slice(&s[..n]);
                carry = s[n..].to_vec();
                if carry.is_empty() { pl.resize(184, 0xff); }
                out.push((idx, idx, n));
                self.data_packet(pid, true, &pl, rng);
            } else if k < sects.len() && carry.len() <= 182 {
                // the old section ends here and the next one starts behind it
                let tail = std::mem::take(&mut carry);
                let s = &sects[k]; k += 1;
                let room = 183 - tail.len();
                let n = s.len().min(room);
                let mut pl = vec![tail.len() as u8]; pl.extend_from_slice(&tail); pl.extend_from_slice(&s[..n]);
                carry = s[n..].to_vec();
                if carry.is_empty() { pl.resize(184, 0xff); }
                if let Some(l) = out.last_mut() { l.1 = idx; }
                out.push((idx, idx, n));
                self.data_packet(pid, true, &pl, rng);
            } else {
                let mut chunk = std::mem::take(&mut carry);
                chunk.resize(184, 0xff);
                self.data_packet(pid, false, &chunk, rng);
            }
            if !carry.is_empty() || true { if let Some(l) = out.last_mut() { if l.1 < idx { l.1 = idx; } } }
        }
        out
    }
}

// ---- PES ----
pub fn enc_ts(prefix: u8, v: u64) -> [u8; 5] {
    [(prefix << 4) | ((((v >> 30) & 7) as u8) << 1) | 1, (v >> 22) as u8, ((((v >> 15) & 0x7f) as u8) << 1) | 1, (v >> 7) as u8, (((v & 0x7f) as u8) << 1) | 1]
}
pub struct PesSpec { pub stream_id: u8, pub pts: Option<u64>, pub dts: Option<u64>, pub extra_hdr: usize, pub bounded: bool, pub payload: Vec<u8>,
                     /// ESCR / ES_rate / trick mode / copy info / CRC / extension flags (low 6 bits of the flags byte) and the bytes to fill them with
                     pub opt_flags: u8, pub opt_fill: Vec<u8> }
/// header-less stream ids (no optional header)
pub fn headerless(sid: u8) -> bool { matches!(sid, 0xbc | 0xbe | 0xbf | 0xf0 | 0xf1 | 0xff | 0xf2 | 0xf8) }
/// returns (bytes of the whole PES packet, header length)
pub fn pes_packet(s: &PesSpec) -> (Vec<u8>, usize) {
    let mut v = vec![0, 0, 1, s.stream_id, 0, 0];
    if !headerless(s.stream_id) {
        let mut opt = vec![];
        let flags = match (s.pts, s.dts) { (Some(p), Some(d)) => { opt.extend(enc_ts(3, p)); opt.extend(enc_ts(1, d)); 0xC0 } (Some(p), None) => { opt.extend(enc_ts(2, p)); 0x80 } _ => 0 };
        let mut fill = s.opt_fill.iter().cloned().cycle();
        let mut nx = || fill.next().unwrap_or(0xff);
        if s.opt_flags & 0x20 != 0 { for _ in 0..6 { opt.push(nx()); } }
        if s.opt_flags & 0x10 != 0 { for _ in 0..3 { opt.push(nx()); } }
        if s.opt_flags & 0x08 != 0 { opt.push(nx()); }
        if s.opt_flags & 0x04 != 0 { opt.push(nx() | 0x80); }
        if s.opt_flags & 0x02 != 0 { opt.push(nx()); opt.push(nx()); }
        opt.extend(std::iter::repeat(0xff).take(s.extra_hdr));
        v.extend_from_slice(&[0x80 | (nx() & 0x3f), flags | (s.opt_flags & 0x3f), opt.len() as u8]);
        v.extend(opt);
    }
    let hl = v.len();
    v.extend_from_slice(&s.payload);
    if s.bounded { let l = v.len() - 6; if l <= 0xffff { v[4] = (l >> 8) as u8; v[5] = l as u8; } }
    (v, hl)
}
