(* Base/Bits.v — big-endian value of a byte string, the standard's uimsbf field,
   window locality, and the lemmas turning masks/shifts/ors into arithmetic. *)
From Coq Require Import List NArith Lia ZArith ZifyN ZifyNat ZifyBool Bool.
From TS Require Import Base.Res Base.ListX.
Import ListNotations.
Open Scope N_scope.
Ltac Zify.zify_post_hook ::= Z.div_mod_to_equations.

Definition is_byte (b : N) : Prop := b < 256.

Fixpoint be (bs : list N) : N :=
  match bs with [] => 0 | b :: r => b * 2 ^ (8 * N.of_nat (length r)) + be r end.
Definition nbits (bs : list N) : N := 8 * N.of_nat (length bs).

(* uimsbf field: [w] bits starting at bit offset [off], MSB-first numbering over the whole string *)
Definition field (bs : list N) (off w : N) : N := (be bs / 2 ^ (nbits bs - off - w)) mod 2 ^ w.

(* single flag bit, as bool *)
Definition bitf (bs : list N) (off : N) : bool := negb (field bs off 1 =? 0).

Lemma bytes_ok_is_byte bs : bytes_ok bs <-> Forall is_byte bs.
Proof. unfold bytes_ok, is_byte. reflexivity. Qed.

Lemma be_lt bs : Forall is_byte bs -> be bs < 2 ^ nbits bs.
Proof.
  induction 1 as [|b r Hb Hr IH]; unfold nbits in *; cbn [be length].
  - cbn. lia.
  - replace (8 * N.of_nat (S (length r))) with (8 + 8 * N.of_nat (length r)) by lia.
    rewrite N.pow_add_r. change (2^8) with 256. unfold is_byte in Hb.
    set (P := 2 ^ (8 * N.of_nat (length r))) in *. nia.
Qed.

Lemma be_app a b : be (a ++ b) = be a * 2 ^ nbits b + be b.
Proof.
  induction a as [|x a IH]; cbn [be app length]; [lia|].
  rewrite IH, app_length. unfold nbits.
  replace (8 * N.of_nat (length a + length b)) with (8 * N.of_nat (length a) + 8 * N.of_nat (length b)) by lia.
  rewrite N.pow_add_r. lia.
Qed.

Lemma nbits_app a b : nbits (a ++ b) = nbits a + nbits b.
Proof. unfold nbits. rewrite app_length. lia. Qed.

(* window locality: a field lying inside the byte window only depends on that window *)
Lemma field_window pre win post off w :
  Forall is_byte win -> Forall is_byte post ->
  off + w <= nbits win ->
  field (pre ++ win ++ post) (nbits pre + off) w = field win off w.
Proof.
  intros Hw Hp Hfit. unfold field.
  rewrite be_app, be_app.
  rewrite !nbits_app.
  set (s := nbits win - off - w).
  replace (nbits pre + (nbits win + nbits post) - (nbits pre + off) - w) with (nbits post + s) by lia.
  rewrite (N.pow_add_r 2 (nbits post) s).
  pose proof (be_lt post Hp) as HC.
  rewrite <- N.div_div by (apply N.pow_nonzero; lia).
  replace (be pre * 2 ^ (nbits win + nbits post) + (be win * 2 ^ nbits post + be post))
     with ((be pre * 2 ^ nbits win + be win) * 2 ^ nbits post + be post).
  2:{ rewrite (N.pow_add_r 2 (nbits win) (nbits post)). lia. }
  rewrite N.div_add_l by (apply N.pow_nonzero; lia).
  rewrite (N.div_small (be post)) by assumption. rewrite N.add_0_r.
  replace (nbits win) with ((off + w) + s) by lia.
  rewrite (N.pow_add_r 2 (off + w) s), N.mul_assoc.
  rewrite N.div_add_l by (apply N.pow_nonzero; lia).
  rewrite (N.pow_add_r 2 off w).
  replace (be pre * (2 ^ off * 2 ^ w) + be win / 2 ^ s) with (be win / 2 ^ s + (be pre * 2 ^ off) * 2 ^ w) by lia.
  rewrite N.mod_add by (apply N.pow_nonzero; lia). reflexivity.
Qed.

(* the window given by firstn/skipn *)
Lemma field_window_at bs (i m : nat) off w :
  Forall is_byte bs -> (i + m <= length bs)%nat ->
  off + w <= 8 * N.of_nat m ->
  field bs (8 * N.of_nat i + off) w = field (firstn m (skipn i bs)) off w.
Proof.
  intros Hb Hlen Hfit.
  rewrite <- (firstn_skipn i bs) at 1.
  rewrite <- (firstn_skipn m (skipn i bs)) at 1.
  assert (Hl1 : length (firstn i bs) = i) by (rewrite firstn_length; lia).
  assert (Hl2 : length (firstn m (skipn i bs)) = m) by (rewrite firstn_length, skipn_length; lia).
  replace (8 * N.of_nat i) with (nbits (firstn i bs)) by (unfold nbits; rewrite Hl1; reflexivity).
  apply field_window.
  - apply Forall_forall. intros x Hx. rewrite Forall_forall in Hb. apply Hb.
    eapply In_skipn, In_firstn, Hx.
  - apply Forall_forall. intros x Hx. rewrite Forall_forall in Hb. apply Hb.
    eapply In_skipn, In_skipn, Hx.
  - unfold nbits. rewrite Hl2. exact Hfit.
Qed.

(* ---------- or / shift / mask to arithmetic ---------- *)

Lemma lor_add x y k : x mod 2^k = 0 -> y < 2^k -> N.lor x y = x + y.
Proof.
  intros Hx Hy.
  rewrite <- N.lxor_lor, <- N.add_nocarry_lxor; auto.
  all: apply N.bits_inj_0; intros n; rewrite N.land_spec.
  all: destruct (N.lt_ge_cases n k) as [H|H].
  all: try (rewrite <- (N.mod_pow2_bits_low x k n H), Hx, N.bits_0; reflexivity).
  all: destruct (N.eq_dec y 0) as [->|Hz]; [rewrite N.bits_0; apply Bool.andb_false_r|].
  all: rewrite (N.bits_above_log2 y n); [apply Bool.andb_false_r|].
  all: apply N.log2_lt_pow2 in Hy; lia.
Qed.

Lemma lxor_lt a b k : a < 2^k -> b < 2^k -> N.lxor a b < 2^k.
Proof.
  intros Ha Hb.
  destruct (N.eq_dec (N.lxor a b) 0) as [->|Hz]; [apply N.neq_0_lt_0; apply N.pow_nonzero; lia|].
  apply N.log2_lt_pow2; [lia|].
  eapply N.le_lt_trans; [apply N.log2_lxor|].
  destruct (N.eq_dec a 0) as [->|Ha0]; destruct (N.eq_dec b 0) as [->|Hb0]; simpl.
  - exfalso. apply Hz. reflexivity.
  - rewrite N.max_r by apply N.le_0_l. apply N.log2_lt_pow2; lia.
  - rewrite N.max_l by apply N.le_0_l. apply N.log2_lt_pow2; lia.
  - apply N.max_lub_lt; apply N.log2_lt_pow2; lia.
Qed.

(* ---------- finite sweeps ---------- *)

Definition bytes256 : list N := map N.of_nat (seq 0 256).
Lemma byte_in b : b < 256 -> In b bytes256.
Proof. intros H. unfold bytes256. apply in_map_iff. exists (N.to_nat b). split; [lia|]. apply in_seq. lia. Qed.
Lemma byte_sweep (P : N -> bool) : forallb P bytes256 = true -> forall b, b < 256 -> P b = true.
Proof. intros H b Hb. rewrite forallb_forall in H. apply H, byte_in, Hb. Qed.
Lemma byte2_sweep (P : N -> N -> bool) :
  forallb (fun a => forallb (P a) bytes256) bytes256 = true ->
  forall a b, a < 256 -> b < 256 -> P a b = true.
Proof.
  intros H a b Ha Hb. rewrite forallb_forall in H. specialize (H a (byte_in a Ha)).
  rewrite forallb_forall in H. apply H, byte_in, Hb.
Qed.

(* usage:  intros; apply N.eqb_eq (or similar bool reflection); revert b H; apply byte_sweep; vm_compute; reflexivity *)
Ltac sweep1 b H := revert b H; apply byte_sweep; vm_compute; reflexivity.
Ltac sweep2 a b Ha Hb := revert a b Ha Hb; apply byte2_sweep; vm_compute; reflexivity.

Ltac pow_eval := repeat match goal with |- context [2 ^ ?k] =>
  let v := eval vm_compute in (2^k) in change (2^k) with v end.

(* ---------- small windows: be of explicit byte lists ---------- *)
Lemma be1 a : be [a] = a. Proof. cbn. lia. Qed.
Lemma be2 a b : be [a;b] = a * 256 + b. Proof. cbn. lia. Qed.
Lemma be3 a b c : be [a;b;c] = a * 65536 + b * 256 + c. Proof. cbn. lia. Qed.
Lemma be4 a b c d : be [a;b;c;d] = a * 16777216 + b * 65536 + c * 256 + d. Proof. cbn. lia. Qed.
Lemma be5 a b c d e : be [a;b;c;d;e] = a * 4294967296 + b * 16777216 + c * 65536 + d * 256 + e.
Proof. cbn. lia. Qed.
Lemma be6 a b c d e f : be [a;b;c;d;e;f] =
  a * 1099511627776 + b * 4294967296 + c * 16777216 + d * 65536 + e * 256 + f.
Proof. cbn. lia. Qed.

Lemma lxor_add x y k : x mod 2^k = 0 -> y < 2^k -> N.lxor x y = x + y.
Proof.
  intros Hx Hy. rewrite <- (lor_add x y k Hx Hy). apply N.lxor_lor.
  apply N.bits_inj_0; intros n; rewrite N.land_spec.
  destruct (N.lt_ge_cases n k) as [H|H].
  - rewrite <- (N.mod_pow2_bits_low x k n H), Hx, N.bits_0. reflexivity.
  - destruct (N.eq_dec y 0) as [->|Hz]; [rewrite N.bits_0; apply Bool.andb_false_r|].
    rewrite (N.bits_above_log2 y n); [apply Bool.andb_false_r|].
    apply N.log2_lt_pow2 in Hy; lia.
Qed.
