(* Props/C05.v — C05: packet routing follows the latest valid PAT and PMTs. *)
From TS Require Import Base.Res Model.Timestamp Model.Packet Model.Tables Model.PesFilter Model.Crc Model.Psi Model.Demux Model.DemuxObs
  Spec.Dispatch Proofs.DispatchProofs Proofs.TableProofs Proofs.Witnesses.
Open Scope N_scope.

(* applying a PAT: one request per entry in table order (Pmt{pid, program_number} / Nit{pid}), each answer
   queued for insertion under the entry's PID; the PIDs listed become the registered set *)
Theorem C05_pat_entries : forall policy progs cx seen reg, pids_ok progs ->
  pat_entries policy cx seen reg progs =
  Ok (fst (s_pat_apply policy cx progs),
      fold_left (fun s d => bs_insert (pd_pid d) s) progs seen,
      fold_left (fun s d => bs_insert (pd_pid d) s) progs reg,
      snd (s_pat_apply policy cx progs)).
Proof. exact pat_entries_spec. Qed.
Print Assumptions C05_pat_entries.

(* ... then a Remove is queued for every PID of the previous set that the new version dropped *)
Theorem C05_remove_outdated : forall pids cx, Forall (fun p => p <= 8191) pids ->
  queue_removes cx pids = Ok {| cx_changes := cx_changes cx ++ map ChRemove pids; cx_serial := cx_serial cx |}.
Proof. exact queue_removes_spec. Qed.
Print Assumptions C05_remove_outdated.

(* the queued changes are in force for the very next transport packet: the real loop is the per-packet
   dispatcher, which applies the whole queue after the packet that completed the section (C06 / C18) *)
Theorem C05_takes_effect : forall policy scripts fuzzing deep pkts fs cx cached, cache_ok fs cached ->
  push_loop policy scripts fuzzing deep fs cx cached pkts = spec_push policy scripts fuzzing deep fs cx pkts.
Proof. exact c06_refines. Qed.
Print Assumptions C05_takes_effect.

Theorem C05_apply : forall cs fs, wf fs -> exists fs', apply_changes fs cs = Ok fs' /\ wf fs' /\
  forall p, filters_get fs' p = match last_change cs p with Some x => x | None => filters_get fs p end.
Proof. exact apply_changes_spec. Qed.
Print Assumptions C05_apply.

(* KNOWN FINDING F7 (refutation witness): programs 1 and 2 both list elementary PID 0x300; a new version of
   PMT 1 drops it and thereby removes the handler program 2's PMT installed (serial 5): the next packet on
   0x300 is offered as an unannounced PID (request with serial 7). *)
Theorem C05_F7_refuted : run_dmx 0 [] [wit_F7] = Some wit_F7_trace.
Proof. vm_compute. reflexivity. Qed.
Print Assumptions C05_F7_refuted.

(* KNOWN FINDING F8 (refutation witness): a PAT version change re-creates the PMT handler with empty
   book-keeping; the next PMT version drops PID 0x102 but no Remove is queued: the last packet on 0x102 still
   goes to the old handler (serial 3). *)
Theorem C05_F8_refuted : run_dmx 0 [] [wit_F8a] = Some wit_F8a_trace.
Proof. vm_compute. reflexivity. Qed.
Print Assumptions C05_F8_refuted.
