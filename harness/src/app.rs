//! The recording application around Demultiplex (mirrors Model/Demux.v + Model/DemuxObs.v), and the
//! recording whole-section consumers for the section re-assembly chain (Model/PsiObs.v).
use crate::obs;
use crate::tobs;
use mpeg2ts_reader::demultiplex::{self, DemuxContext, FilterChangeset, FilterRequest, PacketFilter};
use mpeg2ts_reader::packet::{Packet, Pid};
use mpeg2ts_reader::pes;
use mpeg2ts_reader::psi;
use std::cell::RefCell;
use std::collections::HashMap;

thread_local! {
    static LOG: RefCell<Vec<u64>> = RefCell::new(Vec::new());
    static BASE: RefCell<(usize, usize)> = RefCell::new((0, 0));
}
fn log(xs: &[u64]) { LOG.with(|l| l.borrow_mut().extend_from_slice(xs)); }
pub fn take_log() -> Vec<u64> { LOG.with(|l| std::mem::take(&mut *l.borrow_mut())) }
fn set_base(b: &[u8]) { BASE.with(|x| *x.borrow_mut() = (b.as_ptr() as usize, b.len())); }
/// the whole pushed input, for offset computations inside call-backs (it outlives every push)
fn whole<'a>() -> &'a [u8] {
    BASE.with(|x| { let (p, n) = *x.borrow(); if n == 0 { &[] } else { unsafe { std::slice::from_raw_parts(p as *const u8, n) } } })
}
/// byte offset of `s` in the whole pushed input; a slice outside it gets an impossible offset
fn goff(s: &[u8]) -> u64 {
    BASE.with(|x| { let (p, n) = *x.borrow(); let a = s.as_ptr() as usize; if a >= p && a + s.len() <= p + n { (a - p) as u64 } else { 1u64 << 40 } })
}

#[derive(Clone, Debug)]
pub enum Kind { Rec, Pes, Script(u16) }
#[derive(Clone, Debug)]
pub enum Action { Insert(u16, Kind), Remove(u16) }
pub type Scripts = HashMap<u16, Vec<Vec<Action>>>;

pub struct EsRec { serial: u64, deep: bool }
impl pes::ElementaryStreamConsumer<Ctx> for EsRec {
    fn start_stream(&mut self, _c: &mut Ctx) { log(&[3, self.serial, 0, 0]); }
    fn begin_packet(&mut self, _c: &mut Ctx, h: pes::PesHeader<'_>) {
        let mut o = vec![];
        match h.contents() {
            pes::PesContents::Payload(d) => o.extend([2, goff(d), d.len() as u64]),
            pes::PesContents::Parsed(None) => o.push(0),
            pes::PesContents::Parsed(Some(p)) => { let pl = p.payload(); o.extend([1, goff(pl), pl.len() as u64]); }
        }
        if self.deep { obs::obs_pes_header(&h, whole(), &mut o); }
        let mut v = vec![3, self.serial, 1, o.len() as u64];
        v.extend(o);
        log(&v);
    }
    fn continue_packet(&mut self, _c: &mut Ctx, d: &[u8]) { log(&[3, self.serial, 2, goff(d), d.len() as u64, 0]); }
    fn end_packet(&mut self, _c: &mut Ctx) { log(&[3, self.serial, 3, 0]); }
    fn continuity_error(&mut self, _c: &mut Ctx) { log(&[3, self.serial, 4, 0]); }
}

/// application-level wrapper so that the trace shows which packet a PES filter is consuming
pub struct PesWrap { serial: u64, inner: pes::PesPacketFilter<Ctx, EsRec> }
impl PacketFilter for PesWrap {
    type Ctx = Ctx;
    fn consume(&mut self, ctx: &mut Ctx, pk: &Packet<'_>) {
        log(&[2, self.serial, goff(pk.buffer()), 0]);
        self.inner.consume(ctx, pk);
    }
}
pub struct Rec { serial: u64, deep: bool }
impl PacketFilter for Rec {
    type Ctx = Ctx;
    fn consume(&mut self, _ctx: &mut Ctx, pk: &Packet<'_>) {
        let mut o = vec![];
        if self.deep { obs::obs_packet(pk, &mut o); }
        let mut v = vec![2, self.serial, goff(pk.buffer()), o.len() as u64];
        v.extend(o);
        log(&v);
    }
}
pub struct Script { serial: u64, id: u16, count: usize }
impl PacketFilter for Script {
    type Ctx = Ctx;
    fn consume(&mut self, ctx: &mut Ctx, pk: &Packet<'_>) {
        log(&[2, self.serial, goff(pk.buffer()), 0]);
        let acts = ctx.scripts.get(&self.id).and_then(|v| v.get(self.count)).cloned().unwrap_or_default();
        self.count += 1;
        for a in acts {
            match a {
                Action::Insert(pid, k) => { let s = ctx.serial; ctx.serial += 1; let f = ctx.mk(&k, s); ctx.changeset.insert(Pid::new(pid), f); }
                Action::Remove(pid) => ctx.changeset.remove(Pid::new(pid)),
            }
        }
    }
}

/// application-level wrappers around the library's table filters: log which packet is being consumed
pub struct PatWrap { serial: u64, inner: demultiplex::PatPacketFilter<Ctx> }
impl PacketFilter for PatWrap {
    type Ctx = Ctx;
    fn consume(&mut self, ctx: &mut Ctx, pk: &Packet<'_>) { log(&[2, self.serial, goff(pk.buffer()), 0]); self.inner.consume(ctx, pk); }
}
pub struct PmtWrap { serial: u64, inner: demultiplex::PmtPacketFilter<Ctx> }
impl PacketFilter for PmtWrap {
    type Ctx = Ctx;
    fn consume(&mut self, ctx: &mut Ctx, pk: &Packet<'_>) { log(&[2, self.serial, goff(pk.buffer()), 0]); self.inner.consume(ctx, pk); }
}

mpeg2ts_reader::packet_filter_switch! {
    Sw<Ctx> {
        Pat: PatWrap,
        Pmt: PmtWrap,
        Pes: PesWrap,
        Rec: Rec,
        Script: Script,
    }
}

pub struct Ctx { changeset: FilterChangeset<Sw>, serial: u64, deep: bool, scripts: Scripts,
                 /// an application whose construct() itself queues changes (outside the model; C07's chunking comparison only)
                 pub ctor_queues: bool }
impl Ctx {
    pub fn new(deep: bool, scripts: Scripts) -> Ctx { Ctx { changeset: FilterChangeset::default(), serial: 0, deep, scripts, ctor_queues: false } }
    fn mk(&self, k: &Kind, s: u64) -> Sw {
        match k {
            Kind::Rec => Sw::Rec(Rec { serial: s, deep: self.deep }),
            Kind::Pes => Sw::Pes(PesWrap { serial: s, inner: pes::PesPacketFilter::new(EsRec { serial: s, deep: self.deep }) }),
            Kind::Script(id) => Sw::Script(Script { serial: s, id: *id, count: 0 }),
        }
    }
}
fn is_pes_type(st: u8) -> bool { st < 128 && st != 5 }
impl DemuxContext for Ctx {
    type F = Sw;
    fn filter_changeset(&mut self) -> &mut FilterChangeset<Sw> { &mut self.changeset }
    fn construct(&mut self, req: FilterRequest<'_, '_>) -> Sw {
        let s = self.serial;
        self.serial += 1;
        if self.deep { let _ = format!("{:?}", req); }
        match req {
            FilterRequest::ByPid(p) => {
                let p = u16::from(p);
                log(&[1, s, 0, p as u64]);
                if self.ctor_queues && p != 0 {
                    // while answering the request for P, also ask for a recording handler on P^1 and for the removal of P^2
                    let s2 = self.serial; self.serial += 1;
                    let extra = self.mk(&Kind::Rec, s2);
                    self.changeset.insert(Pid::new(p ^ 1), extra);
                    self.changeset.remove(Pid::new(p ^ 2));
                }
                if p == 0 { Sw::Pat(PatWrap { serial: s, inner: demultiplex::PatPacketFilter::default() }) }
                else if self.scripts.contains_key(&p) { self.mk(&Kind::Script(p), s) }
                else { self.mk(&Kind::Rec, s) }
            }
            FilterRequest::ByStream { program_pid, stream_type, pmt, stream_info } => {
                let mut o = vec![];
                if self.deep { tobs::obs_pmt_section(pmt, &mut o); tobs::obs_stream(stream_info, pmt.buffer(), &mut o); }
                else { o.push(u16::from(pmt.pcr_pid()) as u64); }
                let st = u8::from(stream_type);
                let mut v = vec![1, s, 1, u16::from(program_pid) as u64, st as u64, u16::from(stream_info.elementary_pid()) as u64, o.len() as u64];
                v.extend(o);
                log(&v);
                if is_pes_type(st) { self.mk(&Kind::Pes, s) } else { self.mk(&Kind::Rec, s) }
            }
            FilterRequest::Pmt { pid, program_number } => {
                log(&[1, s, 2, u16::from(pid) as u64, program_number as u64]);
                Sw::Pmt(PmtWrap { serial: s, inner: demultiplex::PmtPacketFilter::new(pid, program_number) })
            }
            FilterRequest::Nit { pid } => { log(&[1, s, 3, u16::from(pid) as u64]); self.mk(&Kind::Rec, s) }
        }
    }
}

/// scripts token: "S" + entries "pid=inv|inv|..." separated by ';'; inv = actions separated by ',':
/// "i<pid>.R" / "i<pid>.P" / "i<pid>.S<id>" / "r<pid>"
pub fn parse_scripts(tok: &str) -> Scripts {
    let mut m = Scripts::new();
    let body = tok.strip_prefix('S').expect("scripts token");
    for ent in body.split(';').filter(|e| !e.is_empty()) {
        let (pid, invs) = ent.split_once('=').unwrap();
        let invs: Vec<Vec<Action>> = invs.split('|').map(|inv| inv.split(',').filter(|a| !a.is_empty()).map(|a| {
            if let Some(r) = a.strip_prefix('r') { Action::Remove(r.parse().unwrap()) }
            else { let (p, k) = a[1..].split_once('.').unwrap();
                   let k = match &k[..1] { "R" => Kind::Rec, "P" => Kind::Pes, _ => Kind::Script(k[1..].parse().unwrap()) };
                   Action::Insert(p.parse().unwrap(), k) }
        }).collect()).collect();
        m.insert(pid.parse().unwrap(), invs);
    }
    m
}

/// run the demultiplexer over the chunks (sub-slices of one contiguous buffer)
pub fn run_dmx(flags: u64, scripts: Scripts, chunks: &[Vec<u8>]) -> Vec<u64> {
    let all: Vec<u8> = chunks.concat();
    set_base(&all);
    take_log();
    let mut ctx = Ctx::new(flags & 1 != 0, scripts);
    ctx.ctor_queues = flags & 4 != 0;
    let mut d = demultiplex::Demultiplex::new(&mut ctx);
    let mut pos = 0usize;
    for c in chunks { d.push(&mut ctx, &all[pos..pos + c.len()]); pos += c.len(); }
    drop(d);
    let r = take_log();
    set_base(&[]);
    r
}

// ---- section re-assembly chain with a recording whole-section consumer (C03) ----
pub struct SecCtx;
pub struct SecRec;
fn sec_common(header: &psi::SectionCommonHeader, v: &mut Vec<u64>) {
    v.extend([header.table_id as u64, header.section_syntax_indicator as u64, header.private_indicator as u64, header.section_length as u64]);
    let _ = format!("{:?}", header);
}
thread_local! { static PKT: RefCell<(usize, usize)> = RefCell::new((0, 0)); }
fn sec_origin(data: &[u8], v: &mut Vec<u64>) {
    PKT.with(|x| { let (p, n) = *x.borrow(); let a = data.as_ptr() as usize;
        if a >= p && a + data.len() <= p + n { v.extend([1, (a - p) as u64]); } else { v.extend([0, 0]); } });
    v.push(data.len() as u64);
    v.extend(data.iter().map(|b| *b as u64));
}
impl psi::WholeSectionSyntaxPayloadParser for SecRec {
    type Context = SecCtx;
    fn section<'a>(&mut self, _: &mut SecCtx, header: &psi::SectionCommonHeader, t: &psi::TableSyntaxHeader<'a>, data: &'a [u8]) {
        let mut v = vec![];
        sec_common(header, &mut v);
        v.extend([t.id() as u64, t.version() as u64, match t.current_next_indicator() { psi::CurrentNext::Next => 0, psi::CurrentNext::Current => 1 },
                  t.section_number() as u64, t.last_section_number() as u64]);
        let _ = format!("{:?}", t);
        sec_origin(data, &mut v);
        LOG.with(|l| l.borrow_mut().push(u64::MAX));          // delivery separator, replaced by counts below
        log(&v);
    }
}
impl psi::WholeCompactSyntaxPayloadParser for SecRec {
    type Context = SecCtx;
    fn section(&mut self, _: &mut SecCtx, header: &psi::SectionCommonHeader, data: &[u8]) {
        let mut v = vec![];
        sec_common(header, &mut v);
        sec_origin(data, &mut v);
        LOG.with(|l| l.borrow_mut().push(u64::MAX));
        log(&v);
    }
}
/// flags: bit0 compact, bit1 dedup, bit2 crc  (bit3, cfg(fuzzing), is a property of the build)
pub fn run_sec(flags: u64, pkts: &[Vec<u8>]) -> Vec<u64> {
    let mut out = vec![];
    let mut ctx = SecCtx;
    take_log();
    macro_rules! drive { ($c:expr) => {{ let mut c = $c; for p in pkts {
        PKT.with(|x| *x.borrow_mut() = (p.as_ptr() as usize, p.len()));
        let pk = Packet::new(p);
        c.consume(&mut ctx, &pk);
        let l = take_log();
        out.push(l.iter().filter(|x| **x == u64::MAX).count() as u64);
        out.extend(l.into_iter().filter(|x| *x != u64::MAX));
    } }} }
    match flags & 7 {
        0 => drive!(psi::SectionPacketConsumer::new(psi::SectionSyntaxSectionProcessor::new(psi::BufferSectionSyntaxParser::new(SecRec)))),
        1 => drive!(psi::SectionPacketConsumer::new(psi::CompactSyntaxSectionProcessor::new(psi::BufferCompactSyntaxParser::new(SecRec)))),
        2 => drive!(psi::SectionPacketConsumer::new(psi::SectionSyntaxSectionProcessor::new(psi::DedupSectionSyntaxPayloadParser::new(psi::BufferSectionSyntaxParser::new(SecRec))))),
        4 => drive!(psi::SectionPacketConsumer::new(psi::SectionSyntaxSectionProcessor::new(psi::BufferSectionSyntaxParser::new(psi::CrcCheckWholeSectionSyntaxPayloadParser::new(SecRec))))),
        6 => drive!(psi::SectionPacketConsumer::new(psi::SectionSyntaxSectionProcessor::new(psi::DedupSectionSyntaxPayloadParser::new(psi::BufferSectionSyntaxParser::new(psi::CrcCheckWholeSectionSyntaxPayloadParser::new(SecRec)))))),
        f => panic!("unsupported chain configuration {}", f),
    }
    out
}

/// a PES packet filter driven directly with 188-byte packets (mirrors run_pesf)
pub fn run_pesf(flags: u64, pkts: &[Vec<u8>]) -> Vec<u64> {
    let all: Vec<u8> = pkts.concat();
    set_base(&all);
    take_log();
    let deep = flags & 1 != 0;
    let mut ctx = Ctx::new(deep, Scripts::new());
    ctx.serial = 1;
    let mut f = PesWrap { serial: 0, inner: pes::PesPacketFilter::new(EsRec { serial: 0, deep }) };
    for i in 0..pkts.len() {
        let pk = Packet::new(&all[i * 188..(i + 1) * 188]);
        f.consume(&mut ctx, &pk);
    }
    let r = take_log();
    set_base(&[]);
    r
}
