//! C06 / C18: per-PID dispatch, flagged packets, queued handler changes.
use crate::mux::*;
use crate::suites::streams::dmx_case;
use crate::util::*;

fn rand_packet(rng: &mut Rng, pid: u16, flags_p: u64, badsync_p: u64) -> Vec<u8> {
    let mut p = rng.bytes(188);
    p[0] = 0x47; p[1] = (p[1] & 0x60) | ((pid >> 8) as u8 & 0x1f); p[2] = pid as u8;
    p[3] &= 0x3f;                                    // not scrambled
    if rng.chance(flags_p, 100) { match rng.below(3) { 0 => p[1] |= 0x80, 1 => p[3] |= (rng.range(1, 3) as u8) << 6, _ => { p[1] |= 0x80; p[3] |= 0x40; } } }
    if rng.chance(badsync_p, 100) { p[0] = *rng.pick(&[0u8, 0x46, 0x48, 0xff, 0xb8]); }
    p
}

fn pid_pool(rng: &mut Rng, n: usize) -> Vec<u16> {
    let mut v: Vec<u16> = vec![];
    let special = [1u16, 0x10, 0x1ffe, 0x1fff, 0x11];
    while v.len() < n {
        // a third of the PIDs differ from one already in the pool in a single bit of the 13-bit field (any bit: the PID
        // straddles header bytes 1 and 2), so that a comparison that drops or adds a bit confuses two of them
        let p = if !v.is_empty() && rng.chance(1, 3) { let q = *rng.pick(&v); q ^ (1u16 << rng.below(13)) }
                else if rng.chance(1, 3) { *rng.pick(&special) } else { rng.range(1, 0x1fff) as u16 };
        if p != 0 && !v.contains(&p) { v.push(p); } }
    v
}

fn script_token(rng: &mut Rng, pool: &[u16], heavy: bool) -> String {
    let mut s = String::new();
    let nscripts = if heavy { rng.range(1, 3) } else { rng.below(2) } as usize;
    for k in 0..nscripts.min(pool.len()) {
        let pid = pool[k];
        if !s.is_empty() { s.push(';'); }
        s.push_str(&format!("{}=", pid));
        let ninv = rng.range(1, 6);
        for i in 0..ninv {
            if i > 0 { s.push('|'); }
            let nact = rng.below(4);
            for a in 0..nact {
                if a > 0 { s.push(','); }
                let target = if rng.chance(1, 4) { pid } else if rng.chance(2, 3) { *rng.pick(pool) } else { rng.range(1, 0x1fff) as u16 };
                if rng.chance(1, 2) { s.push_str(&format!("r{}", target)); }
                else { let k = match rng.below(4) { 0 => "P".to_string(), 1 => format!("S{}", pool[rng.below(nscripts.min(pool.len()) as u64) as usize]), _ => "R".to_string() }; s.push_str(&format!("i{}.{}", target, k)); }
            }
        }
    }
    s
}

/// a short stream over a small PID pool with scripted handlers (for the chunking suite): (scripts token, packets)
pub fn scripted_stream(rng: &mut Rng, minp: usize, maxp: usize) -> (String, Vec<Vec<u8>>) {
    let np = rng.range(2, 3) as usize;
    let pool = pid_pool(rng, np);
    let scripts = script_token(rng, &pool, true);
    let n = rng.range(minp as u64, maxp as u64) as usize;
    let mut pk: Vec<Vec<u8>> = vec![];
    while pk.len() < n {
        let pid = *rng.pick(&pool);
        let run = if rng.chance(1, 2) { rng.range(2, 4) } else { 1 } as usize;
        for _ in 0..run { if pk.len() < n { pk.push(rand_packet(rng, pid, 20, 4)); } }
    }
    (scripts, pk)
}

pub fn gen(tier: &str, seed: u64, emit: &mut dyn FnMut(String)) { gen_with(tier, seed, false, emit) }
pub fn gen_c18(tier: &str, seed: u64, emit: &mut dyn FnMut(String)) { gen_with(tier, seed ^ 0x18, true, emit) }

fn gen_with(tier: &str, seed: u64, heavy_scripts: bool, emit: &mut dyn FnMut(String)) {
    let mut rng = Rng::new(seed ^ 0xC06);
    let big = tier == "thorough";
    for _ in 0..(if big { 60000 } else { 5000 }) {
        let np = rng.range(2, 6) as usize;
        let pool = pid_pool(&mut rng, np);
        let scripts = if heavy_scripts || rng.chance(1, 4) { script_token(&mut rng, &pool, heavy_scripts) } else { String::new() };
        let n = rng.range(1, 60) as usize;
        let mut pk: Vec<Vec<u8>> = vec![];
        while pk.len() < n {
            let pid = *rng.pick(&pool);
            let run = if rng.chance(1, 3) { rng.range(2, 12) } else { 1 } as usize;
            for _ in 0..run { let bs = if rng.chance(1, 3) { 6 } else { 0 }; pk.push(rand_packet(&mut rng, pid, 15, bs)); }
        }
        // chunk into pushes at packet boundaries now and then
        let mut chunks: Vec<Vec<u8>> = vec![]; let mut cur: Vec<u8> = vec![];
        for p in pk { cur.extend(p); if rng.chance(1, 6) { chunks.push(std::mem::take(&mut cur)); } }
        chunks.push(cur);
        emit(dmx_case(0, &scripts, &chunks));
    }
    if !heavy_scripts {
        // table-driven registrations colliding with the tables' own PIDs: a program map listing its own PID / PID 0 / the null
        // PID as an elementary stream, a PAT pointing at PID 0; then packets on every PID involved
        for v in 0..(if big { 200 } else { 24 }) {
            let pool = pid_pool(&mut rng, 4);
            let (p, a) = (pool[0], pool[1]);
            let mut m = Mux::new();
            let pat = section(0, 1, rng.below(32) as u8, true, &pat_body(&[(1, if v % 6 == 5 { 0 } else { p })], &mut rng));
            let own = match v % 3 { 0 => p, 1 => 0, _ => 0x1fff };
            let streams: Vec<(u8, u16, Vec<u8>)> = vec![(0x1b, a, vec![]), (0x0f, own, vec![]), (0x1b, pool[2], vec![])];
            let pmt = section(2, 1, rng.below(32) as u8, true, &pmt_body(a, &[], &streams, &mut rng));
            m.psi(0, &pat, 0, 0, &mut rng); m.psi(p, &pmt, 0, 0, &mut rng);
            for _ in 0..rng.range(4, 12) { let pid = *rng.pick(&[p, a, own, pool[2], pool[3], 0u16]); let pl = rng.bytes(184); m.data_packet(pid, false, &pl, &mut rng); }
            m.psi(p, &pmt, 0, 0, &mut rng); m.psi(0, &pat, 0, 0, &mut rng);
            for pid in [p, a, own, pool[2]] { let pl = rng.bytes(184); m.data_packet(pid, false, &pl, &mut rng); }
            emit(dmx_case(0, "", &[m.bytes()]));
        }
        // a PID changing roles over time: announced as a program-map PID, dropped by the next PAT, announced as an elementary
        // stream by another program's map, then the PAT changes once more
        for _ in 0..(if big { 100 } else { 12 }) {
            let pool = pid_pool(&mut rng, 5);
            let (p, x, a) = (pool[0], pool[1], pool[2]);
            let mut m = Mux::new();
            let v0 = rng.below(32) as u8;
            let pat0 = section(0, 1, v0, true, &pat_body(&[(1, p), (2, x)], &mut rng));
            let pat1 = section(0, 1, (v0 + 1) & 31, true, &pat_body(&[(1, p)], &mut rng));
            let pat2 = section(0, 1, (v0 + 2) & 31, true, &pat_body(&[(1, p), (0, pool[3])], &mut rng));
            let pmt0 = section(2, 1, 3, true, &pmt_body(a, &[], &[(0x1b, a, vec![])], &mut rng));
            let pmt1 = section(2, 1, 4, true, &pmt_body(a, &[], &[(0x1b, a, vec![]), (0x0f, x, vec![])], &mut rng));
            let probe = |m: &mut Mux, pid: u16, rng: &mut Rng| { let pl = rng.bytes(184); m.data_packet(pid, false, &pl, rng); };
            m.psi(0, &pat0, 0, 0, &mut rng); m.psi(p, &pmt0, 0, 0, &mut rng); probe(&mut m, x, &mut rng); probe(&mut m, a, &mut rng);
            m.psi(0, &pat1, 0, 0, &mut rng); probe(&mut m, x, &mut rng);
            m.psi(p, &pmt1, 0, 0, &mut rng); probe(&mut m, x, &mut rng);
            m.psi(0, &pat2, 0, 0, &mut rng); probe(&mut m, x, &mut rng); probe(&mut m, a, &mut rng); probe(&mut m, pool[3], &mut rng);
            emit(dmx_case(0, "", &[m.bytes()]));
        }
    }
    if heavy_scripts {
        // one invocation queueing hundreds of requests (more than any fixed-size queue a table could need): inserts then
        // removes, many requests for one PID, alternating insert / remove
        for v in 0..(if big { 24 } else { 8 }) {
            let pool = pid_pool(&mut rng, 3);
            let n = if v % 4 == 3 { *rng.pick(&[8191usize, 8192, 8193, 9000]) } else { *rng.pick(&[255usize, 256, 257, 300, 513]) };
            let mut acts: Vec<String> = vec![];
            match (if n > 7000 { 3 } else { v % 4 }) {
                // the FIRST request is the one that matters: an insert followed by n requests about another PID
                3 => { acts.push(format!("i{}.P", pool[2])); for k in 0..n { if k % 3 == 0 { acts.push(format!("i{}.R", pool[1])); } else { acts.push(format!("r{}", pool[1])); } } }
                0 => { for k in 0..n { acts.push(format!("i{}.R", 0x400 + k)); } for k in 0..n { if k % 2 == 0 { acts.push(format!("r{}", 0x400 + k)); } } }
                1 => { for k in 0..n { acts.push(format!("i{}.{}", pool[1], if k % 2 == 0 { "R" } else { "P" })); } }
                _ => { for k in 0..n { if k % 2 == 0 { acts.push(format!("i{}.R", pool[1])); } else { acts.push(format!("r{}", pool[1])); } } acts.push(format!("i{}.P", pool[2])); }
            }
            let scripts = format!("{}={}", pool[0], acts.join(","));
            let mut pk: Vec<Vec<u8>> = vec![rand_packet(&mut rng, pool[0], 0, 0)];
            for k in [0x400u16, 0x401, 0x402, (0x400 + n - 1).min(0x1ffe) as u16, pool[1], pool[2], pool[0]] { pk.push(rand_packet(&mut rng, k, 0, 0)); }
            let chunks: Vec<Vec<u8>> = vec![pk.concat()];
            emit(dmx_case(0, &scripts, &chunks));
        }
    }
    if big && !heavy_scripts {
        // one packet on each of the 8192 PIDs, ascending and descending
        // (pushed 61 packets at a time: the model's cost per push is quadratic in the buffer length)
        for order in 0..2 { let mut chunks: Vec<Vec<u8>> = vec![]; let mut cur = vec![];
            for i in 1..0x2000u16 { let pid = if order == 0 { i } else { 0x2000 - i }; cur.extend(rand_packet(&mut rng, pid, 0, 0)); if i % 61 == 0 { chunks.push(std::mem::take(&mut cur)); } }
            chunks.push(cur); emit(dmx_case(0, "", &chunks)); }
    }
    let _ = ts_packet;
}
