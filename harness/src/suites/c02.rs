//! C02: elementary stream bytes delivered exactly once, in order (valid streams with ground truth).
use crate::suites::streams::*;
use crate::util::*;

pub fn gen(tier: &str, seed: u64, emit: &mut dyn FnMut(String)) {
    let mut rng = Rng::new(seed ^ 0xC02);
    BIG_PES.store(true, std::sync::atomic::Ordering::Relaxed);
    let n = if tier == "thorough" { 12000 } else { 1200 };
    for i in 0..n {
        let nprog = 1 + (i % 4) as usize;
        let (m, t, _p) = valid_stream(&mut rng, nprog, 1 + (i % 5) as usize, i % 3 != 0);
        // pushes cut at packet boundaries now and then
        let mut chunks: Vec<Vec<u8>> = vec![]; let mut cur: Vec<u8> = vec![];
        for p in m.pkts.iter() { cur.extend_from_slice(p); if rng.chance(1, 25) || cur.len() >= 188 * 48 { chunks.push(std::mem::take(&mut cur)); } }
        chunks.push(cur);
        let mut line = dmx_case((i % 2) as u64, "", &chunks);
        for (pid, list) in t.pes.iter() {
            line.push_str(&format!(" #P{}=", pid));
            for (k, (sid, pts, dts, pl)) in list.iter().enumerate() {
                if k > 0 { line.push(';'); }
                line.push_str(&format!("{}:{}:{}:{}", sid, pts.map(|x| x as i64).unwrap_or(-1), dts.map(|x| x as i64).unwrap_or(-1), hex(pl)));
            }
        }
        emit(line);
    }
}
