//! Correspondence harness: runs the real crate (path dependency on /repo) on generated cases and
//! writes, line-aligned, the cases and what the implementation did.
mod obs;
mod suites;
mod util;

fn main() {
    let a: Vec<String> = std::env::args().collect();
    if a.len() < 5 {
        eprintln!("usage: verif-harness <suite> <quick|thorough> <seed> <outdir> [extra]");
        std::process::exit(2);
    }
    std::panic::set_hook(Box::new(|_| {}));
    let (suite, tier, seed, dir) = (a[1].as_str(), a[2].as_str(), a[3].parse::<u64>().unwrap(), a[4].as_str());
    match suite {
        "C12" => suites::c12::run(tier, seed, dir),
        _ => { eprintln!("unknown suite {}", suite); std::process::exit(2); }
    }
}
