(* Spec/CrcSpec.v — ISO/IEC 13818-1 Annex A: CRC decoder model.  A 32-bit shift register, preset to
   all ones, clocked once per message bit (MSB of each byte first); generator polynomial
   x^32+x^26+x^23+x^22+x^16+x^12+x^11+x^10+x^8+x^7+x^5+x^4+x^2+x+1; no final complement. *)
From Coq Require Import List NArith Bool.
Import ListNotations.
Open Scope N_scope.

Definition M32 : N := 4294967296.
Definition POLY : N := 79764919.        (* 0x04C11DB7 *)
Definition TOP : N := 2147483648.       (* 2^31 *)

(* clock the register with a zero input bit *)
Definition step0 (r : N) : N :=
  N.lxor ((2 * r) mod M32) (if N.testbit r 31 then POLY else 0).
(* clock the register with input bit b: the input is added to the register's top bit *)
Definition step (r : N) (b : bool) : N := step0 (N.lxor r (if b then TOP else 0)).
Definition run (r : N) (bits : list bool) : N := fold_left step bits r.

Definition bits_of_byte (d : N) : list bool :=
  [N.testbit d 7; N.testbit d 6; N.testbit d 5; N.testbit d 4; N.testbit d 3; N.testbit d 2; N.testbit d 1; N.testbit d 0].
Definition bits_of (data : list N) : list bool := flat_map bits_of_byte data.

Definition s_crc (data : list N) : N := run 4294967295 (bits_of data).

(* the four CRC_32 bytes as transmitted (most significant first) *)
Definition be32 (r : N) : list N := [r / 16777216; (r / 65536) mod 256; (r / 256) mod 256; r mod 256].

(* bitwise xor of two byte strings of equal length (an error pattern applied to a message) *)
Fixpoint xor_bytes (a b : list N) : list N :=
  match a, b with x :: a', y :: b' => N.lxor x y :: xor_bytes a' b' | _, _ => [] end.
