(* Props/C05.v — C05: packet routing follows the latest valid PAT and PMTs. *)
From TS Require Import Base.Res Model.Timestamp Model.Packet Model.Tables Model.PesFilter Model.Crc Model.Psi Model.Demux Model.DemuxObs
  Spec.TablesSpec Spec.Dispatch Proofs.SectionProofs Proofs.DispatchProofs Proofs.TableProofs Proofs.TotalityProofs Proofs.RoutingProofs Proofs.Witnesses.
Open Scope N_scope.

(* applying a PAT: one request per entry in table order (Pmt{pid, program_number} / Nit{pid}), each answer
   queued for insertion under the entry's PID; the PIDs listed become the registered set *)
Theorem C05_pat_entries : forall policy progs cx seen reg, pids_ok progs ->
  pat_entries policy cx seen reg progs =
  Ok (fst (s_pat_apply policy cx progs),
      fold_left (fun s d => bs_insert (pd_pid d) s) progs seen,
      fold_left (fun s d => bs_insert (pd_pid d) s) progs reg,
      snd (s_pat_apply policy cx progs)).
Proof. exact pat_entries_spec. Qed.
Print Assumptions C05_pat_entries.

(* ... then a Remove is queued for every PID of the previous set that the new version dropped *)
Theorem C05_remove_outdated : forall pids cx, Forall (fun p => p <= 8191) pids ->
  queue_removes cx pids = Ok {| cx_changes := cx_changes cx ++ map ChRemove pids; cx_serial := cx_serial cx |}.
Proof. exact queue_removes_spec. Qed.
Print Assumptions C05_remove_outdated.

(* the queued changes are in force for the very next transport packet: the real loop is the per-packet
   dispatcher, which applies the whole queue after the packet that completed the section (C06 / C18) *)
Theorem C05_takes_effect : forall policy scripts fuzzing deep pkts fs cx cached, cache_ok fs cached ->
  push_loop policy scripts fuzzing deep fs cx cached pkts = spec_push policy scripts fuzzing deep fs cx pkts.
Proof. exact c06_refines. Qed.
Print Assumptions C05_takes_effect.

Theorem C05_apply : forall cs fs, wf fs -> exists fs', apply_changes fs cs = Ok fs' /\ wf fs' /\
  forall p, filters_get fs' p = match last_change cs p with Some x => x | None => filters_get fs p end.
Proof. exact apply_changes_spec. Qed.
Print Assumptions C05_apply.

(* ---- end to end, from the bytes of one transport packet to the handler table ----
   One packet on a PMT PID (pointer_field 0) carrying a whole program-map section S with a correct CRC whose version
   differs from the one remembered, dispatched by the real loop (C05_takes_effect) against ANY well-formed table [fs]
   and ANY state [c] of that PID's section chain (whatever earlier transmissions left behind):
   - every PID the new version lists is afterwards handled by the handler the application built from the request
     naming that PID, its stream type and the owning program map (the last entry wins when a PID is listed twice); the
     request also carries what the application noted of the PmtSection / StreamInfo it was handed ([pmt_obs]: the PCR PID,
     or every accessor's value when deep = true);
   - every PID the previous version of this map had installed and the new one drops has no handler any more;
   - every other PID is untouched; the change is in force for the very next packet (the queue is empty again). *)
Theorem C05_pmt_version_routes : forall policy scripts deep fs cx i pk P s (c : chain pmt_state) poff S rest v,
  wf fs -> cx_changes cx = nil -> pkt_pid pk = Ok P -> filters_get fs P = Some (HPmt s c) -> unflagged pk ->
  pkt_payload pk = Ok (Some (poff, 0 :: S ++ rest)) -> pkt_payload_unit_start_indicator pk = Ok true ->
  intact_section S rest 2 v -> dd_last_version c <> Some v ->
  reg_ok (pmt_registered (in_state c)) -> s_pmt_accept (sect_body S) = ROk (sect_body S) ->
  let ps := in_state c in
  let body := sect_body S in
  let ss := pmt_streams_of body in
  exists fs' c' ev,
    spec_packet policy scripts false deep fs cx (i, pk) =
      Ok (fs', {| cx_changes := nil; cx_serial := cx_serial cx + N.of_nat (length ss) |}, ev) /\
    wf fs' /\ dd_last_version c' = Some v /\
    forall p,
      let lst := existsb (fun d => p =? s_elementary_pid (si_data d)) ss in
      (lst = true -> exists k st, nth_error ss k = Some st /\ s_elementary_pid (si_data st) = p /\
         filters_get fs' p = Some (mk_handler (policy (RqByStream (pmt_pid ps) (s_stream_type (si_data st)) p (pmt_obs deep body st)))
                                              (cx_serial cx + N.of_nat k))) /\
      (lst = false -> bs_mem p (pmt_registered ps) = true -> filters_get fs' p = None) /\
      (lst = false -> bs_mem p (pmt_registered ps) = false -> filters_get fs' p = filters_get (set_slot fs P (Some (HPmt s c'))) p).
Proof. exact pmt_version_routes. Qed.
Print Assumptions C05_pmt_version_routes.

(* the same for a PAT version: program-map PIDs requested with the announced program number, network entries as NIT PIDs *)
Theorem C05_pat_version_routes : forall policy scripts deep fs cx i pk P s (c : chain pat_state) poff S rest v,
  wf fs -> cx_changes cx = nil -> pkt_pid pk = Ok P -> filters_get fs P = Some (HPat s c) -> unflagged pk ->
  pkt_payload pk = Ok (Some (poff, 0 :: S ++ rest)) -> pkt_payload_unit_start_indicator pk = Ok true ->
  intact_section S rest 0 v -> dd_last_version c <> Some v ->
  reg_ok (pat_registered (in_state c)) ->
  let ps := in_state c in
  let progs := s_pat (sect_body S) in
  exists fs' c' ev,
    spec_packet policy scripts false deep fs cx (i, pk) =
      Ok (fs', {| cx_changes := nil; cx_serial := cx_serial cx + N.of_nat (length progs) |}, ev) /\
    wf fs' /\ dd_last_version c' = Some v /\
    forall p,
      let lst := existsb (fun d => p =? pd_pid d) progs in
      (lst = true -> exists k d, nth_error progs k = Some d /\ pd_pid d = p /\
         filters_get fs' p = Some (mk_handler (policy (req_of_pd d)) (cx_serial cx + N.of_nat k))) /\
      (lst = false -> bs_mem p (pat_registered ps) = true -> filters_get fs' p = None) /\
      (lst = false -> bs_mem p (pat_registered ps) = false -> filters_get fs' p = filters_get (set_slot fs P (Some (HPat s c'))) p).
Proof. exact pat_version_routes. Qed.
Print Assumptions C05_pat_version_routes.

(* the hypotheses are met by the PMT packet of the F7 witness stream (second packet: PID 0x100, 26-byte section, version 0) *)
Example C05_version_routes_nonvacuous :
  let pk := firstn 188 (skipn 188 wit_F7) in
  let S := firstn 26 (skipn 5 pk) in
  let rest := skipn 31 pk in
  pkt_pid pk = Ok 256 /\ unflagged pk /\ pkt_payload pk = Ok (Some (4%nat, 0 :: S ++ rest)) /\
  pkt_payload_unit_start_indicator pk = Ok true /\ intact_section S rest 2 0 /\
  s_pmt_accept (sect_body S) = ROk (sect_body S) /\ length (pmt_streams_of (sect_body S)) = 2%nat.
Proof.
  cbv zeta. split; [vm_compute; reflexivity|]. split.
  { split; [vm_compute; reflexivity|]. eexists. split; vm_compute; reflexivity. }
  split; [vm_compute; reflexivity|]. split; [vm_compute; reflexivity|]. split.
  { unfold intact_section. split.
    - apply Forall_forall. intros x Hx. apply N.ltb_lt.
      revert x Hx. apply Forall_forall. vm_compute. repeat constructor.
    - repeat split; try (vm_compute; reflexivity); apply PeanoNat.Nat.leb_le; vm_compute; reflexivity. }
  split; vm_compute; reflexivity.
Qed.

(* KNOWN FINDING F7 (refutation witness): programs 1 and 2 both list elementary PID 0x300; a new version of
   PMT 1 drops it and thereby removes the handler program 2's PMT installed (serial 5): the next packet on
   0x300 is offered as an unannounced PID (request with serial 7). *)
Theorem C05_F7_refuted : run_dmx 0 [] [wit_F7] = Some wit_F7_trace.
Proof. vm_compute. reflexivity. Qed.
Print Assumptions C05_F7_refuted.

(* KNOWN FINDING F8 (refutation witness): a PAT version change re-creates the PMT handler with empty
   book-keeping; the next PMT version drops PID 0x102 but no Remove is queued: the last packet on 0x102 still
   goes to the old handler (serial 3). *)
Theorem C05_F8_refuted : run_dmx 0 [] [wit_F8a] = Some wit_F8a_trace.
Proof. vm_compute. reflexivity. Qed.
Print Assumptions C05_F8_refuted.
