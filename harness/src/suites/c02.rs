//! C02: elementary stream bytes delivered exactly once, in order (valid streams with ground truth).
use crate::suites::streams::*;
use crate::util::*;

pub fn gen(tier: &str, seed: u64, emit: &mut dyn FnMut(String)) {
    let mut rng = Rng::new(seed ^ 0xC02);
    BIG_PES.store(true, std::sync::atomic::Ordering::Relaxed);
    let n = if tier == "thorough" { 12000 } else { 1200 };
    for i in 0..n {
        if i % 40 == 7 { emit(moving_pid_case(&mut rng)); continue; }
        let nprog = 1 + (i % 4) as usize;
        let (m, t, _p) = valid_stream(&mut rng, nprog, 1 + (i % 5) as usize, i % 3 != 0);
        // pushes cut at packet boundaries now and then
        let mut chunks: Vec<Vec<u8>> = vec![]; let mut cur: Vec<u8> = vec![];
        for p in m.pkts.iter() { cur.extend_from_slice(p); if rng.chance(1, 25) || cur.len() >= 188 * 48 { chunks.push(std::mem::take(&mut cur)); } }
        chunks.push(cur);
        let mut line = dmx_case((i % 2) as u64, "", &chunks);
        for (pid, list) in t.pes.iter() {
            line.push_str(&format!(" #P{}=", pid));
            for (k, (sid, pts, dts, pl)) in list.iter().enumerate() {
                if k > 0 { line.push(';'); }
                line.push_str(&format!("{}:{}:{}:{}", sid, pts.map(|x| x as i64).unwrap_or(-1), dts.map(|x| x as i64).unwrap_or(-1), hex(pl)));
            }
        }
        emit(line);
    }
}

/// an elementary PID that moves from one program to another while its stream goes on: program A drops X, program B announces
/// X, program A changes once more; between the table changes whole PES packets travel on X (each starting after the change
/// that precedes it), and every one of them must be delivered
fn moving_pid_case(rng: &mut Rng) -> String {
    use crate::mux::*;
    let pids = pick_pids(rng, 6);
    let (pa, pb, x, a1, b1) = (pids[0], pids[1], pids[2], pids[3], pids[4]);
    let mut m = Mux::new();
    let pat = section(0, 1, rng.below(32) as u8, true, &pat_body(&[(1, pa), (2, pb)], rng));
    let mut va = rng.below(32) as u8; let mut vb = rng.below(32) as u8;
    let pmt = |pn: u16, v: u8, ss: &[(u8, u16)], rng: &mut Rng| { let l: Vec<(u8, u16, Vec<u8>)> = ss.iter().map(|(t, p)| (*t, *p, vec![])).collect(); section(2, pn, v, true, &pmt_body(ss[0].1, &[], &l, rng)) };
    let mut truth: Vec<(u8, Option<u64>, Option<u64>, Vec<u8>)> = vec![];
    let mut pes = |m: &mut Mux, truth: &mut Vec<(u8, Option<u64>, Option<u64>, Vec<u8>)>, rng: &mut Rng| {
        for _ in 0..rng.range(1, 3) {
            let n = rng.range(0, 500) as usize; let payload = rng.bytes(n); let pts = rng.below(1 << 33);
            let spec = PesSpec { stream_id: 0xe0, pts: Some(pts), dts: None, extra_hdr: 0, bounded: true, payload: payload.clone(), opt_flags: 0, opt_fill: vec![0xff] };
            let (bytes, hl) = pes_packet(&spec); m.unit(x, &bytes, 0, hl, rng);
            truth.push((0xe0, Some(pts), None, payload));
        }
    };
    m.psi(0, &pat, 0, 0, rng);
    m.psi(pa, &pmt(1, va, &[(0x1b, a1), (0x1b, x)], rng), 0, 0, rng);
    m.psi(pb, &pmt(2, vb, &[(0x0f, b1)], rng), 0, 0, rng);
    pes(&mut m, &mut truth, rng);
    va = (va + 1) & 31; m.psi(pa, &pmt(1, va, &[(0x1b, a1)], rng), 0, 0, rng);                       // A drops X
    vb = (vb + 1) & 31; m.psi(pb, &pmt(2, vb, &[(0x0f, b1), (0x1b, x)], rng), 0, 0, rng);           // B announces X
    pes(&mut m, &mut truth, rng);
    va = (va + 1) & 31; m.psi(pa, &pmt(1, va, &[(0x1b, a1), (0x0f, pids[5])], rng), 0, 0, rng);     // A changes again
    pes(&mut m, &mut truth, rng);
    let mut line = dmx_case(0, "", &[m.bytes()]);
    line.push_str(&format!(" #P{}=", x));
    for (k, (sid, pts, dts, pl)) in truth.iter().enumerate() {
        if k > 0 { line.push(';'); }
        line.push_str(&format!("{}:{}:{}:{}", sid, pts.map(|v| v as i64).unwrap_or(-1), dts.map(|v| v as i64).unwrap_or(-1), hex(pl)));
    }
    line
}
