(* Props/C17.v — C17: descriptor loops iterate exactly and typed descriptors decode exactly. *)
From TS Require Import Base.Res Base.Bits Model.Descriptor Spec.DescriptorSpec Proofs.DescriptorProofs.
Open Scope N_scope.

(* iteration terminates (fuel is never exhausted) and yields, in order, one item per complete
   descriptor with exactly its tag and payload (or the typed NotEnoughData error), followed by
   exactly one error item iff trailing bytes remain that hold no complete descriptor *)
Theorem C17_iter : forall (ds : list sdesc) (tail : list N) (base : nat), tags_ok ds -> no_complete_desc tail ->
  descriptors base (enc_loop ds ++ tail) = Ok (s_items base ds ++ s_tail_item tail).
Proof. exact c17_iter. Qed.
Print Assumptions C17_iter.

(* every byte string is such a concatenation: the characterisation is total *)
Theorem C17_decompose : forall b : list N, bytes_ok b ->
  exists ds tail, b = enc_loop ds ++ tail /\ tags_ok ds /\ no_complete_desc tail /\
                  Forall (fun d => (length (snd d) <= 255)%nat) ds.
Proof. exact c17_decompose. Qed.
Print Assumptions C17_decompose.

(* every tag value 0..=255 maps to the variant Table 2-45 documents *)
Theorem C17_tags : forall tag, tag < 256 -> core_variant tag = s_variant tag.
Proof. exact c17_tags. Qed.
Print Assumptions C17_tags.

Theorem C17_registration : forall p : list N, (4 <= length p)%nat ->
  reg_format_identifier p = Ok (firstn 4 p) /\ reg_additional_info p = Ok (skipn 4 p).
Proof. exact c17_registration. Qed.
Print Assumptions C17_registration.

Theorem C17_languages : forall p : list N, languages p = Ok (s_languages (S (length p)) p).
Proof. exact c17_languages. Qed.
Print Assumptions C17_languages.

Theorem C17_max_bitrate : forall p : list N, (3 <= length p)%nat -> bytes_ok p ->
  maxbr_maximum_bitrate p = Ok (s_max_bitrate p) /\
  maxbr_bits_per_second p = Ok (s_max_bitrate p * 400) /\ s_max_bitrate p * 400 < 4294967296.
Proof. exact c17_max_bitrate. Qed.
Print Assumptions C17_max_bitrate.

Theorem C17_avc : forall p : list N, (4 <= length p)%nat -> bytes_ok p -> avc_fields p = Ok (s_avc_fields p).
Proof. exact c17_avc. Qed.
Print Assumptions C17_avc.

Example C17_nonvacuous :
  descriptors 0 (enc_loop [(5, [67; 85; 69; 73; 9]); (10, [101; 110; 103; 1]); (14, [1; 2])] ++ [200; 9; 1]) =
  Ok [ROk {| d_variant := 4; d_tag := 5; d_off := 2; d_payload := [67; 85; 69; 73; 9] |};
      ROk {| d_variant := 9; d_tag := 10; d_off := 9; d_payload := [101; 110; 103; 1] |};
      RErr (DNotEnoughData 14 2 3);
      RErr (DNotEnoughData 200 1 9)].
Proof. vm_compute. reflexivity. Qed.
