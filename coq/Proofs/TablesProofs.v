(* Proofs/TablesProofs.v — C16: PAT and PMT bodies, section headers. *)
From Coq Require Import List NArith Lia ZArith ZifyN ZifyNat ZifyBool Bool.
From TS Require Import Base.Res Base.ListX Base.Bits Model.Timestamp Model.Packet Model.Descriptor Model.Tables Model.Crc Model.Psi
  Spec.TablesSpec Proofs.PacketProofs Proofs.PesProofs.
Import ListNotations.
Open Scope N_scope.
Ltac Zify.zify_post_hook ::= Z.div_mod_to_equations.

Lemma len12_fact a b : a < 256 -> b < 256 -> N.lor (N.shiftl (N.land a 15) 8) b = field [a; b] 4 12.
Proof. intros Ha Hb. apply N.eqb_eq. sweep2 a b Ha Hb. Qed.
Lemma pid13_lt a b : a < 256 -> b < 256 -> field [a; b] 3 13 <=? 8191 = true.
Proof. intros Ha Hb. sweep2 a b Ha Hb. Qed.

Ltac fb := repeat (apply Forall_cons; [unfold is_byte; assumption|]); apply Forall_nil.

Lemma bytes4 a b c d : bytes_ok [a; b; c; d] -> a < 256 /\ b < 256 /\ c < 256 /\ d < 256.
Proof.
  intros H. repeat match goal with H : bytes_ok (_ :: _) |- _ => inversion H; clear H; subst end.
  repeat match goal with H : Forall _ (_ :: _) |- _ => inversion H; clear H; subst end. repeat split; assumption.
Qed.

(* ---- PAT ---- *)
Lemma pd_from_bytes_spec a b c d : bytes_ok [a; b; c; d] -> pd_from_bytes [a; b; c; d] = Ok (s_pat_entry [a; b; c; d]).
Proof.
  intros Hok. destruct (bytes4 _ _ _ _ Hok) as (Ha & Hb & Hc & Hd).
  unfold pd_from_bytes, s_pat_entry. cbn [idx nth_error bind].
  assert (E1 : field [a; b; c; d] 0 16 = field [a; b] 0 16).
  { change [a; b; c; d] with ([] ++ [a; b] ++ [c; d]). change 0 with (nbits [] + 0) at 1.
    apply field_window; [fb|fb|cbn; lia]. }
  assert (E2 : field [a; b; c; d] 19 13 = field [c; d] 3 13).
  { change [a; b; c; d] with ([a; b] ++ [c; d] ++ []). change 19 with (nbits [a; b] + 3).
    apply field_window; [fb|fb|cbn; lia]. }
  rewrite E1, E2. rewrite (pid_fact c d Hc Hd). rewrite (len16_fact a b Ha Hb).
  unfold pid_new, assert. rewrite (pid13_lt c d Hc Hd). cbn [bind]. reflexivity.
Qed.

Lemma pat_iter_spec fuel : forall body, bytes_ok body -> (length body < fuel)%nat ->
  pat_iter fuel body = Ok (s_pat body).
Proof.
  induction fuel as [|fuel IH]; intros body Hok Hl; [lia|]. cbn [pat_iter].
  destruct body as [|a [|b [|c [|d rest]]]]; try reflexivity.
  change (Nat.eqb (length (a :: b :: c :: d :: rest)) 0) with false.
  change (Nat.ltb (length (a :: b :: c :: d :: rest)) 4) with false. cbv iota.
  unfold split_at. change (Nat.leb 4 (length (a :: b :: c :: d :: rest))) with true. cbv iota. cbn [bind fst snd firstn skipn].
  rewrite pd_from_bytes_spec by (apply (Forall_firstn _ _ 4) in Hok; exact Hok). cbn [bind].
  rewrite IH; [reflexivity| apply (Forall_skipn _ _ 4) in Hok; exact Hok | cbn [length] in Hl; lia].
Qed.
Lemma c16_pat body : bytes_ok body -> pat_programs body = Ok (s_pat body).
Proof. intros. apply pat_iter_spec; [assumption|lia]. Qed.

Lemma groups4_length b : length (groups4 b) = (length b / 4)%nat.
Proof.
  assert (H : forall n b, (length b <= n)%nat -> length (groups4 b) = (length b / 4)%nat).
  { induction n as [|n IH]; intros b' Hl.
    - destruct b'; [reflexivity|cbn in Hl; lia].
    - destruct b' as [|x [|y [|z [|w rest]]]]; try reflexivity.
      cbn [groups4 length]. rewrite IH by (cbn [length] in Hl; lia).
      replace (S (S (S (S (length rest))))) with (1 * 4 + length rest)%nat by lia.
      rewrite Nat.div_add_l by lia. lia. }
  apply (H (length b)). lia.
Qed.

(* ---- PMT ---- *)
Lemma body4 (b : list N) : (4 <= length b)%nat -> exists x0 x1 x2 x3 r, b = x0 :: x1 :: x2 :: x3 :: r.
Proof. intros H. destruct b as [|x0 [|x1 [|x2 [|x3 r]]]]; cbn in H; try lia. eauto 6. Qed.

Lemma pil_spec b : bytes_ok b -> (4 <= length b)%nat -> pmt_program_info_length b = Ok (s_program_info_length b).
Proof.
  intros Hok Hl. destruct (body4 b Hl) as (x0 & x1 & x2 & x3 & r & ->).
  unfold pmt_program_info_length, s_program_info_length. cbn [idx nth_error bind]. do 2 f_equal.
  assert (H2 : x2 < 256 /\ x3 < 256).
  { repeat match goal with H : bytes_ok (_ :: _) |- _ => inversion H; clear H; subst end.
    repeat match goal with H : Forall _ (_ :: _) |- _ => inversion H; clear H; subst end. split; assumption. }
  change 20 with (8 * N.of_nat 2 + 4). rewrite (field_nth2 _ 2 x2 x3 4 12 Hok eq_refl eq_refl) by lia.
  apply len12_fact; tauto.
Qed.

Lemma c16_pmt_accept b : bytes_ok b -> pmt_from_bytes b = Ok (s_pmt_accept b).
Proof.
  intros Hok. unfold pmt_from_bytes, s_pmt_accept, PMT_HEADER_SIZE.
  destruct (Nat.ltb_spec (length b) 4) as [Hs|Hl]; [reflexivity|].
  rewrite pil_spec by assumption. cbn [bind].
  destruct (Nat.ltb (length b) (s_program_info_length b + 4)); reflexivity.
Qed.

Lemma c16_pcr_pid b : bytes_ok b -> (4 <= length b)%nat -> pmt_pcr_pid b = Ok (s_pcr_pid b) /\ s_pcr_pid b <= 8191.
Proof.
  intros Hok Hl. destruct (body4 b Hl) as (x0 & x1 & x2 & x3 & r & ->).
  assert (H2 : x0 < 256 /\ x1 < 256).
  { repeat match goal with H : bytes_ok (_ :: _) |- _ => inversion H; clear H; subst end.
    repeat match goal with H : Forall _ (_ :: _) |- _ => inversion H; clear H; subst end. split; assumption. }
  unfold pmt_pcr_pid, s_pcr_pid. cbn [idx nth_error bind].
  change 3 with (8 * N.of_nat 0 + 3). rewrite (field_nth2 _ 0 x0 x1 3 13 Hok eq_refl eq_refl) by lia.
  rewrite pid_fact by tauto. unfold pid_new, assert. pose proof (pid13_lt x0 x1 ltac:(tauto) ltac:(tauto)) as Hp.
  rewrite Hp. cbn [bind]. split; [reflexivity|]. apply N.leb_le. exact Hp.
Qed.

Lemma c16_pmt_descriptors b : bytes_ok b -> s_pmt_accept b = ROk b ->
  pmt_descriptor_bytes b = Ok (4%nat, firstn (s_program_info_length b) (skipn 4 b)).
Proof.
  intros Hok Hacc. unfold s_pmt_accept in Hacc.
  destruct (Nat.ltb_spec (length b) 4) as [|Hl]; [discriminate|].
  destruct (Nat.ltb_spec (length b) (s_program_info_length b + 4)) as [|Hl2]; [discriminate|].
  unfold pmt_descriptor_bytes, PMT_HEADER_SIZE. rewrite pil_spec by assumption. cbn [bind].
  unfold slice.
  replace (Nat.leb 4 (4 + s_program_info_length b)) with true by (symmetry; apply Nat.leb_le; lia).
  replace (Nat.leb (4 + s_program_info_length b) (length b)) with true by (symmetry; apply Nat.leb_le; lia).
  cbn [andb bind]. replace (4 + s_program_info_length b - 4)%nat with (s_program_info_length b) by lia. reflexivity.
Qed.

(* stream entries *)
Lemma body5 (b : list N) : (5 <= length b)%nat -> exists x0 x1 x2 x3 x4 r, b = x0 :: x1 :: x2 :: x3 :: x4 :: r.
Proof. intros H. destruct b as [|x0 [|x1 [|x2 [|x3 [|x4 r]]]]]; cbn in H; try lia. eauto 7. Qed.

Lemma esl_spec e : bytes_ok e -> (5 <= length e)%nat -> si_es_info_length e = Ok (s_es_info_length e).
Proof.
  intros Hok Hl. destruct (body5 e Hl) as (x0 & x1 & x2 & x3 & x4 & r & ->).
  unfold si_es_info_length, s_es_info_length. cbn [idx nth_error bind]. do 2 f_equal.
  assert (H2 : x3 < 256 /\ x4 < 256).
  { repeat match goal with H : bytes_ok (_ :: _) |- _ => inversion H; clear H; subst end.
    repeat match goal with H : Forall _ (_ :: _) |- _ => inversion H; clear H; subst end. split; assumption. }
  change 28 with (8 * N.of_nat 3 + 4). rewrite (field_nth2 _ 3 x3 x4 4 12 Hok eq_refl eq_refl) by lia.
  apply len12_fact; tauto.
Qed.

Lemma si_from_bytes_spec e : bytes_ok e ->
  si_from_bytes e = Ok (if Nat.ltb (length e) 5 then None
                        else if Nat.ltb (length e) (5 + s_es_info_length e) then None else Some (5 + s_es_info_length e)%nat).
Proof.
  intros Hok. unfold si_from_bytes, SI_HEADER_SIZE.
  destruct (Nat.ltb_spec (length e) 5) as [|Hl]; [reflexivity|].
  rewrite esl_spec by assumption. cbn [bind]. destruct (Nat.ltb (length e) (5 + s_es_info_length e)); reflexivity.
Qed.

Lemma si_iter_spec fuel : forall off b, bytes_ok b -> (length b < fuel)%nat ->
  si_iter fuel off b = Ok (s_streams fuel off b).
Proof.
  induction fuel as [|fuel IH]; intros off b Hok Hl; [lia|]. cbn [si_iter s_streams].
  destruct (Nat.eqb_spec (length b) 0) as [H0|H0].
  - replace (Nat.ltb (length b) 5) with true by (symmetry; apply Nat.ltb_lt; lia). reflexivity.
  - rewrite si_from_bytes_spec by assumption. cbn [bind].
    destruct (Nat.ltb_spec (length b) 5) as [|H5]; [reflexivity|].
    destruct (Nat.ltb_spec (length b) (5 + s_es_info_length b)) as [|H6]; [reflexivity|].
    unfold slice_from. replace (Nat.leb (5 + s_es_info_length b) (length b)) with true by (symmetry; apply Nat.leb_le; lia).
    cbn [bind]. rewrite IH; [cbn [bind]; reflexivity|apply Forall_skipn, Hok|rewrite skipn_length; lia].
Qed.

Lemma c16_pmt_streams b : bytes_ok b -> s_pmt_accept b = ROk b ->
  pmt_streams b = Ok (s_streams (S (length b - (4 + s_program_info_length b))) (4 + s_program_info_length b)
                                (skipn (4 + s_program_info_length b) b)).
Proof.
  intros Hok Hacc. unfold s_pmt_accept in Hacc.
  destruct (Nat.ltb_spec (length b) 4) as [|Hl]; [discriminate|].
  destruct (Nat.ltb_spec (length b) (s_program_info_length b + 4)) as [|Hl2]; [discriminate|].
  unfold pmt_streams, PMT_HEADER_SIZE. rewrite pil_spec by assumption. cbn [bind].
  replace (Nat.ltb (length b) (4 + s_program_info_length b)) with false by (symmetry; apply Nat.ltb_ge; lia).
  unfold slice_from. replace (Nat.leb (4 + s_program_info_length b) (length b)) with true by (symmetry; apply Nat.leb_le; lia).
  cbn [bind]. rewrite skipn_length. apply si_iter_spec; [apply Forall_skipn, Hok|rewrite skipn_length; lia].
Qed.

Lemma c16_stream_fields off e : bytes_ok e -> (5 <= length e)%nat ->
  si_stream_type {| si_off := off; si_data := e |} = Ok (s_stream_type e) /\
  si_elementary_pid {| si_off := off; si_data := e |} = Ok (s_elementary_pid e) /\ s_elementary_pid e <= 8191.
Proof.
  intros Hok Hl. destruct (body5 e Hl) as (x0 & x1 & x2 & x3 & x4 & r & ->).
  assert (H2 : x0 < 256 /\ x1 < 256 /\ x2 < 256).
  { repeat match goal with H : bytes_ok (_ :: _) |- _ => inversion H; clear H; subst end.
    repeat match goal with H : Forall _ (_ :: _) |- _ => inversion H; clear H; subst end. repeat split; assumption. }
  destruct H2 as (H0 & H1 & H2).
  unfold si_stream_type, si_elementary_pid, s_stream_type, s_elementary_pid. cbn [si_data idx nth_error bind].
  change 0 with (8 * N.of_nat 0 + 0) at 1. rewrite (field_nth _ 0 x0 0 8 Hok eq_refl) by lia.
  rewrite afl_fact by assumption.
  change 11 with (8 * N.of_nat 1 + 3). rewrite (field_nth2 _ 1 x1 x2 3 13 Hok eq_refl eq_refl) by lia.
  rewrite pid_fact by assumption. unfold pid_new, assert. pose proof (pid13_lt x1 x2 H1 H2) as Hp. rewrite Hp. cbn [bind].
  repeat split; try reflexivity. apply N.leb_le. exact Hp.
Qed.

(* ---- section headers ---- *)
Lemma c16_common_header a b c : bytes_ok [a; b; c] ->
  sch_new [a; b; c] = Ok {| ch_table_id := s_table_id [a; b; c]; ch_ssi := s_ssi [a; b; c];
                            ch_private := s_private [a; b; c];
                            ch_section_length := N.to_nat (s_section_length [a; b; c]) |}.
Proof.
  intros Hok.
  assert (Hb : a < 256 /\ b < 256 /\ c < 256).
  { repeat match goal with H : bytes_ok (_ :: _) |- _ => inversion H; clear H; subst end.
    repeat match goal with H : Forall _ (_ :: _) |- _ => inversion H; clear H; subst end. repeat split; assumption. }
  destruct Hb as (Ha & Hb & Hc).
  assert (E0 : field [a; b; c] 0 8 = a) by (transitivity (field [a] 0 8); [apply (field_nth [a; b; c] 0 a 0 8 Hok eq_refl); lia|apply afl_fact, Ha]).
  assert (E1 : field [a; b; c] 8 1 = field [b] 0 1) by (apply (field_nth [a; b; c] 1 b 0 1 Hok eq_refl); lia).
  assert (E2 : field [a; b; c] 9 1 = field [b] 1 1) by (apply (field_nth [a; b; c] 1 b 1 1 Hok eq_refl); lia).
  assert (E3 : field [a; b; c] 12 12 = field [b; c] 4 12) by (apply (field_nth2 [a; b; c] 1 b c 4 12 Hok eq_refl eq_refl); lia).
  unfold sch_new, assert, SCH_SIZE. cbn [length Nat.eqb bind idx nth_error].
  unfold s_table_id, s_ssi, s_private, s_section_length, bitf.
  rewrite E0, E1, E2, E3. rewrite (len12_fact b c Hb Hc).
  pose proof (bit_mask_fact 0 b Hb ltac:(lia)) as B0. pose proof (bit_mask_fact 1 b Hb ltac:(lia)) as B1.
  unfold bitf in B0, B1. change (2 ^ (7 - 0)) with 128 in B0. change (2 ^ (7 - 1)) with 64 in B1.
  rewrite B0, B1. reflexivity.
Qed.

Lemma tsh_byte2 b : b < 256 -> N.land (N.shiftr b 1) 31 = field [b] 2 5 /\ N.land b 1 = field [b] 7 1 /\ field [b] 7 1 < 2.
Proof.
  intros H. repeat split.
  - apply N.eqb_eq. sweep1 b H.
  - apply N.eqb_eq. sweep1 b H.
  - apply N.ltb_lt. sweep1 b H.
Qed.

Lemma c16_table_syntax_header t : bytes_ok t -> (5 <= length t)%nat ->
  tsh_new t = Ok t /\ tsh_id t = Ok (s_tsh_id t) /\ tsh_version t = Ok (s_tsh_version t) /\
  tsh_current_next t = Ok (s_tsh_current_next t) /\ tsh_section_number t = Ok (s_tsh_section_number t) /\
  tsh_last_section_number t = Ok (s_tsh_last_section_number t).
Proof.
  intros Hok Hl. destruct (body5 t Hl) as (x0 & x1 & x2 & x3 & x4 & r & ->).
  assert (Hb : x0 < 256 /\ x1 < 256 /\ x2 < 256 /\ x3 < 256 /\ x4 < 256).
  { repeat match goal with H : bytes_ok (_ :: _) |- _ => inversion H; clear H; subst end.
    repeat match goal with H : Forall _ (_ :: _) |- _ => inversion H; clear H; subst end. repeat split; assumption. }
  destruct Hb as (H0 & H1 & H2 & H3 & H4).
  set (t := x0 :: x1 :: x2 :: x3 :: x4 :: r) in *.
  assert (E0 : field t 0 16 = field [x0; x1] 0 16) by (apply (field_nth2 t 0 x0 x1 0 16 Hok eq_refl eq_refl); lia).
  assert (E1 : field t 18 5 = field [x2] 2 5) by (apply (field_nth t 2 x2 2 5 Hok eq_refl); lia).
  assert (E2 : field t 23 1 = field [x2] 7 1) by (apply (field_nth t 2 x2 7 1 Hok eq_refl); lia).
  assert (E3 : field t 24 8 = x3) by (transitivity (field [x3] 0 8); [apply (field_nth t 3 x3 0 8 Hok eq_refl); lia|apply afl_fact, H3]).
  assert (E4 : field t 32 8 = x4) by (transitivity (field [x4] 0 8); [apply (field_nth t 4 x4 0 8 Hok eq_refl); lia|apply afl_fact, H4]).
  unfold tsh_new, tsh_id, tsh_version, tsh_current_next, tsh_section_number, tsh_last_section_number, assert, TSH_SIZE.
  unfold s_tsh_id, s_tsh_version, s_tsh_current_next, s_tsh_section_number, s_tsh_last_section_number.
  rewrite E0, E1, E2, E3, E4.
  replace (Nat.leb 5 (length t)) with true by (symmetry; apply Nat.leb_le; exact Hl).
  unfold t. cbn [idx nth_error bind].
  rewrite (len16_fact x0 x1 H0 H1).
  destruct (tsh_byte2 x2 H2) as (F1 & F2 & F3). rewrite F1, F2.
  replace ((field [x2] 7 1 =? 0) || (field [x2] 7 1 =? 1)) with true by lia.
  repeat split; reflexivity.
Qed.
