(* Proofs/SerialProofs.v — every handler table the demultiplexer can reach holds handlers with pairwise distinct serial
   numbers (the application's construction counter hands each out once): the hypothesis of the C06 projection theorem
   is met by every reachable state.  Partial-correctness style: no assumption on the input bytes. *)
From Coq Require Import List NArith Lia ZArith ZifyN ZifyNat ZifyBool Bool.
From TS Require Import Base.Res Base.ListX Model.Timestamp Model.Packet Model.PacketObs Model.Pes Model.PesObs
  Model.Descriptor Model.Tables Model.TablesObs Model.PesFilter Model.Crc Model.Psi Model.Demux Spec.Dispatch
  Proofs.DispatchProofs Proofs.ProjectionProofs.
Import ListNotations.
Open Scope N_scope.

(* the serials of the handlers queued for insertion are strictly increasing, the first >= lo, the last < hi *)
Fixpoint ser_chain (lo hi : N) (cs : list change) : Prop :=
  match cs with
  | [] => lo <= hi
  | ChInsert _ h :: r => lo <= handler_serial h /\ ser_chain (handler_serial h + 1) hi r
  | ChRemove _ :: r => ser_chain lo hi r
  end.
Definition SerP (lo : N) (cx : ctx) : Prop := ser_chain lo (cx_serial cx) (cx_changes cx).

Lemma ser_chain_le lo hi cs : ser_chain lo hi cs -> lo <= hi.
Proof. revert lo. induction cs as [|[p h|p] r IH]; intros lo H; cbn in H; [exact H| |auto]. destruct H as [H1 H2]. apply IH in H2. lia. Qed.

Lemma ser_chain_snoc_insert cs : forall lo hi p h, ser_chain lo hi cs -> handler_serial h = hi ->
  ser_chain lo (hi + 1) (cs ++ [ChInsert p h]).
Proof.
  induction cs as [|[q g|q] r IH]; intros lo hi p h H Hs; cbn [app ser_chain] in *.
  - split; lia.
  - destruct H as [H1 H2]. split; [exact H1|]. apply IH; assumption.
  - apply IH; assumption.
Qed.
Lemma ser_chain_snoc_remove cs : forall lo hi p, ser_chain lo hi cs -> ser_chain lo hi (cs ++ [ChRemove p]).
Proof.
  induction cs as [|[q g|q] r IH]; intros lo hi p H; cbn [app ser_chain] in *; [exact H| |apply IH; exact H].
  destruct H as [H1 H2]. split; [exact H1|apply IH; exact H2].
Qed.

Section Serial.
Variable policy : request -> hkind.
Variable scripts : N -> nat -> list action.
Variable fuzzing deep : bool.

Lemma mk_handler_serial k s : handler_serial (mk_handler k s) = s.
Proof. destruct k; reflexivity. Qed.

Lemma serp_construct_insert lo cx rq pid :
  SerP lo cx -> SerP lo (queue (fst (fst (construct policy cx rq))) (ChInsert pid (snd (fst (construct policy cx rq))))).
Proof.
  unfold SerP, construct, queue. cbn [fst snd cx_changes cx_serial]. intros H.
  apply ser_chain_snoc_insert; [exact H|apply mk_handler_serial].
Qed.
Lemma serp_remove lo cx p : SerP lo cx -> SerP lo (queue cx (ChRemove p)).
Proof. unfold SerP, queue. cbn [cx_changes cx_serial]. apply ser_chain_snoc_remove. Qed.

Lemma queue_removes_serp lo pids : forall cx cx', SerP lo cx -> queue_removes cx pids = Ok cx' -> SerP lo cx'.
Proof.
  induction pids as [|p r IH]; intros cx cx' H; cbn [queue_removes]; [intros E; inversion E; subst; exact H|].
  destruct (pid_new p) as [q|]; cbn [bind]; [|discriminate]. apply IH. apply serp_remove, H.
Qed.

Lemma pat_entries_serp lo progs : forall cx seen reg r, SerP lo cx -> pat_entries policy cx seen reg progs = Ok r -> SerP lo (fst (fst (fst r))).
Proof.
  induction progs as [|d rest IH]; intros cx seen reg r H; cbn [pat_entries]; [intros E; inversion E; subst; exact H|].
  set (rq := match d with PdNetwork pid => RqNit pid | PdProgram pn pid => RqPmt pid pn end).
  pose proof (serp_construct_insert lo cx rq (pd_pid d) H) as H1.
  destruct (construct policy cx rq) as [[cx1 h] ev]. cbn [fst snd] in H1.
  destruct (bs_insert_checked (pd_pid d) seen 401) as [s1|]; cbn [bind]; [|discriminate].
  destruct (bs_insert_checked (pd_pid d) reg 402) as [r1|]; cbn [bind]; [|discriminate].
  destruct (pat_entries policy (queue cx1 (ChInsert (pd_pid d) h)) s1 r1 rest) as [[[[cx3 s3] r3] ev3]|] eqn:E3; cbn [bind]; [|discriminate].
  intros E; inversion E; subst. cbn [fst]. apply (IH _ _ _ _ H1 E3).
Qed.

Lemma pat_section_serp lo ps cx h tsh data origin r : SerP lo cx -> pat_section policy ps cx h tsh data origin = Ok r -> SerP lo (snd (fst r)).
Proof.
  intros H. unfold pat_section.
  destruct (usub (length data) 4 403) as [e|]; cbn [bind]; [|discriminate].
  destruct (slice data (SCH_SIZE + TSH_SIZE) e 404) as [body|]; cbn [bind]; [|discriminate].
  destruct (negb (ch_table_id h =? 0)); [intros E; inversion E; subst; exact H|].
  destruct (pat_programs body) as [progs|]; cbn [bind]; [|discriminate].
  destruct (pat_entries policy cx [] (pat_registered ps) progs) as [[[[cx1 seen] reg] ev]|] eqn:E1; cbn [bind]; [|discriminate].
  pose proof (pat_entries_serp lo progs _ _ _ _ H E1) as H1. cbn [fst] in H1.
  destruct (queue_removes cx1 (bs_difference reg seen)) as [cx2|] eqn:E2; cbn [bind]; [|discriminate].
  intros E; inversion E; subst. cbn [fst snd]. eapply queue_removes_serp; eassumption.
Qed.

Lemma pmt_entries_serp lo P body ss : forall cx seen reg r, SerP lo cx ->
  pmt_entries policy deep P body cx seen reg ss = Ok r -> SerP lo (fst (fst (fst r))).
Proof.
  induction ss as [|s rest IH]; intros cx seen reg r H; cbn [pmt_entries]; [intros E; inversion E; subst; exact H|].
  destruct (si_stream_type s) as [st|]; cbn [bind]; [|discriminate].
  destruct (si_elementary_pid s) as [ep|]; cbn [bind]; [|discriminate].
  destruct (if deep then _ else _) as [o|]; cbn [bind]; [|discriminate].
  pose proof (serp_construct_insert lo cx (RqByStream P st ep o) ep H) as H1.
  destruct (construct policy cx (RqByStream P st ep o)) as [[cx1 h] ev]. cbn [fst snd] in H1.
  destruct (bs_insert_checked ep seen 405) as [s1|]; cbn [bind]; [|discriminate].
  destruct (bs_insert_checked ep reg 406) as [r1|]; cbn [bind]; [|discriminate].
  destruct (pmt_entries policy deep P body (queue cx1 (ChInsert ep h)) s1 r1 rest) as [[[[cx3 s3] r3] ev3]|] eqn:E3; cbn [bind]; [|discriminate].
  intros E; inversion E; subst. cbn [fst]. apply (IH _ _ _ _ H1 E3).
Qed.

Lemma pmt_section_serp lo ps cx h tsh data origin r : SerP lo cx -> pmt_section policy deep ps cx h tsh data origin = Ok r -> SerP lo (snd (fst r)).
Proof.
  intros H. unfold pmt_section.
  destruct (usub (length data) 4 407) as [e|]; cbn [bind]; [|discriminate].
  destruct (slice data (SCH_SIZE + TSH_SIZE) e 408) as [body|]; cbn [bind]; [|discriminate].
  destruct (pmt_from_bytes body) as [[sd|er]|]; cbn [bind]; [| |discriminate].
  2:{ intros E; inversion E; subst; exact H. }
  destruct (negb (ch_table_id h =? 2)); [intros E; inversion E; subst; exact H|].
  destruct (pmt_streams sd) as [ss|]; cbn [bind]; [|discriminate].
  destruct (pmt_entries policy deep (pmt_pid ps) sd cx [] (pmt_registered ps) ss) as [[[[cx1 seen] reg] ev]|] eqn:E1; cbn [bind]; [|discriminate].
  pose proof (pmt_entries_serp lo _ _ ss _ _ _ _ H E1) as H1. cbn [fst] in H1.
  destruct (queue_removes cx1 (bs_difference reg seen)) as [cx2|] eqn:E2; cbn [bind]; [|discriminate].
  intros E; inversion E; subst. cbn [fst snd]. eapply queue_removes_serp; eassumption.
Qed.

Lemma queue_actions_serp lo acts : forall cx r, SerP lo cx -> queue_actions cx acts = Ok r -> SerP lo (fst r).
Proof.
  induction acts as [|[pid k|pid] rest IH]; intros cx r H; cbn [queue_actions]; [intros E; inversion E; subst; exact H| |].
  - destruct (queue_actions _ rest) as [r1|] eqn:E1; cbn [bind]; [|discriminate]. intros E; inversion E; subst. cbn [fst].
    eapply IH; [|exact E1]. unfold SerP, queue. cbn [cx_changes cx_serial]. apply ser_chain_snoc_insert; [exact H|apply mk_handler_serial].
  - destruct (queue_actions _ rest) as [r1|] eqn:E1; cbn [bind]; [|discriminate]. intros E; inversion E; subst. cbn [fst].
    eapply IH; [|exact E1]. apply serp_remove, H.
Qed.
End Serial.

(* ---- the section chain hands the context to the table processor or leaves it alone ---- *)
Section ChainCtx.
Variable cfg : chain_cfg.
Variables IS CX EV : Type.
Variable inner : IS -> CX -> common_header -> list N -> list N -> option nat -> res (IS * CX * list EV).
Variable P : CX -> Prop.
Hypothesis inner_P : forall i cx h t d o r, P cx -> inner i cx h t d o = Ok r -> P (snd (fst r)).

Ltac ret := let E := fresh in intros E; inversion E; subst; cbn [fst snd]; assumption.

Lemma crc_layer_P (c : chain IS) cx h tsh d o r : P cx -> crc_layer_section cfg IS CX EV inner c cx h tsh d o = Ok r -> P (snd (fst r)).
Proof.
  intros H. unfold crc_layer_section.
  destruct (cf_crc cfg).
  - destruct (assert (ch_ssi h) 313); cbn [bind]; [|discriminate].
    destruct (Nat.ltb (length d) (SCH_SIZE + TSH_SIZE + 4)); [ret|].
    destruct (negb (cf_fuzzing cfg) && negb (m_sum32 d =? 0)); [ret|].
    destruct (inner (in_state c) cx h tsh d o) as [q|] eqn:E; cbn [bind]; [|discriminate].
    intros E2; inversion E2; subst. cbn [fst snd]. eapply inner_P; eassumption.
  - destruct (inner (in_state c) cx h tsh d o) as [q|] eqn:E; cbn [bind]; [|discriminate].
    intros E2; inversion E2; subst. cbn [fst snd]. eapply inner_P; eassumption.
Qed.

Lemma buf_start_P (c : chain IS) cx h tsh d off r : P cx -> buf_start cfg IS CX EV inner c cx h tsh d off = Ok r -> P (snd (fst r)).
Proof.
  intros H. unfold buf_start. destruct (Nat.leb _ _).
  - destruct (slice_to d _ 314); cbn [bind]; [|discriminate]. apply crc_layer_P, H.
  - destruct (usub _ _ 315); cbn [bind]; [|discriminate]. ret.
Qed.

Lemma buf_continue_P (c : chain IS) cx d r : P cx -> buf_continue cfg IS CX EV inner c cx d = Ok r -> P (snd (fst r)).
Proof.
  intros H. unfold buf_continue. destruct (bf_state c) as [rem|]; [|ret].
  destruct (if Nat.ltb rem (length d) then Ok 0%nat else usub rem (length d) 316) as [nr|]; cbn [bind]; [|discriminate].
  destruct (Nat.eqb nr 0); [|ret].
  destruct (slice_to d rem 317); cbn [bind]; [|discriminate].
  destruct (slice_to _ SCH_SIZE 318); cbn [bind]; [|discriminate].
  destruct (sch_new _); cbn [bind]; [|discriminate].
  destruct (if cf_compact cfg then Ok [] else _) ; cbn [bind]; [|discriminate].
  apply crc_layer_P, H.
Qed.

Lemma dd_start_P (c : chain IS) cx h tsh d off r : P cx -> dd_start cfg IS CX EV inner c cx h tsh d off = Ok r -> P (snd (fst r)).
Proof.
  intros H. unfold dd_start. destruct (cf_dedup cfg); [|apply buf_start_P, H].
  destruct (tsh_version tsh); cbn [bind]; [|discriminate].
  destruct (dd_last_version c) as [last|]; [|apply buf_start_P, H].
  destruct (last =? _); [ret|apply buf_start_P, H].
Qed.

Lemma dd_continue_P (c : chain IS) cx d r : P cx -> dd_continue cfg IS CX EV inner c cx d = Ok r -> P (snd (fst r)).
Proof.
  intros H. unfold dd_continue. destruct (cf_dedup cfg); [destruct (dd_ignore_rest c); [ret|]|]; apply buf_continue_P, H.
Qed.

Lemma sp_start_P (c : chain IS) cx h d off r : P cx -> sp_start cfg IS CX EV inner c cx h d off = Ok r -> P (snd (fst r)).
Proof.
  intros H. unfold sp_start. destruct (cf_compact cfg).
  - destruct (ch_ssi h); [ret|]. destruct (Nat.ltb _ _); [ret|]. destruct (Nat.ltb _ _); [ret|]. apply buf_start_P, H.
  - destruct (negb (ch_ssi h)); [ret|]. destruct (Nat.ltb _ _); [ret|]. destruct (Nat.ltb _ _); [ret|].
    destruct (slice_from d SCH_SIZE 320); cbn [bind]; [|discriminate].
    destruct (tsh_new _); cbn [bind]; [|discriminate]. apply dd_start_P, H.
Qed.

Lemma sp_continue_P (c : chain IS) cx d r : P cx -> sp_continue cfg IS CX EV inner c cx d = Ok r -> P (snd (fst r)).
Proof.
  intros H. unfold sp_continue. destruct (sp_ignore_rest c); [ret|]. destruct (cf_compact cfg); [apply buf_continue_P, H|apply dd_continue_P, H].
Qed.

Lemma spc_consume_P (c : chain IS) cx pk r : P cx -> spc_consume cfg IS CX EV inner c cx pk = Ok r -> P (snd (fst r)).
Proof.
  intros H. unfold spc_consume.
  destruct (pkt_payload pk) as [[[poff buf]|]|]; cbn [bind]; [| ret |discriminate].
  destruct (pkt_payload_unit_start_indicator pk) as [[|]|]; cbn [bind]; [| apply sp_continue_P, H |discriminate].
  destruct (idx buf 0 321) as [p|]; cbn [bind]; [|discriminate].
  destruct (slice_from buf 1 322) as [sd|]; cbn [bind]; [|discriminate].
  destruct (Nat.ltb 0 (N.to_nat p)).
  - destruct (Nat.leb (length sd) (N.to_nat p)); cbn [bind]; [ret|].
    destruct (slice_to sd (N.to_nat p) 323) as [rem|]; cbn [bind]; [|discriminate].
    destruct (sp_continue cfg IS CX EV inner c cx rem) as [[[c1 cx1] e1]|] eqn:E1; cbn [bind]; [|discriminate].
    pose proof (sp_continue_P c cx rem _ H E1) as H1. cbn [fst snd] in H1.
    destruct (slice_from sd (N.to_nat p) 324) as [next|]; cbn [bind]; [|discriminate].
    destruct (Nat.ltb (length next) SCH_SIZE); [ret|].
    destruct (slice_to next SCH_SIZE 325); cbn [bind]; [|discriminate].
    destruct (sch_new _); cbn [bind]; [|discriminate].
    destruct (sp_start cfg IS CX EV inner c1 cx1 _ next _) as [[[c2 cx2] e2]|] eqn:E2; cbn [bind]; [|discriminate].
    pose proof (sp_start_P c1 cx1 _ next _ _ H1 E2) as H2. intros E; inversion E; subst. exact H2.
  - cbn [bind].
    destruct (slice_from sd (N.to_nat p) 324) as [next|]; cbn [bind]; [|discriminate].
    destruct (Nat.ltb (length next) SCH_SIZE); [ret|].
    destruct (slice_to next SCH_SIZE 325); cbn [bind]; [|discriminate].
    destruct (sch_new _); cbn [bind]; [|discriminate].
    destruct (sp_start cfg IS CX EV inner c cx _ next _) as [[[c2 cx2] e2]|] eqn:E2; cbn [bind]; [|discriminate].
    pose proof (sp_start_P c cx _ next _ _ H E2) as H2. intros E; inversion E; subst. exact H2.
Qed.
End ChainCtx.

(* ---- the handler table ---- *)
(* every handler in the table has a serial below [lo], and no two entries share a serial *)
Definition FsInv (lo : N) (fs : filters) : Prop :=
  wf fs /\ (forall p h, filters_get fs p = Some h -> handler_serial h < lo) /\ serial_inj fs.

Lemma fsinv_mono lo hi fs : lo <= hi -> FsInv lo fs -> FsInv hi fs.
Proof. intros Hle (Hw & Hb & Hi). split; [exact Hw|]. split; [|exact Hi]. intros p h Hg. specialize (Hb p h Hg). lia. Qed.

Lemma fsinv_insert lo fs pid h fs' : FsInv lo fs -> lo <= handler_serial h -> filters_insert fs pid h = Ok fs' ->
  FsInv (handler_serial h + 1) fs'.
Proof.
  intros (Hw & Hb & Hi) Hs E. destruct (insert_spec fs pid h Hw) as (fs2 & E2 & Hw2 & G & O). rewrite E in E2. inversion E2; subst fs2.
  split; [exact Hw2|]. split.
  - intros p g Hg. destruct (N.eq_dec p pid) as [->|Hn]; [rewrite G in Hg; inversion Hg; subst; lia|].
    rewrite O in Hg by assumption. specialize (Hb p g Hg). lia.
  - intros p1 p2 h1 h2 G1 G2 Hse.
    destruct (N.eq_dec p1 pid) as [->|N1]; destruct (N.eq_dec p2 pid) as [->|N2]; try reflexivity.
    + rewrite G in G1. inversion G1; subst h1. rewrite O in G2 by assumption. specialize (Hb p2 h2 G2). lia.
    + rewrite G in G2. inversion G2; subst h2. rewrite O in G1 by assumption. specialize (Hb p1 h1 G1). lia.
    + rewrite O in G1, G2 by assumption. eapply Hi; eassumption.
Qed.

Lemma fsinv_remove lo fs pid : FsInv lo fs -> FsInv lo (filters_remove fs pid).
Proof.
  intros (Hw & Hb & Hi). destruct (remove_spec fs pid Hw) as (Hw2 & G & O). split; [exact Hw2|]. split.
  - intros p g Hg. destruct (N.eq_dec p pid) as [->|Hn]; [rewrite G in Hg; discriminate|]. rewrite O in Hg by assumption. eauto.
  - intros p1 p2 h1 h2 G1 G2 Hse.
    destruct (N.eq_dec p1 pid) as [->|N1]; [rewrite G in G1; discriminate|].
    destruct (N.eq_dec p2 pid) as [->|N2]; [rewrite G in G2; discriminate|].
    rewrite O in G1, G2 by assumption. eapply Hi; eassumption.
Qed.

(* replacing the handler of a PID by one with the same serial *)
Lemma fsinv_set_same lo fs pid hd hd' : FsInv lo fs -> filters_get fs pid = Some hd -> handler_serial hd' = handler_serial hd ->
  FsInv lo (set_slot fs pid (Some hd')).
Proof.
  intros (Hw & Hb & Hi) Hg Hs. assert (Hlt : pid < f_len fs) by (eapply get_some_lt; eassumption).
  split; [apply wf_set_slot; assumption|]. split.
  - intros p g G. destruct (N.eq_dec p pid) as [->|Hn]; [rewrite get_set_same in G by assumption; inversion G; subst; rewrite Hs; eauto|].
    rewrite get_set_other in G by assumption. eauto.
  - intros p1 p2 h1 h2 G1 G2 Hse.
    destruct (N.eq_dec p1 pid) as [->|N1]; destruct (N.eq_dec p2 pid) as [->|N2]; try reflexivity.
    + rewrite get_set_same in G1 by assumption. inversion G1; subst h1. rewrite get_set_other in G2 by assumption.
      apply (Hi pid p2 hd h2 Hg G2). congruence.
    + rewrite get_set_same in G2 by assumption. inversion G2; subst h2. rewrite get_set_other in G1 by assumption.
      apply (Hi p1 pid h1 hd G1 Hg). congruence.
    + rewrite get_set_other in G1, G2 by assumption. eapply Hi; eassumption.
Qed.

Lemma fsinv_apply cs : forall lo hi fs fs', FsInv lo fs -> ser_chain lo hi cs -> apply_changes fs cs = Ok fs' -> FsInv hi fs'.
Proof.
  induction cs as [|[pid h|pid] r IH]; intros lo hi fs fs' Hf Hc; cbn [apply_changes ser_chain] in *.
  - intros E; inversion E; subst. eapply fsinv_mono; eassumption.
  - destruct Hc as [H1 H2]. destruct (filters_insert fs pid h) as [fs1|] eqn:E1; cbn [bind]; [|discriminate].
    apply (IH _ _ _ _ (fsinv_insert lo fs pid h fs1 Hf H1 E1) H2).
  - apply (IH _ _ _ _ (fsinv_remove lo fs pid Hf) Hc).
Qed.

(* ---- the dispatcher ---- *)
Section Dispatcher.
Variable policy : request -> hkind.
Variable scripts : N -> nat -> list action.
Variable fuzzing deep : bool.

Lemma handler_consume_serp lo hd cx i pk r : SerP lo cx -> handler_consume policy scripts fuzzing deep hd cx i pk = Ok r ->
  SerP lo (snd (fst r)) /\ handler_serial (fst (fst r)) = handler_serial hd.
Proof.
  intros H. destruct hd as [s c|s c|s f|s|s id n]; cbn [handler_consume].
  - destruct (spc_consume _ _ _ _ _ c cx pk) as [q|] eqn:E; cbn [bind]; [|discriminate].
    intros E2; inversion E2; subst. cbn [fst snd handler_serial]. split; [|reflexivity].
    eapply (spc_consume_P (table_cfg fuzzing) pat_state ctx event (pat_section policy) (SerP lo)); [|exact H|exact E].
    intros i0 cx0 h0 t0 d0 o0 r0 H0 E0. eapply pat_section_serp; eassumption.
  - destruct (spc_consume _ _ _ _ _ c cx pk) as [q|] eqn:E; cbn [bind]; [|discriminate].
    intros E2; inversion E2; subst. cbn [fst snd handler_serial]. split; [|reflexivity].
    eapply (spc_consume_P (table_cfg fuzzing) pmt_state ctx event (pmt_section policy deep) (SerP lo)); [|exact H|exact E].
    intros i0 cx0 h0 t0 d0 o0 r0 H0 E0. eapply pmt_section_serp; eassumption.
  - destruct (pf_consume f pk) as [q|]; cbn [bind]; [|discriminate].
    destruct (es_events deep s i (snd q)); cbn [bind]; [|discriminate].
    intros E2; inversion E2; subst. cbn [fst snd handler_serial]. split; [exact H|reflexivity].
  - destruct (if deep then obs_packet pk else Ok []); cbn [bind]; [|discriminate].
    intros E2; inversion E2; subst. cbn [fst snd handler_serial]. split; [exact H|reflexivity].
  - destruct (queue_actions cx (scripts id n)) as [q|] eqn:E; cbn [bind]; [|discriminate].
    intros E2; inversion E2; subst. cbn [fst snd handler_serial]. split; [|reflexivity].
    eapply queue_actions_serp; eassumption.
Qed.

(* between packets: the queue is empty and the table's serials are distinct and below the construction counter *)
Definition Between (fs : filters) (cx : ctx) : Prop := cx_changes cx = [] /\ FsInv (cx_serial cx) fs.

Lemma spec_packet_between fs cx ip r : Between fs cx -> spec_packet policy scripts fuzzing deep fs cx ip = Ok r ->
  Between (fst (fst r)) (snd (fst r)).
Proof.
  intros (Hc & Hf). destruct ip as [i pk]. cbn [spec_packet].
  destruct (pkt_pid pk) as [pid|]; cbn [bind]; [|discriminate].
  (* the handler of the packet's PID, requested when absent *)
  assert (Hr0 : forall r0, (if filters_contains fs pid then Ok (fs, cx, [])
            else let '(cx1, h, ev) := construct policy cx (RqByPid pid) in
                 do fs1 <- filters_insert fs pid h; Ok (fs1, cx1, ev)) = Ok r0 ->
            cx_changes (snd (fst r0)) = [] /\ FsInv (cx_serial (snd (fst r0))) (fst (fst r0))).
  { intros r0. destruct (filters_contains fs pid).
    - intros E; inversion E; subst. cbn [fst snd]. auto.
    - unfold construct. destruct (filters_insert fs pid _) as [fs1|] eqn:E1; cbn [bind]; [|discriminate].
      intros E; inversion E; subst. cbn [fst snd cx_changes cx_serial]. split; [exact Hc|].
      pose proof (fsinv_insert (cx_serial cx) fs pid (mk_handler (policy (RqByPid pid)) (cx_serial cx)) fs1 Hf) as Hi.
      rewrite mk_handler_serial in Hi. apply Hi; [lia|exact E1]. }
  destruct (if filters_contains fs pid then _ else _) as [[[fs1 cx1] ev1]|] eqn:E0; cbn [bind]; [|discriminate].
  destruct (Hr0 _ eq_refl) as (Hc1 & Hf1). cbn [fst snd] in Hc1, Hf1.
  destruct (filters_get fs1 pid) as [hd|] eqn:Hg; [|discriminate].
  destruct (pkt_transport_error_indicator pk) as [[|]|]; cbn [bind]; try discriminate.
  { intros E; inversion E; subst. cbn [fst snd]. split; assumption. }
  destruct (pkt_transport_scrambling_control pk) as [tsc|]; cbn [bind]; [|discriminate].
  destruct (tsc_is_scrambled tsc). { intros E; inversion E; subst. cbn [fst snd]. split; assumption. }
  destruct (handler_consume policy scripts fuzzing deep hd cx1 i pk) as [[[hd' cx2] ev2]|] eqn:Eh; cbn [bind]; [|discriminate].
  assert (Hs1 : SerP (cx_serial cx1) cx1) by (unfold SerP; rewrite Hc1; cbn; lia).
  destruct (handler_consume_serp _ _ _ _ _ _ Hs1 Eh) as (Hs2 & Hser). cbn [fst snd] in Hs2, Hser.
  destruct (apply_changes (set_slot fs1 pid (Some hd')) (cx_changes cx2)) as [fs3|] eqn:E3; cbn [bind]; [|discriminate].
  intros E; inversion E; subst. cbn [fst snd]. split; [reflexivity|]. cbn [clear_changes cx_serial].
  eapply fsinv_apply; [|exact Hs2|exact E3]. eapply fsinv_set_same; eassumption.
Qed.

Lemma spec_push_between pkts : forall fs cx r, Between fs cx -> spec_push policy scripts fuzzing deep fs cx pkts = Ok r ->
  Between (fst (fst r)) (snd (fst r)).
Proof.
  induction pkts as [|p rest IH]; intros fs cx r H; cbn [spec_push]; [intros E; inversion E; subst; exact H|].
  destruct (spec_packet policy scripts fuzzing deep fs cx p) as [[[fs1 cx1] e1]|] eqn:E1; cbn [bind]; [|discriminate].
  pose proof (spec_packet_between _ _ _ _ H E1) as H1. cbn [fst snd] in H1.
  destruct (spec_push policy scripts fuzzing deep fs1 cx1 rest) as [[[fs2 cx2] e2]|] eqn:E2; cbn [bind]; [|discriminate].
  intros E; inversion E; subst. cbn [fst snd]. apply (IH _ _ _ H1 E2).
Qed.

Lemma pushes_between bufs : forall fs cx base r, Between fs cx -> pushes policy scripts fuzzing deep fs cx base bufs = Ok r ->
  Between (fst (fst r)) (snd (fst r)).
Proof.
  induction bufs as [|b rest IH]; intros fs cx base r H; cbn [pushes]; [intros E; inversion E; subst; exact H|].
  rewrite push_spec.
  destruct (spec_push policy scripts fuzzing deep fs cx _) as [[[fs1 cx1] e1]|] eqn:E1; cbn [bind]; [|discriminate].
  pose proof (spec_push_between _ _ _ _ H E1) as H1. cbn [fst snd] in H1.
  destruct (pushes policy scripts fuzzing deep fs1 cx1 _ rest) as [[[fs2 cx2] e2]|] eqn:E2; cbn [bind]; [|discriminate].
  intros E; inversion E; subst. cbn [fst snd]. apply (IH _ _ _ _ H1 E2).
Qed.

(* every state Demultiplex::new + any pushes can reach *)
Lemma reachable_between bufs r : run_demux policy scripts fuzzing deep bufs = Ok r -> Between (fst (fst r)) (snd (fst r)).
Proof.
  unfold run_demux, demux_new, construct. cbn [cx_serial cx_changes].
  destruct (filters_insert filters_empty 0 _) as [fs0|] eqn:E0; cbn [bind]; [|discriminate].
  assert (H0 : Between fs0 {| cx_changes := []; cx_serial := 0 + 1 |}).
  { split; [reflexivity|]. cbn [cx_serial].
    assert (Hemp : FsInv 0 filters_empty).
    { assert (Hn : forall p, filters_get filters_empty p = None) by (intros p; unfold filters_get, filters_empty; cbn; destruct (p <? 0); reflexivity).
      split; [apply wf_empty|]. split; [intros p h Hg; rewrite Hn in Hg; discriminate Hg|intros p1 p2 h1 h2 G1; rewrite Hn in G1; discriminate G1]. }
    pose proof (fsinv_insert 0 filters_empty 0 (mk_handler (policy (RqByPid 0)) 0) fs0 Hemp) as Hi.
    rewrite mk_handler_serial in Hi. apply Hi; [lia|exact E0]. }
  destruct (pushes policy scripts fuzzing deep fs0 _ 0 bufs) as [[[fs1 cx1] e1]|] eqn:E1; cbn [bind]; [|discriminate].
  intros E; inversion E; subst. cbn [fst snd]. apply (pushes_between _ _ _ _ _ H0 E1).
Qed.

Lemma reachable_serial_inj bufs fs cx ev : run_demux policy scripts fuzzing deep bufs = Ok (fs, cx, ev) ->
  wf fs /\ serial_inj fs /\ cx_changes cx = [].
Proof. intros E. destruct (reachable_between bufs _ E) as (Hc & Hw & _ & Hi). cbn [fst snd] in *. auto. Qed.
End Dispatcher.
