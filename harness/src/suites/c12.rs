//! C12: transport packet header fields and payload / adaptation-field split.
use crate::obs;
use crate::util::*;

fn mk(rng: &mut Rng, b1: u8, b2: u8, b3: u8, b4: u8) -> Vec<u8> {
    let mut p = rng.bytes(188);
    p[0] = 0x47; p[1] = b1; p[2] = b2; p[3] = b3; p[4] = b4;
    p
}

pub fn run(tier: &str, seed: u64, dir: &str) {
    let mut out = Out::new(dir, "C12");
    let mut rng = Rng::new(seed ^ 0xC12);
    let emit = |out: &mut Out, p: &[u8]| {
        let pc = p.to_vec();
        out.case(&format!("PKT {}", hex(p)), guarded(move || obs::run_packet(&pc)));
    };
    // exhaustive over header bytes 1,2 (tei, pusi, priority, pid) — other bytes random
    for b1 in 0..=255u8 { for b2 in 0..=255u8 {
        let (b3, b4) = (rng.byte(), rng.byte());
        let p = mk(&mut rng, b1, b2, b3, b4);
        emit(&mut out, &p);
    } }
    // exhaustive over header byte 3 (scrambling, adaptation control, counter) x adaptation_field_length
    for b3 in 0..=255u8 { for b4 in 0..=255u8 {
        let (b1, b2) = (rng.byte(), rng.byte());
        let mut p = mk(&mut rng, b1, b2, b3, b4);
        // make the adaptation field's own fields run up to its end half of the time
        if rng.chance(1, 2) { p[5] = *rng.pick(&[0x02u8, 0x03, 0x12, 0x1f, 0x01, 0xff, 0x10, 0x08]); }
        if rng.chance(1, 2) { let l = b4 as i64; let pos = rng.range(6, 14) as usize; p[pos] = (l - (pos as i64 - 4) - rng.range(0, 2) as i64).clamp(0, 255) as u8; }
        emit(&mut out, &p);
    } }
    // bad sync bytes
    for s in 0..=255u8 {
        let mut p = rng.bytes(188); p[0] = s;
        emit(&mut out, &p);
    }
    if tier == "thorough" {
        // all 2^16 (b1,b2) x all 256 b3, boundary b4
        for b3 in 0..=255u8 { for b1 in 0..=255u8 { for b2 in (0..=255u8).step_by(3) {
            let b4 = *rng.pick(&[0u8, 1, 181, 182, 183, 184, 255]);
            let p = mk(&mut rng, b1, b2, b3, b4);
            emit(&mut out, &p);
        } } }
    }
    out.finish();
}
