(* Model/Tables.v — src/psi/pat.rs and src/psi/pmt.rs.  Panic sites 500-549. *)
From TS Require Import Base.Res Model.Timestamp Model.Packet Model.Descriptor.
Open Scope N_scope.

(* ---- PAT ---- *)
Inductive program_descriptor := PdNetwork (pid : N) | PdProgram (program_number pid : N).
Definition pd_pid (d : program_descriptor) : N := match d with PdNetwork p => p | PdProgram _ p => p end.

(* ProgramDescriptor::from_bytes(data) *)
Definition pd_from_bytes (data : list N) : res program_descriptor :=
  do d0 <- idx data 0 501; do d1 <- idx data 1 502; do d2 <- idx data 2 503; do d3 <- idx data 3 504;
  let program_number := N.lor (N.shiftl d0 8) d1 in
  do pid <- pid_new (N.lor (N.shiftl (N.land d2 31) 8) d3);
  Ok (if program_number =? 0 then PdNetwork pid else PdProgram program_number pid).

(* ProgramIter, iterated to exhaustion *)
Fixpoint pat_iter (fuel : nat) (buf : list N) : res (list program_descriptor) :=
  match fuel with
  | O => Panic 505
  | S fuel' =>
      if Nat.eqb (length buf) 0 then Ok []
      else if Nat.ltb (length buf) 4 then Ok []
      else
        do sp <- split_at buf 4 506;
        do d <- pd_from_bytes (fst sp);
        do rest <- pat_iter fuel' (snd sp);
        Ok (d :: rest)
  end.
Definition pat_programs (body : list N) : res (list program_descriptor) := pat_iter (S (length body)) body.

(* ---- PMT ---- *)
Inductive demux_err := DemuxNotEnoughData (field : N) (expected actual : nat).   (* field: 0 = program_map_section, 1 = descriptor *)
Definition PMT_HEADER_SIZE : nat := 4.
Definition SI_HEADER_SIZE : nat := 5.

Definition pmt_program_info_length (data : list N) : res nat :=
  do d2 <- idx data 2 507; do d3 <- idx data 3 508;
  Ok (N.to_nat (N.lor (N.shiftl (N.land d2 15) 8) d3)).

(* PmtSection::from_bytes(data) *)
Definition pmt_from_bytes (data : list N) : res (rresult (list N) demux_err) :=
  if Nat.ltb (length data) PMT_HEADER_SIZE then Ok (RErr (DemuxNotEnoughData 0 PMT_HEADER_SIZE (length data)))
  else
    do pil <- pmt_program_info_length data;
    let expected := (pil + PMT_HEADER_SIZE)%nat in
    if Nat.ltb (length data) expected then Ok (RErr (DemuxNotEnoughData 1 expected (length data)))
    else Ok (ROk data).

Definition pmt_pcr_pid (data : list N) : res N :=
  do d0 <- idx data 0 509; do d1 <- idx data 1 510;
  pid_new (N.lor (N.shiftl (N.land d0 31) 8) d1).

(* descriptors(): the program-info bytes, as (offset, bytes) *)
Definition pmt_descriptor_bytes (data : list N) : res (nat * list N) :=
  do pil <- pmt_program_info_length data;
  do s <- slice data PMT_HEADER_SIZE (PMT_HEADER_SIZE + pil) 511;
  Ok (PMT_HEADER_SIZE, s).

(* StreamInfo *)
Record stream_info := { si_off : nat; si_data : list N }.   (* data runs to the end of the PMT body *)

Definition si_es_info_length (d : list N) : res nat :=
  do d3 <- idx d 3 512; do d4 <- idx d 4 513;
  Ok (N.to_nat (N.lor (N.shiftl (N.land d3 15) 8) d4)).

(* StreamInfo::from_bytes(data) -> Option<(StreamInfo, usize)> *)
Definition si_from_bytes (data : list N) : res (option nat) :=
  if Nat.ltb (length data) SI_HEADER_SIZE then Ok None
  else
    do esl <- si_es_info_length data;
    let descriptor_end := (SI_HEADER_SIZE + esl)%nat in
    if Nat.ltb (length data) descriptor_end then Ok None else Ok (Some descriptor_end).

Definition si_stream_type (s : stream_info) : res N := idx (si_data s) 0 514.
Definition si_elementary_pid (s : stream_info) : res N :=
  do d1 <- idx (si_data s) 1 515; do d2 <- idx (si_data s) 2 516;
  pid_new (N.lor (N.shiftl (N.land d1 31) 8) d2).
Definition si_descriptor_bytes (s : stream_info) : res (nat * list N) :=
  do esl <- si_es_info_length (si_data s);
  do b <- slice (si_data s) SI_HEADER_SIZE (SI_HEADER_SIZE + esl) 517;
  Ok ((si_off s + SI_HEADER_SIZE)%nat, b).

(* StreamInfoIter, iterated to exhaustion *)
Fixpoint si_iter (fuel : nat) (off : nat) (buf : list N) : res (list stream_info) :=
  match fuel with
  | O => Panic 518
  | S fuel' =>
      if Nat.eqb (length buf) 0 then Ok []
      else
        do r <- si_from_bytes buf;
        match r with
        | None => Ok []
        | Some info_len =>
            do rest_buf <- slice_from buf info_len 519;
            do rest <- si_iter fuel' (off + info_len) rest_buf;
            Ok ({| si_off := off; si_data := buf |} :: rest)
        end
  end.

(* PmtSection::streams() *)
Definition pmt_streams (data : list N) : res (list stream_info) :=
  do pil <- pmt_program_info_length data;
  let descriptor_end := (PMT_HEADER_SIZE + pil)%nat in
  if Nat.ltb (length data) descriptor_end then
    do e <- slice data 0 0 520; si_iter 1 0 e
  else
    do b <- slice_from data descriptor_end 521;
    si_iter (S (length b)) descriptor_end b.
