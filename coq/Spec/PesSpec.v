(* Spec/PesSpec.v — ISO/IEC 13818-1 2.4.3.6/2.4.3.7 (Table 2-21) PES packet header, as uimsbf fields
   and a sequential byte-cursor reader over the optional header. *)
From TS Require Import Base.Res Base.Bits Model.Timestamp Model.Packet Model.Pes Spec.TimestampSpec Spec.AdaptationSpec.
Open Scope N_scope.

(* packet_start_code_prefix 24 | stream_id 8 | PES_packet_length 16 *)
Definition s_pes_accept (buf : list N) : bool := Nat.leb 6 (length buf) && (field buf 0 24 =? 1).
Definition s_stream_id (buf : list N) : N := field buf 24 8.
Definition s_packet_length (buf : list N) : N := field buf 32 16.

(* stream ids whose PES packets carry no optional header (2.4.3.7): program_stream_map, padding_stream,
   private_stream_2, ECM, EMM, program_stream_directory, DSMCC_stream, ITU-T H.222.1 type E *)
Definition s_headerless (sid : N) : bool :=
  existsb (N.eqb sid) [188; 190; 191; 240; 241; 255; 242; 248].

(* optional header, c = the bytes after PES_packet_length:
   '10' 2 | scrambling 2 | priority 1 | alignment 1 | copyright 1 | original_or_copy 1 |
   PTS_DTS_flags 2 | ESCR 1 | ES_rate 1 | DSM_trick_mode 1 | additional_copy_info 1 | PES_CRC 1 | extension 1 |
   PES_header_data_length 8 *)
Definition s_hdl (c : list N) : nat := N.to_nat (field c 16 8).
Definition s_ptsdts_size (c : list N) : nat :=
  if field c 8 2 =? 2 then 5%nat else if field c 8 2 =? 3 then 10%nat else 0%nat.
Definition s_need (c : list N) : nat :=
  (s_ptsdts_size c + (if bitf c 10 then 6 else 0) + (if bitf c 11 then 3 else 0)
   + (if bitf c 12 then 1 else 0) + (if bitf c 13 then 1 else 0) + (if bitf c 14 then 2 else 0))%nat.

(* a header is rejected exactly when the '10' marker, the declared header length or the flag-implied
   field sizes are inconsistent with the bytes available *)
Definition s_ppc_accept (c : list N) : bool :=
  Nat.leb 3 (length c) && (field c 0 2 =? 2) && Nat.leb (3 + s_hdl c) (length c) && Nat.leb (s_need c) (s_hdl c).

Record s_ppc_view := {
  w_priority : N; w_alignment : bool; w_copyright : bool (* true = protected: bit = 1 *); w_original : bool;
  w_pts_dts : rresult pts_dts pes_err;
  w_escr : rresult clockref pes_err;
  w_es_rate : rresult N pes_err;
  w_trick : rresult trick_mode pes_err;
  w_copy_info : rresult N pes_err;
  w_crc : rresult N pes_err;
  w_extension : rresult (list N) pes_err;
  w_payload : nat * list N }.

Definition win (c : list N) (pos n : nat) : list N := firstn n (skipn pos c).
Definition gone {A} : rresult A pes_err := RErr PesFieldNotPresent.

(* ESCR: reserved 2 | base[32..30] 3 | marker | base[29..15] 15 | marker | base[14..0] 15 | marker | extension 9 | marker *)
Definition s_escr (w : list N) : clockref :=
  {| cr_base := field w 2 3 * 1073741824 + field w 6 15 * 32768 + field w 22 15; cr_ext := field w 38 9 |}.

(* trick mode (Table 2-24/2-25): control 3 | then per control value *)
Definition s_trick (w : list N) : trick_mode :=
  let control := field w 0 3 in
  if control =? 0 then FastForward (field w 3 2) (bitf w 5) (field w 6 2)
  else if control =? 1 then SlowMotion (field w 3 5)
  else if control =? 2 then FreezeFrame (field w 3 2) (field w 5 3)
  else if control =? 3 then FastReverse (field w 3 2) (bitf w 5) (field w 6 2)
  else if control =? 4 then SlowReverse (field w 3 5)
  else TrickReserved control.

Definition s_ppc_parse (c : list N) : s_ppc_view :=
  let pos := 3%nat in
  let f := field c 8 2 in
  let '(pd, pos) :=
    if f =? 0 then (gone, pos)
    else if f =? 1 then (RErr PesPtsDtsFlagsInvalid, pos)
    else if f =? 2 then (ROk (PtsOnly (s_ts_decode (win c pos 5))), (pos + 5)%nat)
    else (ROk (PtsBoth (s_ts_decode (win c pos 5)) (s_ts_decode (win c (pos + 5) 5))), (pos + 10)%nat) in
  let '(escr, pos) := if bitf c 10 then (ROk (s_escr (win c pos 6)), (pos + 6)%nat) else (gone, pos) in
  (* marker 1 | ES_rate 22 | marker 1 *)
  let '(er, pos) := if bitf c 11 then (ROk (field (win c pos 3) 1 22), (pos + 3)%nat) else (gone, pos) in
  let '(tm, pos) := if bitf c 12 then (ROk (s_trick (win c pos 1)), (pos + 1)%nat) else (gone, pos) in
  (* marker 1 | additional_copy_info 7 *)
  let '(aci, pos) :=
    if bitf c 13 then ((if bitf (win c pos 1) 0 then ROk (field (win c pos 1) 1 7) else RErr PesMarkerBitNotSet), (pos + 1)%nat)
    else (gone, pos) in
  let '(crc, pos) := if bitf c 14 then (ROk (field (win c pos 2) 0 16), (pos + 2)%nat) else (gone, pos) in
  let ext := if bitf c 15 then ROk (win c pos (3 + s_hdl c - pos)) else gone in
  {| w_priority := field c 4 1; w_alignment := bitf c 5; w_copyright := bitf c 6; w_original := bitf c 7;
     w_pts_dts := pd; w_escr := escr; w_es_rate := er; w_trick := tm; w_copy_info := aci; w_crc := crc;
     w_extension := ext; w_payload := ((3 + s_hdl c)%nat, skipn (3 + s_hdl c) c) |}.
