(* Proofs/PacketProofs.v — the packet model equals the bit-field specification (C12). *)
From Coq Require Import List NArith Lia ZArith ZifyN ZifyNat ZifyBool Bool.
From TS Require Import Base.Res Base.ListX Base.Bits Model.Timestamp Model.Packet Spec.PacketSpec.
Import ListNotations.
Open Scope N_scope.
Ltac Zify.zify_post_hook ::= Z.div_mod_to_equations.

(* a field inside byte i of a byte string *)
Lemma field_nth bs i b off w :
  Forall is_byte bs -> nth_error bs i = Some b -> off + w <= 8 ->
  field bs (8 * N.of_nat i + off) w = field [b] off w.
Proof.
  intros Hb Hn Hfit.
  assert (Hlen : (i < length bs)%nat) by (apply nth_error_Some; congruence).
  rewrite (field_window_at bs i 1 off w Hb); [|lia|lia].
  f_equal.
  rewrite <- (firstn_skipn i bs) in Hn.
  rewrite nth_error_app2 in Hn by (rewrite firstn_length; lia).
  rewrite firstn_length in Hn. replace (i - Nat.min i (length bs))%nat with 0%nat in Hn by lia.
  destruct (skipn i bs) as [|x r]; cbn in Hn; [discriminate|]. inversion Hn; subst. reflexivity.
Qed.

(* a field inside bytes i, i+1 *)
Lemma field_nth2 bs i a b off w :
  Forall is_byte bs -> nth_error bs i = Some a -> nth_error bs (S i) = Some b -> off + w <= 16 ->
  field bs (8 * N.of_nat i + off) w = field [a; b] off w.
Proof.
  intros Hb Ha Hb' Hfit.
  assert (Hlen : (S i < length bs)%nat) by (apply nth_error_Some; congruence).
  rewrite (field_window_at bs i 2 off w Hb); [|lia|lia].
  f_equal.
  rewrite <- (firstn_skipn i bs) in Ha, Hb'.
  rewrite nth_error_app2 in Ha, Hb' by (rewrite firstn_length; lia).
  rewrite firstn_length in Ha, Hb'.
  replace (i - Nat.min i (length bs))%nat with 0%nat in Ha by lia.
  replace (S i - Nat.min i (length bs))%nat with 1%nat in Hb' by lia.
  destruct (skipn i bs) as [|x [|y r]]; cbn in Ha, Hb'; try discriminate.
  inversion Ha; inversion Hb'; subst. reflexivity.
Qed.

(* ---- single-byte facts, by exhaustive sweep over the 256 byte values ---- *)
Lemma bit_mask_fact (k : N) b : b < 256 -> k < 8 ->
  nz (N.land b (2 ^ (7 - k))) = bitf [b] k.
Proof.
  intros Hb Hk.
  assert (Hk' : k = 0 \/ k = 1 \/ k = 2 \/ k = 3 \/ k = 4 \/ k = 5 \/ k = 6 \/ k = 7) by lia.
  destruct Hk' as [->|[->|[->|[->|[->|[->|[->| ->]]]]]]];
    (apply eqb_true_iff; [| | ]; try exact true; idtac) || idtac.
  all: apply Bool.eqb_prop; revert b Hb; apply byte_sweep; vm_compute; reflexivity.
Qed.

Lemma byte_bit b k : b < 256 -> k < 8 -> forall m, m = 2 ^ (7 - k) -> nz (N.land b m) = bitf [b] k.
Proof. intros; subst; apply bit_mask_fact; assumption. Qed.

Lemma pid_fact a b : a < 256 -> b < 256 -> N.lor (N.shiftl (N.land a 31) 8) b = field [a; b] 3 13.
Proof. intros Ha Hb. apply N.eqb_eq. sweep2 a b Ha Hb. Qed.

Lemma scheme_fact b : b < 256 -> N.shiftr b 6 = field [b] 0 2.
Proof. intros H. apply N.eqb_eq. sweep1 b H. Qed.
Lemma scrambled_fact b : b < 256 -> nz (N.land b 192) = negb (field [b] 0 2 =? 0).
Proof. intros H. apply Bool.eqb_prop. sweep1 b H. Qed.
Lemma cc_fact b : b < 256 -> N.land b 15 = field [b] 4 4.
Proof. intros H. apply N.eqb_eq. sweep1 b H. Qed.
Lemma cc_lt b : b < 256 -> N.land b 15 <? 16 = true.
Proof. intros H. sweep1 b H. Qed.
Lemma afc_fact b : b < 256 ->
  field [b] 2 2 = 2 * b2n (ac_has_adaptation_field b) + b2n (ac_has_payload b).
Proof. intros H. apply N.eqb_eq. sweep1 b H. Qed.
Lemma afl_fact b : b < 256 -> field [b] 0 8 = b.
Proof. intros H. apply N.eqb_eq. sweep1 b H. Qed.

(* ---- packets as five header bytes plus 183 more ---- *)
Lemma pkt_shape (p : list N) : length p = 188%nat ->
  exists b0 b1 b2 b3 b4 rest, p = b0 :: b1 :: b2 :: b3 :: b4 :: rest /\ length rest = 183%nat.
Proof.
  intros H. destruct p as [|b0 [|b1 [|b2 [|b3 [|b4 rest]]]]]; cbn in H; try lia.
  exists b0, b1, b2, b3, b4, rest. split; [reflexivity|lia].
Qed.

Section Fields.
Variables (b0 b1 b2 b3 b4 : N) (rest : list N).
Let p := b0 :: b1 :: b2 :: b3 :: b4 :: rest.
Hypothesis Hok : bytes_ok p.

Lemma Hbytes : Forall is_byte p. Proof. exact Hok. Qed.
Lemma B0 : b0 < 256. Proof. pose proof Hbytes as H. inversion H; assumption. Qed.
Lemma B1 : b1 < 256. Proof. pose proof Hbytes as H. do 1 (inversion H as [|? ? _ H']; clear H; rename H' into H). inversion H; assumption. Qed.
Lemma B2 : b2 < 256. Proof. pose proof Hbytes as H. do 2 (inversion H as [|? ? _ H']; clear H; rename H' into H). inversion H; assumption. Qed.
Lemma B3 : b3 < 256. Proof. pose proof Hbytes as H. do 3 (inversion H as [|? ? _ H']; clear H; rename H' into H). inversion H; assumption. Qed.
Lemma B4 : b4 < 256. Proof. pose proof Hbytes as H. do 4 (inversion H as [|? ? _ H']; clear H; rename H' into H). inversion H; assumption. Qed.

Lemma f_byte1 off w : off + w <= 8 -> field p (8 + off) w = field [b1] off w.
Proof. intros. change 8 with (8 * N.of_nat 1) at 1. apply field_nth; [exact Hbytes|reflexivity|assumption]. Qed.
Lemma f_byte3 off w : off + w <= 8 -> field p (24 + off) w = field [b3] off w.
Proof. intros. change 24 with (8 * N.of_nat 3) at 1. apply field_nth; [exact Hbytes|reflexivity|assumption]. Qed.
Lemma f_byte4 off w : off + w <= 8 -> field p (32 + off) w = field [b4] off w.
Proof. intros. change 32 with (8 * N.of_nat 4) at 1. apply field_nth; [exact Hbytes|reflexivity|assumption]. Qed.
Lemma f_byte12 off w : off + w <= 16 -> field p (8 + off) w = field [b1; b2] off w.
Proof. intros. change 8 with (8 * N.of_nat 1) at 1. apply field_nth2; [exact Hbytes|reflexivity|reflexivity|assumption]. Qed.

Lemma m_tei_spec : pkt_transport_error_indicator p = Ok (s_tei p).
Proof.
  unfold pkt_transport_error_indicator, s_tei, bitf. cbn [idx nth_error p bind].
  f_equal. change 8 with (8 + 0). rewrite f_byte1 by lia. apply (bit_mask_fact 0); [apply B1|lia].
Qed.
Lemma m_pusi_spec : pkt_payload_unit_start_indicator p = Ok (s_pusi p).
Proof.
  unfold pkt_payload_unit_start_indicator, s_pusi, bitf. cbn [idx nth_error p bind].
  f_equal. change 9 with (8 + 1). rewrite f_byte1 by lia. apply (bit_mask_fact 1); [apply B1|lia].
Qed.
Lemma m_priority_spec : pkt_transport_priority p = Ok (s_priority p).
Proof.
  unfold pkt_transport_priority, s_priority, bitf. cbn [idx nth_error p bind].
  f_equal. change 10 with (8 + 2). rewrite f_byte1 by lia. apply (bit_mask_fact 2); [apply B1|lia].
Qed.
Lemma m_pid_spec : pkt_pid p = Ok (s_pid p).
Proof.
  unfold pkt_pid, s_pid. cbn [idx nth_error p bind].
  f_equal. change 11 with (8 + 3). rewrite f_byte12 by lia. apply pid_fact; [apply B1|apply B2].
Qed.
Lemma m_tsc_spec : exists b, pkt_transport_scrambling_control p = Ok b /\
  tsc_scheme b = s_scrambling p /\ tsc_is_scrambled b = negb (s_scrambling p =? 0).
Proof.
  exists b3. split; [reflexivity|]. unfold s_scrambling. change 24 with (24 + 0). rewrite f_byte3 by lia.
  split; [apply scheme_fact, B3|apply scrambled_fact, B3].
Qed.
Lemma m_ac_spec : exists b, pkt_adaptation_control p = Ok b /\
  s_afc p = 2 * b2n (ac_has_adaptation_field b) + b2n (ac_has_payload b).
Proof.
  exists b3. split; [reflexivity|]. unfold s_afc. change 26 with (24 + 2). rewrite f_byte3 by lia.
  apply afc_fact, B3.
Qed.
Lemma m_cc_spec : pkt_continuity_counter p = Ok (s_counter p).
Proof.
  unfold pkt_continuity_counter, s_counter, cc_new, assert. cbn [idx nth_error p bind].
  rewrite (cc_lt b3 B3). cbn [bind]. f_equal. change 28 with (24 + 4). rewrite f_byte3 by lia.
  apply cc_fact, B3.
Qed.
Lemma s_afl_b4 : s_af_length p = b4.
Proof. unfold s_af_length. change 32 with (32 + 0). rewrite f_byte4 by lia. apply afl_fact, B4. Qed.
Lemma s_pid_range : s_pid p <= 8191.
Proof.
  unfold s_pid, field. pose proof (N.mod_upper_bound (be p / 2 ^ (nbits p - 11 - 13)) (2^13)).
  change (2^13) with 8192 in *. lia.
Qed.

Hypothesis Hlen : length rest = 183%nat.

Lemma m_af_spec :
  pkt_adaptation_field p = Ok (range_bytes p (s_af_range (s_afc p) (s_af_length p))).
Proof.
  destruct m_ac_spec as [b [Hb Hafc]]. rewrite Hafc, s_afl_b4.
  unfold pkt_adaptation_field. rewrite Hb. cbn [bind].
  unfold pkt_adaptation_field_length. cbn [idx nth_error p bind].
  pose proof B4 as HB4. unfold s_af_range.
  destruct (ac_has_adaptation_field b); destruct (ac_has_payload b); cbn [b2n]; try reflexivity.
  - (* both *)
    change (2 * 1 + 1 =? 2) with false. change (2 * 1 + 1 =? 3) with true. cbv iota.
    destruct (Nat.ltb_spec 182 (N.to_nat b4)) as [H|H].
    + replace (b4 <=? 182) with false by lia. rewrite andb_false_r. reflexivity.
    + destruct (Nat.eqb_spec (N.to_nat b4) 0) as [H0|H0].
      * replace (1 <=? b4) with false by lia. reflexivity.
      * replace (1 <=? b4) with true by lia. replace (b4 <=? 182) with true by lia. cbn [andb].
        unfold pkt_mk_af, slice, ADAPTATION_FIELD_OFFSET.
        assert (Hl : length p = 188%nat) by (unfold p; cbn [length]; lia).
        rewrite Hl.
        replace ((5 <=? 5 + N.to_nat b4)%nat) with true by (symmetry; apply Nat.leb_le; lia).
        replace ((5 + N.to_nat b4 <=? 188)%nat) with true by (symmetry; apply Nat.leb_le; lia).
        cbn [andb bind]. unfold af_new, assert.
        replace (5 + N.to_nat b4 - 5)%nat with (N.to_nat b4) by lia.
        rewrite firstn_length, skipn_length, Hl.
        replace (Nat.min (N.to_nat b4) (188 - 5)) with (N.to_nat b4) by lia.
        replace (Nat.eqb (N.to_nat b4) 0) with false by (symmetry; apply Nat.eqb_neq; lia).
        reflexivity.
  - (* adaptation field only *)
    change (2 * 1 + 0 =? 2) with true. cbv iota.
    unfold PKT_SIZE, ADAPTATION_FIELD_OFFSET. change (188 - 5)%nat with 183%nat.
    destruct (Nat.eqb_spec (N.to_nat b4) 183) as [H|H].
    + replace (b4 =? 183) with true by lia. cbn [negb].
      unfold pkt_mk_af, slice, ADAPTATION_FIELD_OFFSET.
      assert (Hl : length p = 188%nat) by (unfold p; cbn [length]; lia).
      rewrite Hl, H. cbn [Nat.leb andb Nat.add bind].
      unfold af_new, assert. rewrite firstn_length, skipn_length, Hl.
      cbn. reflexivity.
    + replace (b4 =? 183) with false by lia. reflexivity.
Qed.

Lemma m_payload_spec :
  pkt_payload p = Ok (range_bytes p (s_payload_range (s_afc p) (s_af_length p))).
Proof.
  destruct m_ac_spec as [b [Hb Hafc]]. rewrite Hafc, s_afl_b4.
  unfold pkt_payload. rewrite Hb. cbn [bind].
  pose proof B4 as HB4. unfold s_payload_range.
  assert (Hl : length p = 188%nat) by (unfold p; cbn [length]; lia).
  destruct (ac_has_payload b) eqn:Hp; destruct (ac_has_adaptation_field b) eqn:Ha; cbn [b2n].
  - change (2 * 1 + 1 =? 1) with false. change (2 * 1 + 1 =? 3) with true. cbv iota.
    unfold pkt_mk_payload, pkt_content_offset. rewrite Hb. cbn [bind]. rewrite Ha.
    unfold pkt_adaptation_field_length. cbn [idx nth_error p bind]. rewrite Hl.
    unfold ADAPTATION_FIELD_OFFSET.
    destruct (Nat.compare_spec (5 + N.to_nat b4) 188) as [H|H|H].
    + replace (b4 <=? 182) with false by lia. reflexivity.
    + replace (b4 <=? 182) with true by lia. unfold slice_from. rewrite Hl.
      replace ((5 + N.to_nat b4 <=? 188)%nat) with true by (symmetry; apply Nat.leb_le; lia).
      cbn [bind range_bytes]. do 3 f_equal. symmetry. apply firstn_all2. rewrite skipn_length, Hl. lia.
    + replace (b4 <=? 182) with false by lia. reflexivity.
  - change (2 * 0 + 1 =? 1) with true. cbv iota.
    unfold pkt_mk_payload, pkt_content_offset. rewrite Hb. cbn [bind]. rewrite Ha.
    cbn [bind]. rewrite Hl. unfold FIXED_HEADER_SIZE. cbn [Nat.compare].
    unfold slice_from. rewrite Hl. cbn [Nat.leb bind range_bytes]. do 3 f_equal.
    symmetry. apply firstn_all2. rewrite skipn_length, Hl. lia.
  - change (2 * 1 + 0 =? 1) with false. change (2 * 1 + 0 =? 3) with false. reflexivity.
  - reflexivity.
Qed.
End Fields.

(* ---- statements over arbitrary 188-byte strings ---- *)
Lemma c12_fields (p : list N) : length p = 188%nat -> bytes_ok p ->
  pkt_transport_error_indicator p = Ok (s_tei p) /\
  pkt_payload_unit_start_indicator p = Ok (s_pusi p) /\
  pkt_transport_priority p = Ok (s_priority p) /\
  pkt_pid p = Ok (s_pid p) /\ s_pid p <= 8191 /\
  (exists b, pkt_transport_scrambling_control p = Ok b /\
     tsc_scheme b = s_scrambling p /\ tsc_is_scrambled b = negb (s_scrambling p =? 0)) /\
  (exists b, pkt_adaptation_control p = Ok b /\
     s_afc p = 2 * b2n (ac_has_adaptation_field b) + b2n (ac_has_payload b)) /\
  pkt_continuity_counter p = Ok (s_counter p).
Proof.
  intros Hl Hok. destruct (pkt_shape p Hl) as (b0 & b1 & b2 & b3 & b4 & rest & -> & Hr).
  repeat split.
  - apply m_tei_spec, Hok.
  - apply m_pusi_spec, Hok.
  - apply m_priority_spec, Hok.
  - apply m_pid_spec, Hok.
  - apply s_pid_range.
  - apply m_tsc_spec, Hok.
  - apply m_ac_spec, Hok.
  - apply m_cc_spec, Hok.
Qed.

Lemma c12_split (p : list N) : length p = 188%nat -> bytes_ok p ->
  pkt_adaptation_field p = Ok (range_bytes p (s_af_range (s_afc p) (s_af_length p))) /\
  pkt_payload p = Ok (range_bytes p (s_payload_range (s_afc p) (s_af_length p))).
Proof.
  intros Hl Hok. destruct (pkt_shape p Hl) as (b0 & b1 & b2 & b3 & b4 & rest & -> & Hr).
  split; [apply m_af_spec | apply m_payload_spec]; assumption.
Qed.

(* the ranges the specification names are disjoint, inside the packet, and a payload is never
   empty and ends at byte 187 *)
Lemma c12_ranges afc L : afc < 4 -> L < 256 ->
  match s_af_range afc L, s_payload_range afc L with
  | Some (ao, al), Some (po, pl) => (5 <= ao /\ 0 < al /\ ao + al = po /\ 0 < pl /\ po + pl = 188)%nat
  | Some (ao, al), None => (ao = 5 /\ 0 < al /\ ao + al <= 188)%nat
  | None, Some (po, pl) => (4 <= po /\ 0 < pl /\ po + pl = 188)%nat
  | None, None => True
  end.
Proof.
  intros Ha HL. unfold s_af_range, s_payload_range.
  assert (Hc : afc = 0 \/ afc = 1 \/ afc = 2 \/ afc = 3) by lia.
  destruct Hc as [->|[->|[->| ->]]]; cbn [N.eqb Pos.eqb].
  - exact I.
  - lia.
  - destruct (L =? 183); [lia|exact I].
  - destruct (N.leb_spec 1 L), (N.leb_spec L 182); cbn [andb]; try lia; exact I.
Qed.

Lemma c12_try_new (buf : list N) : length buf = 188%nat -> bytes_ok buf ->
  pkt_try_new buf = Ok (if s_sync buf =? 71 then Some buf else None).
Proof.
  intros Hl Hok. unfold pkt_try_new, assert, PKT_SIZE. rewrite Hl. cbn [Nat.eqb bind].
  destruct buf as [|b0 r]; [discriminate|]. cbn [idx nth_error bind].
  unfold s_sync. change 0 with (8 * N.of_nat 0 + 0) at 1.
  rewrite (field_nth (b0 :: r) 0 b0 0 8 Hok eq_refl) by lia.
  rewrite afl_fact by (inversion Hok; assumption). reflexivity.
Qed.
