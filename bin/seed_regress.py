#!/usr/bin/env python3
"""bin/seed_regress.py — re-run the target check of every confirmed seeded change (seeded/C*/patch.diff) against the current
machinery: apply to /repo, run the check, undo.  Prints one line per change; exit 1 if one is no longer caught."""
import glob, json, os, subprocess, sys, time
ENV = dict(os.environ, CARGO_NET_OFFLINE="true")
def sh(cmd, timeout=3600):
    p = subprocess.run(cmd, shell=True, stdout=subprocess.PIPE, stderr=subprocess.STDOUT, env=ENV, timeout=timeout, cwd="/verif")
    return p.returncode, p.stdout.decode("utf-8", "replace")
bad = []
only = set(sys.argv[1:])
for d in sorted(glob.glob("/verif/seeded/C*/")):
    name = os.path.basename(d.rstrip("/"))
    if only and name not in only: continue
    meta = json.load(open(d + "meta.json")); prop = meta.get("property", name.split("_")[0])
    rc, out = sh(f"git -C /repo apply {d}patch.diff")
    if rc != 0: print(name, "patch does not apply", flush=True); bad.append(name); continue
    try:
        t0 = time.time(); rc, out = sh(f"bin/check {prop}")
        v = [l for l in out.splitlines() if l.startswith("VIOLATION")]
        print(name, prop, "caught" if (rc == 1 and v) else "MISSED", "(no-failing-input-found)" if any("no-failing" in l for l in v) else "", f"{time.time()-t0:.0f}s", flush=True)
        if not (rc == 1 and v): bad.append(name)
    finally:
        sh("git -C /repo checkout -- .")
print("not caught:", bad)
sys.exit(1 if bad else 0)
