(* Proofs/DeepTotality.v — C01, deep observer: every accessor (and hence every Debug rendering, which only
   calls accessors) of every object handed to an application call-back is total. *)
From Coq Require Import List NArith Lia ZArith ZifyN ZifyNat ZifyBool Bool.
From TS Require Import Base.Res Base.ListX Base.Bits Model.Timestamp Model.Packet Model.PacketObs Model.Pes Model.PesObs
  Model.Descriptor Model.Tables Model.TablesObs Model.PesFilter Model.Crc Model.Psi Model.Demux
  Spec.PacketSpec Spec.AdaptationSpec Spec.PesSpec Spec.DescriptorSpec Spec.TablesSpec Spec.Dispatch
  Proofs.PacketProofs Proofs.AdaptationProofs Proofs.PesProofs Proofs.DescriptorProofs Proofs.TablesProofs
  Proofs.PesFilterProofs.
Import ListNotations.
Open Scope N_scope.

Definition pkt_ok (pk : pkt) : Prop := length pk = 188%nat /\ bytes_ok pk.

(* ---- adaptation field and packet ---- *)
Lemma obs_afe_total e : (1 <= length e)%nat -> bytes_ok e -> exists o, obs_afe e = Ok o.
Proof.
  intros Hl Hb. destruct (c13_afe e Hl Hb) as (E1 & E2 & E3). unfold obs_afe. rewrite E1, E2, E3. cbn [bind]. eauto.
Qed.

Lemma obs_af_total base b : (1 <= length b)%nat -> bytes_ok b -> exists o, obs_af base b = Ok o.
Proof.
  intros Hl Hb. destruct (c13_af b Hl Hb) as (E1 & E2 & E3 & E4 & E5 & E6 & E7 & E8).
  unfold obs_af. rewrite E1, E2, E3, E4, E5, E6, E7, E8. cbn [bind].
  destruct (v_extension (s_af_parse b)) as [e|er] eqn:Ee; cbn [bind]; [|eauto].
  destruct (c13_inside b Hb) as (_ & Hext). destruct (Hext e Ee) as ((H1 & _) & Heb).
  destruct (obs_afe_total e H1 Heb) as [o Eo]. rewrite Eo. cbn [bind]. eauto.
Qed.

Lemma obs_packet_total pk : pkt_ok pk -> exists o, obs_packet pk = Ok o.
Proof.
  intros (Hl & Hok).
  destruct (c12_fields pk Hl Hok) as (E1 & E2 & E3 & E4 & _ & (tsc & E5 & _) & (ac & E6 & _) & E7).
  destruct (c12_split pk Hl Hok) as (E8 & E9).
  unfold obs_packet. rewrite E1, E2, E3, E4, E5, E6, E7, E8, E9. cbn [bind].
  destruct (s_af_range (s_afc pk) (s_af_length pk)) as [[ao al]|] eqn:Ea; cbn [range_bytes bind]; [|eauto].
  assert (Ha : s_afc pk < 4) by (unfold s_afc, field; pose proof (N.mod_upper_bound (be pk / 2 ^ (nbits pk - 26 - 2)) (2^2)); change (2^2) with 4 in *; lia).
  assert (HL : s_af_length pk < 256) by (unfold s_af_length, field; pose proof (N.mod_upper_bound (be pk / 2 ^ (nbits pk - 32 - 8)) (2^8)); change (2^8) with 256 in *; lia).
  pose proof (c12_ranges (s_afc pk) (s_af_length pk) Ha HL) as Hr. rewrite Ea in Hr.
  assert (Hlen : (1 <= length (firstn al (skipn ao pk)))%nat).
  { rewrite firstn_length, skipn_length, Hl. destruct (s_payload_range (s_afc pk) (s_af_length pk)) as [[po pl]|]; lia. }
  destruct (obs_af_total ao (firstn al (skipn ao pk)) Hlen) as [o Eo]; [apply Forall_firstn, Forall_skipn, Hok|].
  rewrite Eo. cbn [bind]. eauto.
Qed.

(* ---- PES header handed to begin_packet ---- *)
Lemma obs_ppc_total pol g base c : bytes_ok c -> s_ppc_accept c = true -> exists o, obs_ppc_at pol g base c = Ok o.
Proof.
  intros Hb Ha. destruct (c14_fields c Hb Ha) as (E1 & E2 & E3 & E4 & E5 & E6 & E7 & E8 & E9 & E10 & E11).
  pose proof (c14_copyright_inverted c Hb Ha) as Ec.
  unfold obs_ppc_at. rewrite E1, E2, Ec, E3, E4, E5, E6, E7, E8, E9, E10, E11. cbn [bind]. eauto.
Qed.

(* ---- descriptor loops, PMT, streams ---- *)
Lemma variant_facts tag : tag < 256 ->
  (s_variant tag = V_REGISTRATION -> tag = 5) /\ (s_variant tag = V_MAXBITRATE -> tag = 14) /\ (s_variant tag = V_AVC -> tag = 40).
Proof.
  intros H.
  assert (E : ((negb (s_variant tag =? V_REGISTRATION) || (tag =? 5)) && (negb (s_variant tag =? V_MAXBITRATE) || (tag =? 14))
               && (negb (s_variant tag =? V_AVC) || (tag =? 40))) = true) by (sweep1 tag H).
  rewrite !andb_true_iff, !orb_true_iff, !negb_true_iff, !N.eqb_eq, !N.eqb_neq in E.
  destruct E as [[E1 E2] E3]. repeat split; intros Hv; [destruct E1|destruct E2|destruct E3]; congruence.
Qed.

Lemma obs_desc_total d : bytes_ok (d_payload d) -> d_tag d < 256 -> d_variant d = s_variant (d_tag d) ->
  (s_min_payload (d_tag d) <= length (d_payload d))%nat -> exists o, obs_desc d = Ok o.
Proof.
  intros Hb Ht Hv Hm. destruct (variant_facts (d_tag d) Ht) as (F1 & F2 & F3). unfold obs_desc.
  destruct (N.eqb_spec (d_variant d) V_REGISTRATION) as [E|_].
  { rewrite Hv in E. rewrite (F1 E) in Hm. cbn in Hm. destruct (c17_registration (d_payload d) Hm) as (E1 & E2). rewrite E1, E2. cbn [bind]. eauto. }
  destruct (N.eqb_spec (d_variant d) V_ISO639) as [E|_].
  { rewrite c17_languages. cbn [bind]. eauto. }
  destruct (N.eqb_spec (d_variant d) V_MAXBITRATE) as [E|_].
  { rewrite Hv in E. rewrite (F2 E) in Hm. cbn in Hm. destruct (c17_max_bitrate (d_payload d) Hm Hb) as (E1 & E2 & _). rewrite E1, E2. cbn [bind]. eauto. }
  destruct (N.eqb_spec (d_variant d) V_AVC) as [E|_].
  { rewrite Hv in E. rewrite (F3 E) in Hm. cbn in Hm. rewrite (c17_avc (d_payload d) Hm Hb). cbn [bind]. eauto. }
  eauto.
Qed.

Definition item_ok (r : rresult desc desc_err) : Prop :=
  match r with
  | ROk d => bytes_ok (d_payload d) /\ d_tag d < 256 /\ d_variant d = s_variant (d_tag d) /\ (s_min_payload (d_tag d) <= length (d_payload d))%nat
  | RErr _ => True
  end.

Lemma s_items_ok ds : forall base, tags_ok ds -> Forall (fun d => bytes_ok (snd d)) ds -> Forall item_ok (s_items base ds).
Proof.
  induction ds as [|[tag payload] ds IH]; intros base Ht Hb; [constructor|].
  inversion Ht as [|? ? Ht1 Ht']; inversion Hb as [|? ? Hb1 Hb']; subst. cbn [fst snd] in *. cbn [s_items].
  constructor; [|apply IH; assumption].
  unfold s_item. destruct (Nat.ltb_spec (length payload) (s_min_payload tag)); cbn [item_ok]; [exact I|].
  cbn [d_payload d_tag d_variant]. auto.
Qed.

Lemma obs_desc_items_total l : Forall item_ok l -> exists o, obs_desc_items l = Ok o.
Proof.
  induction l as [|r l IH]; intros H; [exists []; reflexivity|].
  inversion H as [|? ? Hr Hl]; subst. destruct (IH Hl) as [o Eo].
  destruct r as [d|e]; cbn [obs_desc_items].
  - destruct Hr as (H1 & H2 & H3 & H4). destruct (obs_desc_total d H1 H2 H3 H4) as [od Ed]. rewrite Ed. cbn [bind]. rewrite Eo. cbn [bind]. eauto.
  - rewrite Eo. cbn [bind]. eauto.
Qed.

Lemma enc_loop_bytes ds : bytes_ok (enc_loop ds) -> Forall (fun d => bytes_ok (snd d)) ds.
Proof.
  induction ds as [|[tag payload] ds IH]; intros H; [constructor|].
  rewrite enc_loop_cons in H. apply Forall_app in H. destruct H as [H1 H2]. constructor; [|apply IH, H2].
  unfold enc_desc in H1. cbn [fst snd] in *. inversion H1 as [|? ? _ H1']. inversion H1'; assumption.
Qed.

Lemma obs_desc_loop_total base b : bytes_ok b -> exists o, obs_desc_loop base b = Ok o.
Proof.
  intros Hb. destruct (c17_decompose b Hb) as (ds & tail & -> & Ht & Hn & _).
  unfold obs_desc_loop. rewrite c17_iter by assumption. cbn [bind].
  assert (Hds : Forall (fun d => bytes_ok (snd d)) ds) by (apply enc_loop_bytes; apply Forall_app in Hb; tauto).
  assert (Hit : Forall item_ok (s_items base ds ++ s_tail_item tail)).
  { apply Forall_app. split; [apply s_items_ok; assumption|].
    destruct tail as [|a [|l r]]; cbn [s_tail_item]; repeat constructor. }
  destruct (obs_desc_items_total _ Hit) as [o Eo]. rewrite Eo. cbn [bind]. eauto.
Qed.

Lemma obs_stream_total s : bytes_ok (si_data s) -> (5 <= length (si_data s))%nat ->
  (5 + s_es_info_length (si_data s) <= length (si_data s))%nat -> exists o, obs_stream s = Ok o.
Proof.
  intros Hb Hl Hfit. destruct s as [off d]. cbn [si_data] in *.
  destruct (c16_stream_fields off d Hb Hl) as (E1 & E2 & _). unfold obs_stream. rewrite E1, E2. cbn [bind].
  unfold si_descriptor_bytes. cbn [si_data si_off]. rewrite esl_spec by assumption. cbn [bind].
  unfold slice, SI_HEADER_SIZE. replace (Nat.leb 5 (5 + s_es_info_length d)) with true by (symmetry; apply Nat.leb_le; lia).
  replace (Nat.leb (5 + s_es_info_length d) (length d)) with true by (symmetry; apply Nat.leb_le; lia). cbn [andb bind fst snd].
  destruct (obs_desc_loop_total (off + 5) (firstn (5 + s_es_info_length d - 5) (skipn 5 d))) as [o Eo]; [apply Forall_firstn, Forall_skipn, Hb|].
  rewrite Eo. cbn [bind]. eauto.
Qed.

Lemma s_streams_fit fuel : forall off b, bytes_ok b ->
  Forall (fun s => bytes_ok (si_data s) /\ (5 <= length (si_data s))%nat /\ (5 + s_es_info_length (si_data s) <= length (si_data s))%nat)
         (s_streams fuel off b).
Proof.
  induction fuel as [|fuel IH]; intros off b Hb; [constructor|]. cbn [s_streams].
  destruct (Nat.ltb_spec (length b) 5); [constructor|].
  destruct (Nat.ltb_spec (length b) (5 + s_es_info_length b)); [constructor|].
  constructor; [cbn [si_data]; auto|apply IH, Forall_skipn, Hb].
Qed.

Lemma obs_streams_total l :
  Forall (fun s => bytes_ok (si_data s) /\ (5 <= length (si_data s))%nat /\ (5 + s_es_info_length (si_data s) <= length (si_data s))%nat) l ->
  exists o, obs_streams l = Ok o.
Proof.
  induction l as [|s l IH]; intros H; [exists []; reflexivity|].
  inversion H as [|? ? (H1 & H2 & H3) Hl]; subst. cbn [obs_streams].
  destruct (obs_stream_total s H1 H2 H3) as [o Eo]. rewrite Eo. cbn [bind].
  destruct (IH Hl) as [o2 Eo2]. rewrite Eo2. cbn [bind]. eauto.
Qed.

Lemma obs_pmt_section_total b : bytes_ok b -> s_pmt_accept b = ROk b -> exists o, obs_pmt_section b = Ok o.
Proof.
  intros Hb Ha.
  assert (H4 : (4 <= length b)%nat) by (unfold s_pmt_accept in Ha; destruct (Nat.ltb_spec (length b) 4); [discriminate|lia]).
  unfold obs_pmt_section. destruct (c16_pcr_pid b Hb H4) as (E1 & _). rewrite E1. cbn [bind].
  rewrite (c16_pmt_descriptors b Hb Ha). cbn [bind fst snd].
  destruct (obs_desc_loop_total 4 (firstn (s_program_info_length b) (skipn 4 b))) as [o1 Eo1]; [apply Forall_firstn, Forall_skipn, Hb|].
  rewrite Eo1. cbn [bind]. rewrite (c16_pmt_streams b Hb Ha). cbn [bind].
  match goal with |- context [obs_streams (s_streams ?f ?o (skipn ?k b))] =>
    destruct (obs_streams_total _ (s_streams_fit f o _ (Forall_skipn _ _ k Hb))) as [o2 Eo2] end. rewrite Eo2. cbn [bind]. eauto.
Qed.
