(* Props/C13.v — C13: adaptation-field optional fields decode exactly or report truncation. *)
From TS Require Import Base.Res Base.Bits Model.Timestamp Model.Packet Spec.TimestampSpec Spec.AdaptationSpec Proofs.AdaptationProofs.
Open Scope N_scope.

(* every accessor of a non-empty adaptation-field byte string returns, without panicking, what the
   Table 2-6 reader returns when run on that string alone: FieldNotPresent iff the flag is clear,
   NotEnoughData iff the cursor would pass the end, else the bit-exact value *)
Theorem C13_adaptation_field : forall b : list N, (1 <= length b)%nat -> bytes_ok b ->
  af_discontinuity_indicator b = Ok (v_discontinuity (s_af_parse b)) /\
  af_random_access_indicator b = Ok (v_random_access (s_af_parse b)) /\
  af_es_priority_indicator b = Ok (v_es_priority (s_af_parse b)) /\
  af_pcr b = Ok (v_pcr (s_af_parse b)) /\
  af_opcr b = Ok (v_opcr (s_af_parse b)) /\
  af_splice_countdown b = Ok (v_splice_countdown (s_af_parse b)) /\
  af_transport_private_data b = Ok (v_private (s_af_parse b)) /\
  af_extension b = Ok (v_extension (s_af_parse b)).
Proof. exact c13_af. Qed.
Print Assumptions C13_adaptation_field.

(* the same for the extension: legal time window, piecewise rate, seamless splice *)
Theorem C13_extension : forall e : list N, (1 <= length e)%nat -> bytes_ok e ->
  afe_ltw_offset e = Ok (v_ltw (s_afe_parse e)) /\
  afe_piecewise_rate e = Ok (v_piecewise (s_afe_parse e)) /\
  afe_seamless_splice e = Ok (v_seamless (s_afe_parse e)).
Proof. exact c13_afe. Qed.
Print Assumptions C13_extension.

(* private data and the extension handed out lie inside the adaptation field; the extension is non-empty *)
Theorem C13_inside : forall b : list N, bytes_ok b ->
  (forall off d, v_private (s_af_parse b) = ROk (off, d) ->
     (off + length d <= length b)%nat /\ d = firstn (length d) (skipn off b)) /\
  (forall e, v_extension (s_af_parse b) = ROk e -> (1 <= length e <= length b)%nat /\ bytes_ok e).
Proof. exact c13_inside. Qed.
Print Assumptions C13_inside.

Example C13_nonvacuous :
  let b := [255; 0;0;0;1;128;5; 0;0;0;2;0;7; 9; 2;170;187; 11; 224; 129;1; 0;0;3; 33;0;7;216;97] in
  v_pcr (s_af_parse b) = ROk {| cr_base := 3; cr_ext := 5 |} /\
  v_splice_countdown (s_af_parse b) = ROk 9 /\
  v_private (s_af_parse b) = ROk (15%nat, [170; 187]) /\
  (exists e, v_extension (s_af_parse b) = ROk e /\ v_ltw (s_afe_parse e) = ROk (Some 257) /\
             v_piecewise (s_afe_parse e) = ROk 3 /\ v_seamless (s_afe_parse e) = ROk (2, 126000)).
Proof. vm_compute. repeat split; try reflexivity. eexists. repeat split; reflexivity. Qed.
