//! C17: descriptor loops and typed descriptors.
use crate::mux::*;
use crate::util::*;

pub fn gen(tier: &str, seed: u64, emit: &mut dyn FnMut(String)) {
    let mut rng = Rng::new(seed ^ 0xC17);
    let big = tier == "thorough";
    // all 256 tags with payload lengths 0..=5 (quick) / 0..=255 for the typed ones
    for tag in 0..=255u8 { for len in 0..=6usize {
        let p = rng.bytes(len);
        emit(format!("DSC {}", hex(&descriptor(tag, &p))));
    } }
    for tag in [5u8, 10, 14, 40] { for len in 0..=255usize {
        let p = rng.bytes(len);
        emit(format!("DSC {}", hex(&descriptor(tag, &p))));
        if tag == 10 { let mut q = p.clone(); for k in 0..len / 4 { q[4 * k + 3] = rng.below(6) as u8; } emit(format!("DSC {}", hex(&descriptor(tag, &q)))); }
    } }
    // AVC video descriptor: every flags byte x the profile_idc / level_idc values H.264 defines (and some that it does not)
    for profile in [66u8, 77, 88, 100, 110, 122, 244, 44, 83, 86, 118, 128, 0, 255, 67] {
        for level in [9u8, 10, 11, 12, 13, 20, 21, 22, 30, 31, 32, 40, 41, 42, 50, 51, 52, 0, 255] {
            for flags in 0..=255u8 { if !big && flags % 4 != 0 && flags & 0x10 == 0 { continue; }
                emit(format!("DSC {}", hex(&descriptor(40, &[profile, flags, level, rng.byte()])))); } } }
    // maximum bitrate and registration descriptors: boundary values of their fields
    for v in [0u32, 1, 0x1fffff, 0x200000, 0x3ffffe, 0x3fffff] { for top in [0u8, 0x40, 0x80, 0xc0] {
        emit(format!("DSC {}", hex(&descriptor(14, &[top | (v >> 16) as u8, (v >> 8) as u8, v as u8])))); } }
    // exhaustive loops over (tag class, length byte) sequences up to a total length
    let classes: [u8; 6] = [5, 10, 14, 40, 0, 200];
    let maxlen = if big { 14 } else { 10 };
    fn rec(prefix: &mut Vec<u8>, maxlen: usize, classes: &[u8; 6], rng: &mut Rng, emit: &mut dyn FnMut(String)) {
        emit(format!("DSC {}", hex(prefix)));
        if prefix.len() >= maxlen { return; }
        // truncated tails
        let mut t = prefix.clone(); t.push(*rng.pick(classes)); emit(format!("DSC {}", hex(&t)));
        let room = maxlen - prefix.len();
        if room >= 2 {
            for &c in classes.iter() {
                for l in [0usize, 1, 3, 4, 5] {
                    if 2 + l <= room {
                        let n = prefix.len();
                        prefix.push(c); prefix.push(l as u8); for _ in 0..l { prefix.push(rng.byte()); }
                        rec(prefix, maxlen, classes, rng, emit);
                        prefix.truncate(n);
                    }
                }
                // declared length larger than what remains
                let mut t = prefix.clone(); t.push(c); t.push(room as u8); for _ in 0..(room - 2) { t.push(rng.byte()); }
                emit(format!("DSC {}", hex(&t)));
            }
        }
    }
    let mut pre = vec![];
    rec(&mut pre, maxlen, &classes, &mut rng, emit);
    // long loops: 2..4 descriptors with long payloads, total length beyond 255 bytes (lengths relative to what remains modulo 256)
    for _ in 0..(if big { 20000 } else { 1500 }) {
        let mut b = vec![];
        for _ in 0..rng.range(2, 4) { let n = *rng.pick(&[100usize, 128, 200, 250, 254, 255, 3, 0]); let p = rng.bytes(n); let t = *rng.pick(&[5u8, 10, 14, 40, 0x80, 0xff]); b.extend(descriptor(t, &p)); }
        match rng.below(5) { 0 => { let n = rng.range(1, 3) as usize; let t = rng.bytes(n); b.extend(t); } 1 => { let k = rng.below(b.len() as u64 + 1) as usize; b.truncate(k); } _ => {} }
        emit(format!("DSC {}", hex(&b)));
    }
    // very long loops: total length around and beyond 1 KiB, 4 KiB (the 10- and 12-bit length fields of the tables that carry
    // loops) and 64 KiB — DescriptorIter::new takes any slice, and nothing in the statement bounds it
    for target in [1000usize, 1023, 1024, 1025, 4094, 4095, 4096, 4097, 5120, 8192, 65535, 65536, 66000] { for _ in 0..(if big { 6 } else { 2 }) {
        let mut b = vec![];
        while b.len() < target { let n = *rng.pick(&[254usize, 255, 200, 17, 3, 0]); let p = rng.bytes(n); let t = *rng.pick(&[5u8, 10, 14, 40, 0x80, 0xff]); b.extend(descriptor(t, &p)); }
        match rng.below(3) { 0 => { b.truncate(target); } 1 => { let t = rng.bytes(1); b.extend(t); } _ => {} }
        emit(format!("DSC {}", hex(&b)));
    } }
    // Descriptor::from_bytes called directly on a slice that continues behind its first (complete) descriptor
    for _ in 0..(if big { 40000 } else { 3000 }) {
        let mut b = crate::suites::c16::rand_desc(&mut rng);
        let more = rng.range(1, 12) as usize; let t = rng.bytes(more); b.extend(t);
        emit(format!("DSC1 {}", hex(&b)));
    }
    // random loops
    for _ in 0..(if big { 200000 } else { 20000 }) {
        let mut b = vec![];
        for _ in 0..rng.below(6) { b.extend(crate::suites::c16::rand_desc(&mut rng)); }
        match rng.below(6) { 0 => { let n = rng.range(1, 3) as usize; let t = rng.bytes(n); b.extend(t); } 1 => { let k = rng.below(b.len() as u64 + 1) as usize; b.truncate(k); } _ => {} }
        emit(format!("DSC {}", hex(&b)));
    }
}
