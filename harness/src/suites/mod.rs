pub mod c12;
pub mod streams;
pub mod c13;
pub mod c14;
pub mod c15;
