(* Proofs/GateProofs.v — C04 gate: nothing reaches the table processors unless the CRC verifies. *)
From Coq Require Import List NArith Lia Bool.
From TS Require Import Base.Res Model.Timestamp Model.Packet Model.Crc Model.Psi Model.PesFilter Model.Demux.
Import ListNotations.
Open Scope N_scope.

Section Gate.
Variable cfg : chain_cfg.
Variables IS CX EV : Type.
Variable inner : IS -> CX -> common_header -> list N -> list N -> option nat -> res (IS * CX * list EV).

Lemma gate_layer (c : chain IS) (cx : CX) h tsh data origin r :
  cf_crc cfg = true -> cf_fuzzing cfg = false -> m_sum32 data <> 0 ->
  crc_layer_section cfg IS CX EV inner c cx h tsh data origin = Ok r -> r = (c, cx, []).
Proof.
  intros Hc Hf Hs. unfold crc_layer_section. rewrite Hc, Hf.
  unfold assert. destruct (ch_ssi h); cbn [bind]; [|discriminate].
  destruct (Nat.ltb (length data) (SCH_SIZE + TSH_SIZE + 4)); [intros E; inversion E; reflexivity|].
  replace (m_sum32 data =? 0) with false by (symmetry; apply N.eqb_neq; exact Hs).
  cbn [negb andb]. intros E; inversion E; reflexivity.
Qed.
End Gate.

(* the PAT and PMT handlers run the chain with the CRC layer configured, and only that chain *)
Lemma gate_tables fuzzing : cf_crc (table_cfg fuzzing) = true /\ cf_dedup (table_cfg fuzzing) = true /\
  cf_compact (table_cfg fuzzing) = false /\ cf_fuzzing (table_cfg fuzzing) = fuzzing.
Proof. repeat split. Qed.

Lemma gate_handlers policy scripts fuzzing deep s c cx i pk :
  handler_consume policy scripts fuzzing deep (HPat s c) cx i pk =
    (do r <- spc_consume (table_cfg fuzzing) pat_state ctx event (pat_section policy) c cx pk;
     Ok (HPat s (fst (fst r)), snd (fst r), EvPacket s i [] :: snd r)).
Proof. reflexivity. Qed.
Lemma gate_handlers_pmt policy scripts fuzzing deep s c cx i pk :
  handler_consume policy scripts fuzzing deep (HPmt s c) cx i pk =
    (do r <- spc_consume (table_cfg fuzzing) pmt_state ctx event (pmt_section policy deep) c cx pk;
     Ok (HPmt s (fst (fst r)), snd (fst r), EvPacket s i [] :: snd r)).
Proof. reflexivity. Qed.
