(* Spec/EsProtocol.v — the ElementaryStreamConsumer call-back protocol (trait documentation,
   src/pes.rs 22-48) as a three-state monitor, and the continuity rule of 13818-1 2.4.3.3. *)
From TS Require Import Base.Res Model.PesFilter.
Open Scope N_scope.

Inductive mstate := MNoStream | MIdle | MOpen.

(* stream-start exactly once and first; packet-begin only when no packet is open; continuation data and
   packet-end only while a packet is open; a continuity error closes an open packet *)
Definition mstep (m : mstate) (e : es_event) : option mstate :=
  match e, m with
  | EsStartStream, MNoStream => Some MIdle
  | EsBeginPacket _ _, MIdle => Some MOpen
  | EsContinuePacket _ _, MOpen => Some MOpen
  | EsEndPacket, MOpen => Some MIdle
  | EsContinuityError, MOpen => Some MIdle
  | EsContinuityError, MIdle => Some MIdle
  | EsContinuityError, MNoStream => Some MNoStream
  | _, _ => None
  end.
Fixpoint mrun (m : mstate) (evs : list es_event) : option mstate :=
  match evs with
  | [] => Some m
  | e :: r => match mstep m e with Some m' => mrun m' r | None => None end
  end.

(* expected successor of the continuity counter: unchanged without payload, +1 mod 16 with payload *)
Definition expected_cc (prev : N) (has_payload : bool) : N := if has_payload then (prev + 1) mod 16 else prev.

Definition is_cc_error (e : es_event) : bool := match e with EsContinuityError => true | _ => false end.
Definition is_begin (e : es_event) : bool := match e with EsBeginPacket _ _ => true | _ => false end.
Definition is_cont (e : es_event) : bool := match e with EsContinuePacket _ _ => true | _ => false end.
