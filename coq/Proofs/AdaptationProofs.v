(* Proofs/AdaptationProofs.v — C13: adaptation-field accessors equal the Table 2-6 reader. *)
From Coq Require Import List NArith Lia ZArith ZifyN ZifyNat ZifyBool Bool.
From TS Require Import Base.Res Base.ListX Base.Bits Model.Timestamp Model.Packet
  Spec.TimestampSpec Spec.AdaptationSpec Proofs.PacketProofs Proofs.TimestampProofs.
Import ListNotations.
Open Scope N_scope.
Ltac Zify.zify_post_hook ::= Z.div_mod_to_equations.

(* ---- reading ---- *)
Lemma rd_length b pos n w : rd b pos n = Some w -> length w = n /\ (pos + n <= length b)%nat.
Proof.
  unfold rd. destruct (Nat.leb_spec (pos + n) (length b)); [|discriminate].
  intros E. inversion E; subst. rewrite firstn_length, skipn_length. lia.
Qed.
Lemma rd_bytes_ok b pos n w : bytes_ok b -> rd b pos n = Some w -> bytes_ok w.
Proof.
  unfold rd. destruct (Nat.leb (pos + n) (length b)); [|discriminate].
  intros H E. inversion E; subst. apply Forall_firstn, Forall_skipn, H.
Qed.
Lemma rd1 b pos w : rd b pos 1 = Some w -> exists x, w = [x] /\ nth_error b pos = Some x.
Proof.
  intros E. destruct (rd_length _ _ _ _ E) as [Hl Hle].
  unfold rd in E. destruct (Nat.leb (pos + 1) (length b)); [|discriminate]. inversion E; subst.
  destruct (skipn pos b) as [|x s] eqn:Es.
  - apply (f_equal (@length N)) in Es. rewrite skipn_length in Es. cbn in Es. lia.
  - exists x. split; [reflexivity|].
    rewrite <- (Nat.add_0_r pos). rewrite <- nth_error_skipn. rewrite Es. reflexivity.
Qed.

Lemma af_slice_spec buf from to : (from <= to)%nat ->
  af_slice buf from to = Ok (match rd buf from (to - from) with Some s => ROk s | None => ned end).
Proof.
  intros H. unfold af_slice, rd, slice.
  replace (from + (to - from))%nat with to by lia.
  destruct (Nat.ltb_spec (length buf) to) as [Hlt|Hge].
  - replace (Nat.leb to (length buf)) with false by (symmetry; apply Nat.leb_gt; lia). reflexivity.
  - replace (Nat.leb to (length buf)) with true by (symmetry; apply Nat.leb_le; lia).
    replace (Nat.leb from to) with true by (symmetry; apply Nat.leb_le; lia). reflexivity.
Qed.
Lemma afe_slice_spec buf from to : (from <= to)%nat ->
  afe_slice buf from to = Ok (match rd buf from (to - from) with Some s => ROk s | None => ned end).
Proof.
  intros H. unfold afe_slice, rd, slice.
  replace (from + (to - from))%nat with to by lia.
  destruct (Nat.ltb_spec (length buf) to) as [Hlt|Hge].
  - replace (Nat.leb to (length buf)) with false by (symmetry; apply Nat.leb_gt; lia). reflexivity.
  - replace (Nat.leb to (length buf)) with true by (symmetry; apply Nat.leb_le; lia).
    replace (Nat.leb from to) with true by (symmetry; apply Nat.leb_le; lia). reflexivity.
Qed.

(* ---- flags ---- *)
Lemma flag_spec x r (k : N) site : bytes_ok (x :: r) -> k < 8 ->
  af_flag (x :: r) (2 ^ (7 - k)) site = Ok (bitf (x :: r) k).
Proof.
  intros Hok Hk. unfold af_flag. cbn [idx nth_error bind]. f_equal.
  assert (Hx : x < 256) by (inversion Hok; assumption).
  unfold bitf. replace k with (8 * N.of_nat 0 + k) at 2 by lia.
  rewrite (field_nth (x :: r) 0 x k 1 Hok eq_refl) by lia.
  apply bit_mask_fact; assumption.
Qed.

Lemma field8_single x : x < 256 -> field [x] 0 8 = x.
Proof. apply afl_fact. Qed.

Section AF.
Variables (x : N) (r : list N).
Let b := x :: r.
Hypothesis Hok : bytes_ok b.

Lemma F_pcr : af_pcr_flag b = Ok (bitf b 3). Proof. apply (flag_spec x r 3); [exact Hok|lia]. Qed.
Lemma F_opcr : af_opcr_flag b = Ok (bitf b 4). Proof. apply (flag_spec x r 4); [exact Hok|lia]. Qed.
Lemma F_splice : af_splicing_point_flag b = Ok (bitf b 5). Proof. apply (flag_spec x r 5); [exact Hok|lia]. Qed.
Lemma F_priv : af_transport_private_data_flag b = Ok (bitf b 6). Proof. apply (flag_spec x r 6); [exact Hok|lia]. Qed.
Lemma F_ext : af_extension_flag b = Ok (bitf b 7). Proof. apply (flag_spec x r 7); [exact Hok|lia]. Qed.
Lemma F_disc : af_discontinuity_indicator b = Ok (bitf b 0). Proof. apply (flag_spec x r 0); [exact Hok|lia]. Qed.
Lemma F_rai : af_random_access_indicator b = Ok (bitf b 1). Proof. apply (flag_spec x r 1); [exact Hok|lia]. Qed.

Lemma espi_fact y : y < 256 -> N.shiftr (N.land y 32) 5 = field [y] 2 1.
Proof. intros H. apply N.eqb_eq. sweep1 y H. Qed.
Lemma F_espi : af_es_priority_indicator b = Ok (field b 2 1).
Proof.
  unfold af_es_priority_indicator. cbn [idx nth_error bind b]. f_equal.
  assert (Hx : x < 256) by (inversion Hok; assumption).
  pose proof (field_nth (x :: r) 0 x 2 1 Hok eq_refl ltac:(lia)) as E. cbn in E. unfold b. rewrite E. apply espi_fact, Hx.
Qed.

(* clock reference at a cursor position *)
Lemma clockref_at pos :
  (try s <- af_slice b pos (pos + PCR_SIZE); do c <- clockref_from_slice s; Ok (ROk c)) =
  Ok (match rd b pos 6 with Some w => ROk (s_clockref w) | None => ned end).
Proof.
  rewrite af_slice_spec by (unfold PCR_SIZE; lia).
  replace (pos + PCR_SIZE - pos)%nat with 6%nat by (unfold PCR_SIZE; lia).
  destruct (rd b pos 6) as [w|] eqn:E; cbn [rbind]; [|reflexivity].
  destruct (rd_length _ _ _ _ E) as [Hl _]. pose proof (rd_bytes_ok _ _ _ _ Hok E) as Hw.
  destruct (c15_clockref_from_slice w) as [Hc _]; [lia|exact Hw|].
  rewrite Hc. reflexivity.
Qed.

Definition pos_opcr : nat := if bitf b 3 then 7%nat else 1%nat.
Definition pos_splice : nat := (pos_opcr + if bitf b 4 then 6 else 0)%nat.
Definition pos_priv : nat := (pos_splice + if bitf b 5 then 1 else 0)%nat.

Lemma O_opcr : af_opcr_offset b = Ok pos_opcr.
Proof. unfold af_opcr_offset. rewrite F_pcr. reflexivity. Qed.
Lemma O_splice : af_splice_countdown_offset b = Ok pos_splice.
Proof. unfold af_splice_countdown_offset. rewrite O_opcr, F_opcr. reflexivity. Qed.
Lemma O_priv : af_transport_private_data_offset b = Ok pos_priv.
Proof. unfold af_transport_private_data_offset. rewrite O_splice, F_splice. reflexivity. Qed.

Lemma m_pcr_spec : af_pcr b = Ok (v_pcr (s_af_parse b)).
Proof.
  unfold af_pcr. rewrite F_pcr. cbn [bind]. unfold s_af_parse.
  destruct (bitf b 3); [rewrite (clockref_at 1)|];
  repeat match goal with |- context [if ?c then _ else _] => destruct c end;
  repeat match goal with |- context [match rd ?a ?p ?n with _ => _ end] => destruct (rd a p n) end;
  reflexivity.
Qed.

Lemma m_opcr_spec : af_opcr b = Ok (v_opcr (s_af_parse b)).
Proof.
  unfold af_opcr. rewrite F_opcr. cbn [bind]. rewrite O_opcr. cbn [bind].
  unfold s_af_parse, pos_opcr.
  destruct (bitf b 4); [rewrite clockref_at|];
  destruct (bitf b 3); cbn [Nat.add];
  repeat match goal with |- context [if ?c then _ else _] => destruct c end;
  repeat match goal with |- context [match rd ?a ?p ?n with _ => _ end] => destruct (rd a p n) end;
  reflexivity.
Qed.

Lemma byte_at pos site :
  (try s <- af_slice b pos (pos + 1); do v <- idx s 0 site; Ok (ROk v)) =
  Ok (match rd b pos 1 with Some w => ROk (field w 0 8) | None => ned end).
Proof.
  rewrite af_slice_spec by lia. replace (pos + 1 - pos)%nat with 1%nat by lia.
  destruct (rd b pos 1) as [w|] eqn:E; cbn [rbind]; [|reflexivity].
  destruct (rd1 _ _ _ E) as (y & -> & Hn). cbn [idx nth_error bind].
  pose proof (rd_bytes_ok _ _ _ _ Hok E) as Hw. inversion Hw; subst.
  rewrite field8_single by assumption. reflexivity.
Qed.

Lemma m_splice_spec : af_splice_countdown b = Ok (v_splice_countdown (s_af_parse b)).
Proof.
  unfold af_splice_countdown. rewrite F_splice. cbn [bind]. rewrite O_splice. cbn [bind].
  unfold s_af_parse, pos_splice, pos_opcr.
  destruct (bitf b 5); [rewrite byte_at|];
  destruct (bitf b 3); destruct (bitf b 4); cbn [Nat.add];
  repeat match goal with |- context [if ?c then _ else _] => destruct c end;
  repeat match goal with |- context [match rd ?a ?p ?n with _ => _ end] => destruct (rd a p n) end;
  reflexivity.
Qed.

(* the cursor position in front of the private-data length byte, in the reader's own terms *)
Lemma priv_generic :
  af_transport_private_data b =
  Ok (if bitf b 6 then
        match rd b pos_priv 1 with
        | Some w => match rd b (pos_priv + 1) (N.to_nat (field w 0 8)) with
                    | Some d => ROk ((pos_priv + 1)%nat, d) | None => ned end
        | None => ned end
      else absent).
Proof.
  unfold af_transport_private_data. rewrite F_priv. cbn [bind].
  destruct (bitf b 6); [|reflexivity]. rewrite O_priv. cbn [bind].
  rewrite af_slice_spec by lia. replace (pos_priv + 1 - pos_priv)%nat with 1%nat by lia.
  destruct (rd b pos_priv 1) as [w|] eqn:E; cbn [rbind]; [|reflexivity].
  destruct (rd1 _ _ _ E) as (y & -> & Hn). cbn [idx nth_error bind].
  pose proof (rd_bytes_ok _ _ _ _ Hok E) as Hw. inversion Hw; subst.
  rewrite field8_single by assumption.
  rewrite af_slice_spec by lia.
  replace (pos_priv + 1 + N.to_nat y - (pos_priv + 1))%nat with (N.to_nat y) by lia.
  destruct (rd b (pos_priv + 1) (N.to_nat y)); reflexivity.
Qed.

Lemma m_priv_spec : af_transport_private_data b = Ok (v_private (s_af_parse b)).
Proof.
  rewrite priv_generic. f_equal. unfold s_af_parse, pos_priv, pos_splice, pos_opcr.
  destruct (bitf b 3); destruct (bitf b 4); destruct (bitf b 5); destruct (bitf b 6); cbn [Nat.add];
  repeat match goal with |- context [match rd ?a ?p ?n with _ => _ end] => destruct (rd a p n) end;
  repeat match goal with |- context [if ?c then _ else _] => destruct c end;
  reflexivity.
Qed.

Lemma ext_generic :
  af_extension b =
  Ok (if bitf b 7 then
        match (if bitf b 6 then
                 match rd b pos_priv 1 with
                 | Some w => Some (pos_priv + 1 + N.to_nat (field w 0 8))%nat
                 | None => None end
               else Some pos_priv) with
        | None => ned
        | Some pos =>
            match rd b pos 1 with
            | Some w => match rd b (pos + 1) (N.to_nat (field w 0 8)) with
                        | Some [] => ned | Some e => ROk e | None => ned end
            | None => ned end
        end
      else absent).
Proof.
  unfold af_extension. rewrite F_ext. cbn [bind].
  destruct (bitf b 7); [|reflexivity].
  unfold af_extension_offset. rewrite O_priv, F_priv. cbn [bind].
  assert (Hstep : forall pos,
    (try s <- af_slice b pos (pos + 1);
     do lenb <- idx s 0 124;
     try e <- af_slice b (pos + 1) (pos + 1 + N.to_nat lenb);
     Ok (afe_new e)) =
    Ok (match rd b pos 1 with
        | Some w => match rd b (pos + 1) (N.to_nat (field w 0 8)) with
                    | Some [] => ned | Some e => ROk e | None => ned end
        | None => ned end)).
  { intros pos. rewrite af_slice_spec by lia. replace (pos + 1 - pos)%nat with 1%nat by lia.
    destruct (rd b pos 1) as [w|] eqn:E; cbn [rbind]; [|reflexivity].
    destruct (rd1 _ _ _ E) as (y & -> & Hn). cbn [idx nth_error bind].
    pose proof (rd_bytes_ok _ _ _ _ Hok E) as Hw. inversion Hw; subst.
    rewrite field8_single by assumption.
    rewrite af_slice_spec by lia.
    replace (pos + 1 + N.to_nat y - (pos + 1))%nat with (N.to_nat y) by lia.
    destruct (rd b (pos + 1) (N.to_nat y)) as [e|]; cbn [rbind]; [|reflexivity].
    unfold afe_new. destruct e; reflexivity. }
  destruct (bitf b 6).
  - rewrite af_slice_spec by lia. replace (pos_priv + 1 - pos_priv)%nat with 1%nat by lia.
    destruct (rd b pos_priv 1) as [w|] eqn:E; cbn [rbind]; [|reflexivity].
    destruct (rd1 _ _ _ E) as (y & -> & Hn). cbn [idx nth_error bind rbind].
    pose proof (rd_bytes_ok _ _ _ _ Hok E) as Hw. inversion Hw; subst.
    rewrite field8_single by assumption.
    replace (pos_priv + (N.to_nat y + 1))%nat with (pos_priv + 1 + N.to_nat y)%nat by lia.
    apply Hstep.
  - cbn [rbind]. rewrite Nat.add_0_r. apply Hstep.
Qed.

Lemma m_ext_spec : af_extension b = Ok (v_extension (s_af_parse b)).
Proof.
  rewrite ext_generic. f_equal. unfold s_af_parse, pos_priv, pos_splice, pos_opcr.
  destruct (bitf b 3); destruct (bitf b 4); destruct (bitf b 5); destruct (bitf b 6); destruct (bitf b 7); cbn [Nat.add];
  repeat match goal with |- context [match rd ?a ?p ?n with _ => _ end] => destruct (rd a p n) end;
  repeat match goal with |- context [if ?c then _ else _] => destruct c end;
  reflexivity.
Qed.
End AF.

(* ---- adaptation field extension ---- *)
Lemma rd2 b pos w : rd b pos 2 = Some w -> exists a c, w = [a; c].
Proof.
  intros E. destruct (rd_length _ _ _ _ E) as [Hl _].
  destruct w as [|a [|c [|]]]; cbn in Hl; try lia. exists a, c. reflexivity.
Qed.
Lemma rd3 b pos w : rd b pos 3 = Some w -> exists a c d, w = [a; c; d].
Proof.
  intros E. destruct (rd_length _ _ _ _ E) as [Hl _].
  destruct w as [|a [|c [|d [|]]]]; cbn in Hl; try lia. exists a, c, d. reflexivity.
Qed.
Lemma rd5 b pos w : rd b pos 5 = Some w -> exists a c d e f, w = [a; c; d; e; f].
Proof.
  intros E. destruct (rd_length _ _ _ _ E) as [Hl _].
  destruct w as [|a [|c [|d [|e [|f [|]]]]]]; cbn in Hl; try lia. exists a, c, d, e, f. reflexivity.
Qed.

Lemma ltw_valid_fact a c : a < 256 -> c < 256 -> nz (N.land a 128) = bitf [a; c] 0.
Proof. intros Ha Hc. apply Bool.eqb_prop. sweep2 a c Ha Hc. Qed.
Lemma ltw_value_fact a c : a < 256 -> c < 256 -> N.lor (N.shiftl (N.land a 127) 8) c = field [a; c] 1 15.
Proof. intros Ha Hc. apply N.eqb_eq. sweep2 a c Ha Hc. Qed.
Lemma and63_fact a : a < 256 -> N.land a 63 = a mod 64.
Proof. intros H. apply N.eqb_eq. sweep1 a H. Qed.
Lemma piecewise_fact a c d : a < 256 -> c < 256 -> d < 256 ->
  N.lor (N.lor (N.shiftl (N.land a 63) 16) (N.shiftl c 8)) d = field [a; c; d] 2 22.
Proof.
  intros Ha Hc Hd. rewrite and63_fact by assumption. rewrite !N.shiftl_mul_pow2.
  rewrite (lor_add _ (c * 2^8) 16) by (pow_eval; lia).
  rewrite (lor_add _ d 8) by (pow_eval; lia).
  unfold field, nbits. cbn [length]. rewrite be3. change (8 * N.of_nat 3 - 2 - 22) with 0. pow_eval. lia.
Qed.

Section AFE.
Variables (x : N) (r : list N).
Let e := x :: r.
Hypothesis Hok : bytes_ok e.

Lemma G_ltw : afe_ltw_flag e = Ok (bitf e 0). Proof. apply (flag_spec x r 0); [exact Hok|lia]. Qed.
Lemma G_pw : afe_piecewise_rate_flag e = Ok (bitf e 1). Proof. apply (flag_spec x r 1); [exact Hok|lia]. Qed.
Lemma G_ss : afe_seamless_splice_flag e = Ok (bitf e 2). Proof. apply (flag_spec x r 2); [exact Hok|lia]. Qed.

Lemma m_ltw_spec : afe_ltw_offset e = Ok (v_ltw (s_afe_parse e)).
Proof.
  unfold afe_ltw_offset. rewrite G_ltw. cbn [bind]. unfold s_afe_parse.
  destruct (bitf e 0).
  2:{ repeat match goal with |- context [if ?c then _ else _] => destruct c end;
      repeat match goal with |- context [match rd ?a ?p ?n with _ => _ end] => destruct (rd a p n) end; reflexivity. }
  rewrite afe_slice_spec by lia. change (3 - 1)%nat with 2%nat.
  assert (Hgoal : (try dat <- Ok (match rd e 1 2 with Some s => ROk s | None => ned end);
                   do d0 <- idx dat 0 129;
                   if nz (N.land d0 128) then do d1 <- idx dat 1 130; Ok (ROk (Some (N.lor (N.shiftl (N.land d0 127) 8) d1)))
                   else Ok (ROk None)) =
                  Ok (match rd e 1 2 with Some w => ROk (if bitf w 0 then Some (field w 1 15) else None) | None => ned end)).
  { destruct (rd e 1 2) as [w|] eqn:E; cbn [rbind]; [|reflexivity].
    destruct (rd2 _ _ _ E) as (a & c & ->). pose proof (rd_bytes_ok _ _ _ _ Hok E) as Hw.
    assert (Ha : a < 256) by (inversion Hw; assumption).
    assert (Hc : c < 256) by (inversion Hw as [|? ? _ Hw']; inversion Hw'; assumption).
    cbn [idx nth_error bind]. rewrite (ltw_valid_fact a c Ha Hc).
    destruct (bitf [a; c] 0); cbn [bind]; [|reflexivity]. rewrite ltw_value_fact by assumption. reflexivity. }
  rewrite Hgoal.
  repeat match goal with |- context [if ?c then _ else _] => destruct c end;
  repeat match goal with |- context [match rd ?a ?p ?n with _ => _ end] => destruct (rd a p n) end; reflexivity.
Qed.

Definition pos_pw : nat := (1 + if bitf e 0 then 2 else 0)%nat.
Definition pos_ss : nat := (pos_pw + if bitf e 1 then 3 else 0)%nat.
Lemma P_pw : afe_piecewise_rate_offset e = Ok pos_pw.
Proof. unfold afe_piecewise_rate_offset. rewrite G_ltw. reflexivity. Qed.
Lemma P_ss : afe_seamless_splice_offset e = Ok pos_ss.
Proof. unfold afe_seamless_splice_offset. rewrite P_pw, G_pw. reflexivity. Qed.

Lemma m_pw_spec : afe_piecewise_rate e = Ok (v_piecewise (s_afe_parse e)).
Proof.
  unfold afe_piecewise_rate. rewrite G_pw. cbn [bind]. unfold s_afe_parse.
  destruct (bitf e 1).
  2:{ repeat match goal with |- context [if ?c then _ else _] => destruct c end;
      repeat match goal with |- context [match rd ?a ?p ?n with _ => _ end] => destruct (rd a p n) end; reflexivity. }
  rewrite P_pw. cbn [bind]. rewrite afe_slice_spec by lia.
  replace (pos_pw + 3 - pos_pw)%nat with 3%nat by lia.
  assert (Hgoal : forall pos,
     (try dat <- Ok (match rd e pos 3 with Some s => ROk s | None => ned end);
      do d0 <- idx dat 0 131; do d1 <- idx dat 1 132; do d2 <- idx dat 2 133;
      Ok (ROk (N.lor (N.lor (N.shiftl (N.land d0 63) 16) (N.shiftl d1 8)) d2))) =
     Ok (match rd e pos 3 with Some w => ROk (field w 2 22) | None => ned end)).
  { intros pos. destruct (rd e pos 3) as [w|] eqn:E; cbn [rbind]; [|reflexivity].
    destruct (rd3 _ _ _ E) as (a & c & d & ->). pose proof (rd_bytes_ok _ _ _ _ Hok E) as Hw.
    assert (Hb : a < 256 /\ c < 256 /\ d < 256).
    { repeat match goal with H : bytes_ok (_ :: _) |- _ => inversion H; clear H; subst end.
      repeat match goal with H : Forall _ (_ :: _) |- _ => inversion H; clear H; subst end. repeat split; assumption. }
    destruct Hb as (Ha & Hc & Hd).
    cbn [idx nth_error bind]. rewrite piecewise_fact by assumption. reflexivity. }
  rewrite Hgoal. unfold pos_pw.
  destruct (bitf e 0); cbn [Nat.add];
  repeat match goal with |- context [match rd ?a ?p ?n with _ => _ end] => destruct (rd a p n) end; reflexivity.
Qed.

Lemma m_ss_spec : afe_seamless_splice e = Ok (v_seamless (s_afe_parse e)).
Proof.
  unfold afe_seamless_splice. rewrite G_ss. cbn [bind]. unfold s_afe_parse.
  destruct (bitf e 2).
  2:{ repeat match goal with |- context [if ?c then _ else _] => destruct c end;
      repeat match goal with |- context [match rd ?a ?p ?n with _ => _ end] => destruct (rd a p n) end; reflexivity. }
  rewrite P_ss. cbn [bind]. rewrite afe_slice_spec by lia.
  replace (pos_ss + 5 - pos_ss)%nat with 5%nat by lia.
  assert (Hgoal : forall pos,
     (try dat <- Ok (match rd e pos 5 with Some s => ROk s | None => ned end);
      do d0 <- idx dat 0 134; do t <- ts_from_bytes dat;
      match t with ROk v => Ok (ROk (N.shiftr d0 4, v)) | RErr te => Ok (RErr (AfSpliceTimestampError te)) end) =
     Ok (match rd e pos 5 with
         | Some w => match s_ts_decode w with ROk v => ROk (field w 0 4, v) | RErr t => RErr (AfSpliceTimestampError t) end
         | None => ned end)).
  { intros pos. destruct (rd e pos 5) as [w|] eqn:E; cbn [rbind]; [|reflexivity].
    destruct (rd5 _ _ _ E) as (a & c & d & f & g & ->). pose proof (rd_bytes_ok _ _ _ _ Hok E) as Hw.
    destruct (bytes5 _ _ _ _ _ _ Hw) as (Ha & Hc & Hd & Hf & Hg).
    cbn [idx nth_error bind]. rewrite c15_decode by (cbn; lia || exact Hw). cbn [bind].
    rewrite f_prefix by assumption. rewrite shr4_fact by assumption.
    destruct (s_ts_decode [a; c; d; f; g]); reflexivity. }
  rewrite Hgoal. unfold pos_ss, pos_pw.
  destruct (bitf e 0); destruct (bitf e 1); cbn [Nat.add];
  repeat match goal with |- context [match rd ?a ?p ?n with _ => _ end] => destruct (rd a p n) end; reflexivity.
Qed.
End AFE.

(* ---- top-level statements over arbitrary non-empty byte strings ---- *)
Lemma c13_af (b : list N) : (1 <= length b)%nat -> bytes_ok b ->
  af_discontinuity_indicator b = Ok (v_discontinuity (s_af_parse b)) /\
  af_random_access_indicator b = Ok (v_random_access (s_af_parse b)) /\
  af_es_priority_indicator b = Ok (v_es_priority (s_af_parse b)) /\
  af_pcr b = Ok (v_pcr (s_af_parse b)) /\
  af_opcr b = Ok (v_opcr (s_af_parse b)) /\
  af_splice_countdown b = Ok (v_splice_countdown (s_af_parse b)) /\
  af_transport_private_data b = Ok (v_private (s_af_parse b)) /\
  af_extension b = Ok (v_extension (s_af_parse b)).
Proof.
  intros Hl Hok. destruct b as [|x r]; [cbn in Hl; lia|].
  assert (Hproj : forall P, P (s_af_parse (x :: r)) -> P (s_af_parse (x :: r))) by auto.
  repeat split.
  - rewrite F_disc by assumption. unfold s_af_parse.
    repeat match goal with |- context [if ?c then _ else _] => destruct c end;
    repeat match goal with |- context [match rd ?a ?p ?n with _ => _ end] => destruct (rd a p n) end; reflexivity.
  - rewrite F_rai by assumption. unfold s_af_parse.
    repeat match goal with |- context [if ?c then _ else _] => destruct c end;
    repeat match goal with |- context [match rd ?a ?p ?n with _ => _ end] => destruct (rd a p n) end; reflexivity.
  - rewrite F_espi by assumption. unfold s_af_parse.
    repeat match goal with |- context [if ?c then _ else _] => destruct c end;
    repeat match goal with |- context [match rd ?a ?p ?n with _ => _ end] => destruct (rd a p n) end; reflexivity.
  - apply m_pcr_spec, Hok.
  - apply m_opcr_spec, Hok.
  - apply m_splice_spec, Hok.
  - apply m_priv_spec, Hok.
  - apply m_ext_spec, Hok.
Qed.

Lemma c13_afe (e : list N) : (1 <= length e)%nat -> bytes_ok e ->
  afe_ltw_offset e = Ok (v_ltw (s_afe_parse e)) /\
  afe_piecewise_rate e = Ok (v_piecewise (s_afe_parse e)) /\
  afe_seamless_splice e = Ok (v_seamless (s_afe_parse e)).
Proof.
  intros Hl Hok. destruct e as [|x r]; [cbn in Hl; lia|].
  repeat split; [apply m_ltw_spec|apply m_pw_spec|apply m_ss_spec]; exact Hok.
Qed.

(* what the reader hands out is always inside the string it was given *)
Lemma rd_inside b p n d : rd b p n = Some d ->
  (p + length d <= length b)%nat /\ d = firstn (length d) (skipn p b).
Proof.
  intros E. destruct (rd_length _ _ _ _ E) as [Hl Hle]. unfold rd in E.
  destruct (Nat.leb (p + n) (length b)); [|discriminate]. inversion E as [E']. rewrite E'.
  rewrite Hl. split; [lia|]. rewrite <- E' at 1. reflexivity.
Qed.

Lemma c13_inside (b : list N) : bytes_ok b ->
  (forall off d, v_private (s_af_parse b) = ROk (off, d) ->
     (off + length d <= length b)%nat /\ d = firstn (length d) (skipn off b)) /\
  (forall e, v_extension (s_af_parse b) = ROk e -> (1 <= length e <= length b)%nat /\ bytes_ok e).
Proof.
  intros Hok. unfold s_af_parse. split.
  - intros off d.
    repeat match goal with |- context [if ?c then _ else _] => destruct c end; cbn [v_private];
    repeat match goal with |- context [match rd ?a ?p ?n with _ => _ end] => destruct (rd a p n) eqn:? end;
    cbn [v_private]; intros E; try discriminate E; inversion E; subst;
    match goal with H : rd _ _ _ = Some d |- _ => exact (rd_inside _ _ _ _ H) end.
  - intros e.
    repeat match goal with |- context [if ?c then _ else _] => destruct c end; cbn [v_extension];
    repeat match goal with |- context [match rd ?a ?p ?n with _ => _ end] => destruct (rd a p n) eqn:? end;
    cbn [v_extension]; intros E; try discriminate E;
    repeat match goal with H : context [match ?l with [] => _ | _ :: _ => _ end] |- _ => destruct l eqn:?; try discriminate H end;
    inversion E; subst;
    match goal with H : rd _ ?p ?n = Some (_ :: _) |- _ =>
      pose proof (rd_bytes_ok _ _ _ _ Hok H); destruct (rd_inside _ _ _ _ H) as [Hle _]; cbn [length] in *; split; [lia|assumption] end.
Qed.
