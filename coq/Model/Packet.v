(* Model/Packet.v — src/packet.rs, function for function.
   Panic sites 100-199. *)
From TS Require Import Base.Res Gen.Consts Model.Timestamp.
Open Scope N_scope.

(* Packet::SIZE, Packet::SYNC_BYTE, Pid::MAX_VALUE: regenerated from the source on every run (Gen/Consts.v) *)
Definition PKT_SIZE : nat := Eval compute in N.to_nat PACKET_SIZE.
Definition SYNC_BYTE : N := Eval compute in SYNC_BYTE_SRC.
Definition PID_MAX : N := Eval compute in PID_MAX_VALUE.
Definition FIXED_HEADER_SIZE : nat := 4.
Definition ADAPTATION_FIELD_OFFSET : nat := 5.

(* ---- AdaptationControl(u8), TransportScramblingControl(u8) ---- *)
Definition ac_has_payload (b3 : N) : bool := nz (N.land b3 16).
Definition ac_has_adaptation_field (b3 : N) : bool := nz (N.land b3 32).
Definition tsc_is_scrambled (b3 : N) : bool := nz (N.land b3 192).
Definition tsc_scheme (b3 : N) : N := N.shiftr b3 6.          (* Option<NonZeroU8>: 0 encodes None *)

(* ---- ClockRef ---- *)
Record clockref := { cr_base : N; cr_ext : N }.

(* ClockRef::from_slice(data): indexes data[0..=5] *)
Definition clockref_from_slice (data : list N) : res clockref :=
  do d0 <- idx data 0 101; do d1 <- idx data 1 102; do d2 <- idx data 2 103;
  do d3 <- idx data 3 104; do d4 <- idx data 4 105; do d5 <- idx data 5 106;
  Ok {| cr_base := N.lor (N.lor (N.lor (N.lor (N.shiftl d0 25) (N.shiftl d1 17)) (N.shiftl d2 9))
                          (N.shiftl d3 1)) (N.shiftr d4 7);
        cr_ext := N.lor (N.shiftl (N.land d4 1) 8) d5 |}.

(* ClockRef::from_parts(base, extension) *)
Definition clockref_from_parts (base ext : N) : res clockref :=
  do _ <- assert (base <? 8589934592) 107;
  do _ <- assert (ext <? 512) 108;
  Ok {| cr_base := base; cr_ext := ext |}.

(* From<ClockRef> for u64 *)
Definition clockref_to_u64 (c : clockref) : N := cr_base c * 300 + cr_ext c.

(* ---- ContinuityCounter ---- *)
Definition cc_new (count : N) : res N := do _ <- assert (count <? 16) 109; Ok count.
Definition cc_follows (self other : N) : bool := N.land (other + 1) 15 =? self.

(* ---- Pid ---- *)
Definition pid_new (pid : N) : res N := do _ <- assert (pid <=? 8191) 110; Ok pid.   (* literal 0x1fff in Pid::new *)
Definition pid_try_from (v : N) : option N := if v <=? PID_MAX then Some v else None.

(* ---- AdaptationField ---- *)
Inductive af_err := AfFieldNotPresent | AfNotEnoughData | AfSpliceTimestampError (e : ts_err).

(* AdaptationField::new(buf): assert!(!buf.is_empty()) *)
Definition af_new (buf : list N) : res (list N) :=
  do _ <- assert (negb (Nat.eqb (length buf) 0)) 111; Ok buf.

Definition af_flag (buf : list N) (mask : N) (site : N) : res bool :=
  do b <- idx buf 0 site; Ok (nz (N.land b mask)).
Definition af_discontinuity_indicator buf := af_flag buf 128 112.
Definition af_random_access_indicator buf := af_flag buf 64 113.
Definition af_es_priority_indicator (buf : list N) : res N :=
  do b <- idx buf 0 114; Ok (N.shiftr (N.land b 32) 5).
Definition af_pcr_flag buf := af_flag buf 16 115.
Definition af_opcr_flag buf := af_flag buf 8 116.
Definition af_splicing_point_flag buf := af_flag buf 4 117.
Definition af_transport_private_data_flag buf := af_flag buf 2 118.
Definition af_extension_flag buf := af_flag buf 1 119.

(* fn slice(&self, from, to) -> Result<&[u8], AdaptationFieldError> *)
Definition af_slice (buf : list N) (from to : nat) : res (rresult (list N) af_err) :=
  if Nat.ltb (length buf) to then Ok (RErr AfNotEnoughData)
  else do s <- slice buf from to 120; Ok (ROk s).

Definition PCR_SIZE : nat := 6.

Definition af_pcr (buf : list N) : res (rresult clockref af_err) :=
  do f <- af_pcr_flag buf;
  if f then
    try s <- af_slice buf 1 (1 + PCR_SIZE);
    do c <- clockref_from_slice s; Ok (ROk c)
  else Ok (RErr AfFieldNotPresent).

Definition af_opcr_offset (buf : list N) : res nat :=
  do f <- af_pcr_flag buf; Ok (if f then (1 + PCR_SIZE)%nat else 1%nat).

Definition af_opcr (buf : list N) : res (rresult clockref af_err) :=
  do f <- af_opcr_flag buf;
  if f then
    do off <- af_opcr_offset buf;
    try s <- af_slice buf off (off + PCR_SIZE);
    do c <- clockref_from_slice s; Ok (ROk c)
  else Ok (RErr AfFieldNotPresent).

Definition af_splice_countdown_offset (buf : list N) : res nat :=
  do o <- af_opcr_offset buf; do f <- af_opcr_flag buf;
  Ok (o + (if f then PCR_SIZE else 0))%nat.

Definition af_splice_countdown (buf : list N) : res (rresult N af_err) :=
  do f <- af_splicing_point_flag buf;
  if f then
    do off <- af_splice_countdown_offset buf;
    try s <- af_slice buf off (off + 1);
    do b <- idx s 0 121; Ok (ROk b)
  else Ok (RErr AfFieldNotPresent).

Definition af_transport_private_data_offset (buf : list N) : res nat :=
  do o <- af_splice_countdown_offset buf; do f <- af_splicing_point_flag buf;
  Ok (o + (if f then 1 else 0))%nat.

(* returns (offset within the adaptation field, bytes) *)
Definition af_transport_private_data (buf : list N) : res (rresult (nat * list N) af_err) :=
  do f <- af_transport_private_data_flag buf;
  if f then
    do off <- af_transport_private_data_offset buf;
    try s <- af_slice buf off (off + 1);
    do lenb <- idx s 0 122;
    let len := N.to_nat lenb in
    try d <- af_slice buf (off + 1) (off + 1 + len);
    Ok (ROk ((off + 1)%nat, d))
  else Ok (RErr AfFieldNotPresent).

Definition af_extension_offset (buf : list N) : res (rresult nat af_err) :=
  do off <- af_transport_private_data_offset buf;
  do f <- af_transport_private_data_flag buf;
  if f then
    try s <- af_slice buf off (off + 1);
    do lenb <- idx s 0 123;
    Ok (ROk (off + (N.to_nat lenb + 1))%nat)
  else Ok (ROk (off + 0)%nat).

(* AdaptationFieldExtension::new(buf) *)
Definition afe_new (buf : list N) : rresult (list N) af_err :=
  if Nat.eqb (length buf) 0 then RErr AfNotEnoughData else ROk buf.

Definition af_extension (buf : list N) : res (rresult (list N) af_err) :=
  do f <- af_extension_flag buf;
  if f then
    try off <- af_extension_offset buf;
    try s <- af_slice buf off (off + 1);
    do lenb <- idx s 0 124;
    let len := N.to_nat lenb in
    try e <- af_slice buf (off + 1) (off + 1 + len);
    Ok (afe_new e)
  else Ok (RErr AfFieldNotPresent).

(* ---- AdaptationFieldExtension ---- *)
Definition afe_slice (buf : list N) (from to : nat) : res (rresult (list N) af_err) :=
  if Nat.ltb (length buf) to then Ok (RErr AfNotEnoughData)
  else do s <- slice buf from to 125; Ok (ROk s).

Definition afe_ltw_flag buf := af_flag buf 128 126.
Definition afe_piecewise_rate_flag buf := af_flag buf 64 127.
Definition afe_seamless_splice_flag buf := af_flag buf 32 128.

(* Result<Option<u16>, _> *)
Definition afe_ltw_offset (buf : list N) : res (rresult (option N) af_err) :=
  do f <- afe_ltw_flag buf;
  if f then
    try dat <- afe_slice buf 1 3;
    do d0 <- idx dat 0 129;
    let valid := nz (N.land d0 128) in
    if valid then
      do d1 <- idx dat 1 130;
      Ok (ROk (Some (N.lor (N.shiftl (N.land d0 127) 8) d1)))
    else Ok (ROk None)
  else Ok (RErr AfFieldNotPresent).

Definition afe_piecewise_rate_offset (buf : list N) : res nat :=
  do f <- afe_ltw_flag buf; Ok (1 + (if f then 2 else 0))%nat.

Definition afe_piecewise_rate (buf : list N) : res (rresult N af_err) :=
  do f <- afe_piecewise_rate_flag buf;
  if f then
    do off <- afe_piecewise_rate_offset buf;
    try dat <- afe_slice buf off (off + 3);
    do d0 <- idx dat 0 131; do d1 <- idx dat 1 132; do d2 <- idx dat 2 133;
    Ok (ROk (N.lor (N.lor (N.shiftl (N.land d0 63) 16) (N.shiftl d1 8)) d2))
  else Ok (RErr AfFieldNotPresent).

Definition afe_seamless_splice_offset (buf : list N) : res nat :=
  do o <- afe_piecewise_rate_offset buf; do f <- afe_piecewise_rate_flag buf;
  Ok (o + (if f then 3 else 0))%nat.

(* SeamlessSplice { splice_type, dts_next_au } *)
Definition afe_seamless_splice (buf : list N) : res (rresult (N * N) af_err) :=
  do f <- afe_seamless_splice_flag buf;
  if f then
    do off <- afe_seamless_splice_offset buf;
    try dat <- afe_slice buf off (off + 5);
    do d0 <- idx dat 0 134;
    do t <- ts_from_bytes dat;
    match t with
    | ROk v => Ok (ROk (N.shiftr d0 4, v))
    | RErr e => Ok (RErr (AfSpliceTimestampError e))
    end
  else Ok (RErr AfFieldNotPresent).

(* ---- Packet ---- *)
Definition pkt := list N.

(* Packet::try_new(buf) *)
Definition pkt_try_new (buf : list N) : res (option pkt) :=
  do _ <- assert (Nat.eqb (length buf) PKT_SIZE) 140;
  do b0 <- idx buf 0 141;
  Ok (if b0 =? SYNC_BYTE then Some buf else None).

(* Packet::new(buf) *)
Definition pkt_new (buf : list N) : res pkt :=
  do _ <- assert (Nat.eqb (length buf) PKT_SIZE) 142;
  do b0 <- idx buf 0 143;
  do _ <- assert (b0 =? SYNC_BYTE) 144;
  Ok buf.

Definition pkt_transport_error_indicator (p : pkt) : res bool :=
  do b <- idx p 1 145; Ok (nz (N.land b 128)).
Definition pkt_payload_unit_start_indicator (p : pkt) : res bool :=
  do b <- idx p 1 146; Ok (nz (N.land b 64)).
Definition pkt_transport_priority (p : pkt) : res bool :=
  do b <- idx p 1 147; Ok (nz (N.land b 32)).
Definition pkt_pid (p : pkt) : res N :=
  do b1 <- idx p 1 148; do b2 <- idx p 2 149;
  Ok (N.lor (N.shiftl (N.land b1 31) 8) b2).
(* both wrap byte 3 *)
Definition pkt_transport_scrambling_control (p : pkt) : res N := idx p 3 150.
Definition pkt_adaptation_control (p : pkt) : res N := idx p 3 151.
Definition pkt_continuity_counter (p : pkt) : res N :=
  do b <- idx p 3 152; cc_new (N.land b 15).
Definition pkt_adaptation_field_length (p : pkt) : res nat :=
  do b <- idx p 4 153; Ok (N.to_nat b).

(* fn mk_af(&self, len) : (offset in packet, bytes) *)
Definition pkt_mk_af (p : pkt) (len : nat) : res (nat * list N) :=
  do s <- slice p ADAPTATION_FIELD_OFFSET (ADAPTATION_FIELD_OFFSET + len) 154;
  do a <- af_new s; Ok (ADAPTATION_FIELD_OFFSET, a).

(* pub fn adaptation_field(&self) -> Option<AdaptationField> *)
Definition pkt_adaptation_field (p : pkt) : res (option (nat * list N)) :=
  do ac <- pkt_adaptation_control p;
  if ac_has_adaptation_field ac then
    if ac_has_payload ac then
      do len <- pkt_adaptation_field_length p;
      if Nat.ltb 182 len then Ok None
      else if Nat.eqb len 0 then Ok None
      else do a <- pkt_mk_af p len; Ok (Some a)
    else
      do len <- pkt_adaptation_field_length p;
      if negb (Nat.eqb len (PKT_SIZE - ADAPTATION_FIELD_OFFSET)) then Ok None
      else do a <- pkt_mk_af p len; Ok (Some a)
  else Ok None.

Definition pkt_content_offset (p : pkt) : res nat :=
  do ac <- pkt_adaptation_control p;
  if ac_has_adaptation_field ac then
    do l <- pkt_adaptation_field_length p; Ok (ADAPTATION_FIELD_OFFSET + l)%nat
  else Ok FIXED_HEADER_SIZE.

(* fn mk_payload(&self) : (offset in packet, bytes) *)
Definition pkt_mk_payload (p : pkt) : res (option (nat * list N)) :=
  do offset <- pkt_content_offset p;
  let len := length p in
  match Nat.compare offset len with
  | Eq => Ok None
  | Gt => Ok None
  | Lt => do s <- slice_from p offset 155; Ok (Some (offset, s))
  end.

(* pub fn payload(&self) -> Option<&[u8]> *)
Definition pkt_payload (p : pkt) : res (option (nat * list N)) :=
  do ac <- pkt_adaptation_control p;
  if ac_has_payload ac then pkt_mk_payload p else Ok None.
