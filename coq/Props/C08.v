(* Props/C08.v — C08: elementary-stream call-backs follow the documented protocol. *)
From TS Require Import Base.Res Model.Timestamp Model.Packet Model.Pes Model.PesFilter Spec.EsProtocol Proofs.PesFilterProofs.
Open Scope N_scope.

(* for ANY packet sequence (any flags, counters, contents) the consumer's notifications are accepted by
   the protocol monitor: stream-start exactly once and before any packet-begin; continuation data and
   packet-end only while a packet is open; each packet closed at most once *)
Theorem C08_protocol : forall pkts f' evs, run_filter pes_filter_new pkts = Ok (f', evs) ->
  exists m, mrun MNoStream evs = Some m.
Proof. exact c08_protocol. Qed.
Print Assumptions C08_protocol.

(* from every filter state, with the state/monitor correspondence explicit *)
Theorem C08_protocol_from : forall f pkts f' evs, run_filter f pkts = Ok (f', evs) ->
  mrun (abs_state (pf_state f)) evs = Some (abs_state (pf_state f')).
Proof. exact c08_protocol_from. Qed.
Print Assumptions C08_protocol_from.

(* the filter never panics on 188-byte packets *)
Theorem C08_total : forall f pk, length pk = 188%nat -> bytes_ok pk -> exists r, pf_consume f pk = Ok r.
Proof. exact pf_consume_total. Qed.
Print Assumptions C08_total.

(* packet-begin iff the unit-start packet has a payload that PesHeader::from_bytes accepts *)
Theorem C08_begin_iff_header : forall f pk f' evs, pf_consume f pk = Ok (f', evs) ->
  existsb is_begin evs =
  match pkt_payload_unit_start_indicator pk, pkt_payload pk with
  | Ok true, Ok (Some (_, payload)) => match pes_header_from_bytes payload with Ok (Some _) => true | _ => false end
  | _, _ => false
  end.
Proof. exact c08_begin_iff. Qed.
Print Assumptions C08_begin_iff_header.

(* data of a PES packet whose header could not be recognised is not delivered: the filter waits,
   closed, for the next unit start *)
Theorem C08_unrecognised_not_delivered : forall f pk f' evs, pf_consume f pk = Ok (f', evs) ->
  pkt_payload_unit_start_indicator pk = Ok true -> existsb is_begin evs = false ->
  pf_state f' = PsIgnoreRest /\ existsb is_cont evs = false.
Proof. exact c08_bad_header. Qed.
Print Assumptions C08_unrecognised_not_delivered.

Example C08_nonvacuous :
  mrun MNoStream [EsContinuityError; EsStartStream; EsBeginPacket 4 []; EsContinuePacket 4 [1]; EsEndPacket;
                  EsBeginPacket 4 []; EsContinuityError; EsBeginPacket 4 []] = Some MOpen /\
  mrun MNoStream [EsBeginPacket 4 []] = None /\ mrun MIdle [EsContinuePacket 4 [1]] = None.
Proof. repeat split; reflexivity. Qed.
