(* Props/C02.v — C02: elementary stream bytes are delivered exactly once, in order. *)
From TS Require Import Base.Res Model.Timestamp Model.Packet Model.Pes Model.PesFilter Spec.EsProtocol Spec.PesSpec
  Proofs.PesFilterProofs Proofs.ConservationProofs.
Open Scope N_scope.

(* one PES packet spread over transport packets in any legal way (any sizes of the continuation payloads,
   any number of interleaved payload-less packets, consecutive counters from any value), from ANY filter
   state: one packet-begin carrying the start packet's payload, then exactly the continuation payloads, each
   once and in order; nothing else but the stream-start / packet-end that the previous state calls for *)
Theorem C02_unit : forall f pk0 v0 off0 chunk0 (l : list (pkt * pview)),
  has_view pk0 v0 -> continues (pf_ccounter f) v0 -> w_pusi v0 = true -> w_pl v0 = Some (off0, chunk0) ->
  pes_header_from_bytes chunk0 = Ok (Some chunk0) ->
  Forall cont_ok l -> chain_cc (w_cc v0) l ->
  run_filter f (pk0 :: map fst l) =
  Ok ({| pf_ccounter := Some (last_cc (w_cc v0) l); pf_state := PsStarted |},
      pre_events (pf_state f) ++ EsBeginPacket off0 chunk0 :: concat (map cont_event l)).
Proof. exact c02_unit. Qed.
Print Assumptions C02_unit.

(* those bytes are the PES packet's payload: nothing lost, duplicated or reordered *)
Theorem C02_bytes : forall (hdr payload chunk0 : list N) (l : list (pkt * pview)),
  hdr ++ payload = chunk0 ++ concat (map cont_bytes l) -> (length hdr <= length chunk0)%nat ->
  skipn (length hdr) chunk0 ++ concat (map cont_bytes l) = payload.
Proof. exact c02_bytes. Qed.
Print Assumptions C02_bytes.

(* the payload the header exposes at packet-begin is the start packet's payload minus the PES header *)
Theorem C02_exposed_parsed : forall chunk0, bytes_ok chunk0 -> s_pes_accept chunk0 = true ->
  s_headerless (s_stream_id chunk0) = false -> s_ppc_accept (skipn 6 chunk0) = true ->
  exists c, pes_contents_of chunk0 = Ok (PesParsed (Some c)) /\ c = skipn 6 chunk0 /\
            ppc_payload c = Ok ((3 + s_hdl c)%nat, skipn (6 + (3 + s_hdl c)) chunk0).
Proof. exact c02_exposed_parsed. Qed.
Print Assumptions C02_exposed_parsed.

Theorem C02_exposed_raw : forall chunk0, bytes_ok chunk0 -> s_pes_accept chunk0 = true ->
  s_headerless (s_stream_id chunk0) = true -> pes_contents_of chunk0 = Ok (PesPayload (skipn 6 chunk0)).
Proof. exact c02_exposed_raw. Qed.
Print Assumptions C02_exposed_raw.

(* a whole elementary stream (any number of PES packets, any sizes): stream-start once, then per PES packet
   one packet-begin and its slices, packets separated by exactly one packet-end, no continuity error *)
Theorem C02_stream : forall us, Forall unit_ok us -> units_linked None us ->
  exists f', run_filter pes_filter_new (concat (map unit_packets us)) = Ok (f', stream_events true us).
Proof. exact c02_stream. Qed.
Print Assumptions C02_stream.

(* interleaving with other PIDs and repeated tables is the dispatcher's business: C06_refines shows each
   packet reaches only its own PID's handler, C10 that repeated tables emit nothing *)
