//! C14: PES header fields; malformed headers rejected.
use crate::util::*;

/// flag-implied size of the optional fields
fn need(flags: u8) -> usize {
    (match flags >> 6 { 2 => 5, 3 => 10, _ => 0 })
        + if flags & 0x20 != 0 { 6 } else { 0 } + if flags & 0x10 != 0 { 3 } else { 0 }
        + if flags & 0x08 != 0 { 1 } else { 0 } + if flags & 0x04 != 0 { 1 } else { 0 } + if flags & 0x02 != 0 { 2 } else { 0 }
}

fn mk(rng: &mut Rng, sid: u8, b6: u8, flags: u8, hdl: u8, total: usize, markers: bool) -> Vec<u8> {
    let mut v = vec![0, 0, 1, sid, rng.byte(), rng.byte(), b6, flags, hdl];
    while v.len() < total { v.push(rng.byte()); }
    v.truncate(total);
    if markers {
        // set timestamp / escr / es_rate / copy-info marker bits so that values decode
        let mut p = 9usize;
        let ts = |v: &mut Vec<u8>, p: usize| { for i in [0usize, 2, 4] { if p + i < v.len() { v[p + i] |= 1; } } };
        match flags >> 6 { 2 => { ts(&mut v, p); p += 5; } 3 => { ts(&mut v, p); ts(&mut v, p + 5); p += 10; } _ => {} }
        if flags & 0x20 != 0 { p += 6; }
        if flags & 0x10 != 0 { p += 3; }
        if flags & 0x08 != 0 { p += 1; }
        if flags & 0x04 != 0 { if p < v.len() { v[p] |= 0x80; } }
    }
    v
}

pub fn gen(tier: &str, seed: u64, emit: &mut dyn FnMut(String)) {
    let mut rng = Rng::new(seed ^ 0xC14);
    let big = tier == "thorough";
    // all 256 stream ids, with parsed-looking and unparsed-looking contents, several lengths
    for sid in 0..=255u8 { for total in [5usize, 6, 7, 8, 9, 10, 14, 30, 184] { for _ in 0..(if big { 8 } else { 2 }) {
        let flags = rng.byte(); let hdl = *rng.pick(&[0u8, 5, 10, 20]);
        let b6 = if rng.chance(3, 4) { 0x80 | (rng.byte() & 0x3f) } else { rng.byte() };
        emit(format!("PES {}", hex(&mk(&mut rng, sid, b6, flags, hdl, total, true))));
    } } }
    // PES_packet_length steered around the number of bytes that follow it (0 = unbounded, less, equal, more), every stream id
    for sid in 0..=255u8 { for total in [6usize, 7, 9, 12, 40, 184] {
        let avail = total - 6;
        for plen in [0usize, 1, avail.saturating_sub(1), avail, avail + 1, 0xffff] {
            let flags = if rng.chance(1, 2) { 0 } else { rng.byte() }; let hdl = if flags == 0 { 0 } else { *rng.pick(&[0u8, 5, 10]) };
            let b6 = 0x80 | (rng.byte() & 0x3f);
            let mut v = mk(&mut rng, sid, b6, flags, hdl, total, true);
            v[4] = (plen >> 8) as u8; v[5] = plen as u8;
            emit(format!("PES {}", hex(&v)));
        }
    } }
    // PTS and DTS related to each other: equal, one tick apart, either side of the 33-bit wrap
    for _ in 0..(if big { 2000 } else { 200 }) {
        let pts: u64 = match rng.below(4) { 0 => 0, 1 => (1 << 33) - 1, 2 => 1 << 32, _ => rng.below(1 << 33) };
        let dts: u64 = match rng.below(4) { 0 => pts, 1 => (pts + 1) & ((1 << 33) - 1), 2 => pts.wrapping_sub(1) & ((1 << 33) - 1), _ => pts ^ (1 << rng.below(33)) };
        let enc = |prefix: u8, v: u64| -> [u8; 5] { [(prefix << 4) | ((((v >> 30) & 7) as u8) << 1) | 1, (v >> 22) as u8, ((((v >> 15) & 0x7f) as u8) << 1) | 1, (v >> 7) as u8, (((v & 0x7f) as u8) << 1) | 1] };
        let mut v = vec![0, 0, 1, 0xe0, 0, 0, 0x80, 0xc0, 10];
        v.extend(enc(3, pts)); v.extend(enc(1, dts)); let tail = rng.bytes(8); v.extend(tail);
        emit(format!("PES {}", hex(&v)));
    }
    // start code: every single-byte deviation class
    for _ in 0..(if big { 4000 } else { 400 }) {
        let mut v = mk(&mut rng, 0xe0, 0x80, 0, 0, 20, false);
        let i = rng.below(3) as usize; v[i] = *rng.pick(&[0u8, 1, 2, 0xff, 0x80]);
        emit(format!("PES {}", hex(&v)));
    }
    // all 256 flag bytes x PES_header_data_length around the flag-implied need x buffer length around the header end
    for flags in 0..=255u8 {
        let nd = need(flags) as i64;
        for dh in [-1000i64, -1, 0, 1, 3, 255] { for dl in [-2i64, -1, 0, 1, 30] { for markers in [true, false] {
            let hdl = if dh == -1000 { 0 } else { (nd + dh).clamp(0, 255) } as u8;
            let total = (9 + hdl as i64 + dl).clamp(6, 300) as usize;
            let sid = *rng.pick(&[0xe0u8, 0xc0, 0xbd, 0xfd]);
            let b6 = 0x80 | (rng.byte() & 0x3f);
            emit(format!("PES {}", hex(&mk(&mut rng, sid, b6, flags, hdl, total, markers))));
            if big { for _ in 0..6 { let b6 = rng.byte(); emit(format!("PES {}", hex(&mk(&mut rng, sid, b6, flags, hdl, total, markers)))); } }
        } } }
    }
    // byte 6: all 256 values (check bits, priority, alignment, copyright, original)
    for b6 in 0..=255u8 { for _ in 0..(if big { 16 } else { 3 }) {
        let flags = rng.byte(); let hdl = need(flags) as u8 + rng.below(3) as u8;
        emit(format!("PES {}", hex(&mk(&mut rng, 0xe0, b6, flags, hdl, 9 + hdl as usize + 5, true))));
    } }
    // all 256 trick-mode bytes, at each position the preceding flags imply
    for tm in 0..=255u8 { for pre in 0..8u8 {
        let flags = (pre << 4) | 0x08 | (rng.byte() & 0x07);
        let nd = need(flags);
        let mut v = mk(&mut rng, 0xe0, 0x80, flags, nd as u8, 9 + nd + 3, true);
        let pos = 9 + need(flags & 0xf0);
        v[pos] = tm;
        emit(format!("PES {}", hex(&v)));
    } }
    // PesParsedContents::from_bytes called directly on arbitrary buffers
    for _ in 0..(if big { 300000 } else { 20000 }) {
        let flags = rng.byte(); let nd = need(flags) as i64;
        let hdl = (nd + rng.range(0, 6) as i64 - 2).clamp(0, 255) as u8;
        let total = (3 + hdl as i64 + rng.range(0, 6) as i64 - 2).clamp(0, 280) as usize;
        let mut v = vec![if rng.chance(7, 8) { 0x80 | (rng.byte() & 0x3f) } else { rng.byte() }, flags, hdl];
        while v.len() < total { v.push(rng.byte()); }
        v.truncate(total);
        emit(format!("PPC {}", hex(&v)));
    }
    for _ in 0..(if big { 300000 } else { 10000 }) { let n = rng.range(0, 40) as usize; emit(format!("PES {}", hex(&rng.bytes(n)))); }
}
