(* Model/PacketObs.v — the observation (list of naturals) of a packet / adaptation field:
   every public accessor is called, exactly as the harness and the Debug impls do. *)
From TS Require Import Base.Res Model.Timestamp Model.Packet.
Open Scope N_scope.

Definition enc_af_err (e : af_err) : list N :=
  match e with
  | AfFieldNotPresent => [1]
  | AfNotEnoughData => [2]
  | AfSpliceTimestampError t => 3 :: enc_ts_err t
  end.

Definition enc_clockref (c : clockref) : list N := [cr_base c; cr_ext c; clockref_to_u64 c].

Definition enc_rr {A} (f : A -> list N) (r : rresult A af_err) : list N :=
  match r with ROk a => 0 :: f a | RErr e => 1 :: enc_af_err e end.

(* observation of an AdaptationFieldExtension *)
Definition obs_afe (buf : list N) : res (list N) :=
  do ltw <- afe_ltw_offset buf;
  do pw <- afe_piecewise_rate buf;
  do ss <- afe_seamless_splice buf;
  Ok (enc_rr (fun o => match o with Some v => [1; v] | None => [0] end) ltw
      ++ enc_rr (fun v => [v]) pw
      ++ enc_rr (fun '(t, v) => [t; v]) ss).

(* observation of an AdaptationField whose first byte sits at offset [base] of the observed buffer *)
Definition obs_af (base : nat) (buf : list N) : res (list N) :=
  do di <- af_discontinuity_indicator buf;
  do ra <- af_random_access_indicator buf;
  do ep <- af_es_priority_indicator buf;
  do pcr <- af_pcr buf;
  do opcr <- af_opcr buf;
  do sc <- af_splice_countdown buf;
  do tpd <- af_transport_private_data buf;
  do ext <- af_extension buf;
  do eo <- match ext with
           | ROk e => do o <- obs_afe e; Ok (0 :: o)
           | RErr e => Ok (1 :: enc_af_err e)
           end;
  Ok ([b2n di; b2n ra; ep]
      ++ enc_rr enc_clockref pcr
      ++ enc_rr enc_clockref opcr
      ++ enc_rr (fun v => [v]) sc
      ++ enc_rr (fun '(off, d) => [n2 (base + off); n2 (length d)]) tpd
      ++ eo).

(* ---- C12 observation: header fields, payload range, and an adaptation-field *range fingerprint*.
   AdaptationField has no accessor for its raw bytes, so its range is observed by probing: the
   adaptation-field area of a copy of the packet is overwritten with "private data only, length k"
   and the result of transport_private_data() obtained through the packet is compared with the
   result obtained from stand-alone AdaptationFields of candidate lengths.  Both sides of each
   comparison go through the same accessor, so the fingerprint depends on the range only. ---- *)
Fixpoint set_nth (l : list N) (i : nat) (v : N) : list N :=
  match l, i with
  | [], _ => []
  | _ :: r, O => v :: r
  | x :: r, S j => x :: set_nth r j v
  end.

Definition tpd_abs (base : nat) (a : list N) : res (list N) :=
  do r <- af_transport_private_data a;
  Ok (enc_rr (fun '(off, d) => [n2 (base + off); n2 (length d)]) r).

Definition sat_sub (a b : N) : N := if b <=? a then a - b else 0.

Definition fp_probes (L : N) : list N := [sat_sub L 2; sat_sub L 1; 181; 182].
Definition fp_cands (L : N) : list nat :=
  filter (fun n => Nat.leb 1 n && Nat.leb n 183)
         [N.to_nat (sat_sub L 1); N.to_nat L; S (N.to_nat L); 182%nat; 183%nat].

Fixpoint fp_cmp (p' : pkt) (via : list N) (cands : list nat) : res (list N) :=
  match cands with
  | [] => Ok []
  | n :: r =>
      do s <- slice p' 5 (5 + n) 160;
      do a <- af_new s;
      do t <- tpd_abs 5 a;
      do rest <- fp_cmp p' via r;
      Ok (b2n (if list_eq_dec N.eq_dec t via then true else false) :: rest)
  end.

Fixpoint fp_run (p : pkt) (L : N) (probes : list N) : res (list N) :=
  match probes with
  | [] => Ok []
  | k :: r =>
      let p' := set_nth (set_nth p 5 2) 6 k in
      do af <- pkt_adaptation_field p';
      do here <- match af with
                 | None => Ok [0]
                 | Some (off, a) => do via <- tpd_abs off a; do c <- fp_cmp p' via (fp_cands L); Ok (1 :: c)
                 end;
      do rest <- fp_run p L r;
      Ok (here ++ rest)
  end.

(* observation of a Packet for C12 *)
Definition obs_packet_c12 (p : pkt) : res (list N) :=
  do tei <- pkt_transport_error_indicator p;
  do pusi <- pkt_payload_unit_start_indicator p;
  do prio <- pkt_transport_priority p;
  do pid <- pkt_pid p;
  do tsc <- pkt_transport_scrambling_control p;
  do ac <- pkt_adaptation_control p;
  do cc <- pkt_continuity_counter p;
  do af <- pkt_adaptation_field p;
  do pl <- pkt_payload p;
  do b4 <- idx p 4 161;
  do fp <- fp_run p b4 (fp_probes b4);
  Ok ([b2n tei; b2n pusi; b2n prio; pid; tsc_scheme tsc; b2n (tsc_is_scrambled tsc);
       b2n (ac_has_adaptation_field ac); b2n (ac_has_payload ac); cc]
      ++ match pl with Some (off, d) => [1; n2 off; n2 (length d)] | None => [0] end
      ++ [match af with Some _ => 1 | None => 0 end] ++ fp).

Definition run_packet_c12 (buf : list N) : option (list N) :=
  match (do o <- pkt_try_new buf;
         match o with Some p => do x <- obs_packet_c12 p; Ok (1 :: x) | None => Ok [0] end) with
  | Ok l => Some l | Panic _ => None end.

(* observation of a Packet *)
Definition obs_packet (p : pkt) : res (list N) :=
  do tei <- pkt_transport_error_indicator p;
  do pusi <- pkt_payload_unit_start_indicator p;
  do prio <- pkt_transport_priority p;
  do pid <- pkt_pid p;
  do tsc <- pkt_transport_scrambling_control p;
  do ac <- pkt_adaptation_control p;
  do cc <- pkt_continuity_counter p;
  do af <- pkt_adaptation_field p;
  do pl <- pkt_payload p;
  do afo <- match af with
            | Some (off, a) => do o <- obs_af off a; Ok (1 :: o)
            | None => Ok [0]
            end;
  Ok ([b2n tei; b2n pusi; b2n prio; pid; tsc_scheme tsc; b2n (tsc_is_scrambled tsc);
       b2n (ac_has_adaptation_field ac); b2n (ac_has_payload ac); cc]
      ++ match pl with Some (off, d) => [1; n2 off; n2 (length d)] | None => [0] end
      ++ afo).

(* suite entry points: [None] encodes "panicked" *)
Definition run_packet (buf : list N) : option (list N) :=
  match (do o <- pkt_try_new buf;
         match o with Some p => do x <- obs_packet p; Ok (1 :: x) | None => Ok [0] end) with
  | Ok l => Some l | Panic _ => None end.

Definition run_af (buf : list N) : option (list N) :=
  match (do a <- af_new buf; obs_af 0 a) with Ok l => Some l | Panic _ => None end.

(* ---- C15 suite entry points ---- *)
Definition opt_of_res {A} (r : res A) : option A := match r with Ok a => Some a | Panic _ => None end.

Definition run_tsb (buf : list N) : option (list N) :=
  opt_of_res (do a <- ts_from_bytes buf; do p <- ts_from_pts_bytes buf; do d <- ts_from_dts_bytes buf;
              Ok (enc_ts_result a ++ enc_ts_result p ++ enc_ts_result d)).
Definition run_tsu (v : N) : option (list N) :=
  opt_of_res (do t <- ts_from_u64 v; Ok [t; b2n (t <=? TS_MAX)]).
Definition run_tsw (self since : N) : option (list N) :=
  opt_of_res (do a <- ts_from_u64 self; do b <- ts_from_u64 since; Ok [b2n (ts_likely_wrapped_since a b)]).
Definition run_crp (base ext : N) : option (list N) :=
  opt_of_res (do c <- clockref_from_parts base ext; Ok (enc_clockref c)).
Definition run_crs (data : list N) : option (list N) :=
  opt_of_res (do c <- clockref_from_slice data; Ok (enc_clockref c)).
