(* Model/Timestamp.v — src/pes.rs: Timestamp, TimestampError (lines 855-955) *)
From TS Require Import Base.Res.
Open Scope N_scope.

Inductive ts_err := IncorrectPrefixBits (expected actual : N) | MarkerBitNotSet (bit_number : N).

Definition TS_MAX : N := 8589934591.          (* (1 << 33) - 1 *)

(* fn check_prefix(buf, expected) *)
Definition check_prefix (buf : list N) (expected : N) : res (rresult unit ts_err) :=
  do _ <- assert (expected <=? 15) 201;
  do b0 <- idx buf 0 202;
  let actual := N.shiftr b0 4 in
  Ok (if actual =? expected then ROk tt else RErr (IncorrectPrefixBits expected actual)).

(* fn check_marker_bit(buf, bit_number) *)
Definition check_marker_bit (buf : list N) (bit_number : N) : res (rresult unit ts_err) :=
  let byte_index := bit_number / 8 in
  let bit_index := bit_number mod 8 in
  let bit_mask := N.shiftl 1 (7 - bit_index) in
  do b <- idx buf (N.to_nat byte_index) 203;
  Ok (if nz (N.land b bit_mask) then ROk tt else RErr (MarkerBitNotSet bit_number)).

(* pub fn from_bytes(buf) *)
Definition ts_from_bytes (buf : list N) : res (rresult N ts_err) :=
  try _ <- check_marker_bit buf 7;
  try _ <- check_marker_bit buf 23;
  try _ <- check_marker_bit buf 39;
  do b0 <- idx buf 0 204; do b1 <- idx buf 1 205; do b2 <- idx buf 2 206;
  do b3 <- idx buf 3 207; do b4 <- idx buf 4 208;
  Ok (ROk (N.lor (N.lor (N.lor (N.lor (N.shiftl (N.land b0 14) 29) (N.shiftl b1 22))
        (N.shiftl (N.land b2 254) 14)) (N.shiftl b3 7)) (N.shiftr b4 1))).

Definition ts_from_pts_bytes (buf : list N) : res (rresult N ts_err) :=
  try _ <- check_prefix buf 2; ts_from_bytes buf.
Definition ts_from_dts_bytes (buf : list N) : res (rresult N ts_err) :=
  try _ <- check_prefix buf 1; ts_from_bytes buf.

(* pub fn from_u64(val): assert!(val < 1 << 33)   [after fix F4; the pinned tree had 1 << 34] *)
Definition ts_from_u64 (val : N) : res N :=
  do _ <- assert (val <? 8589934592) 209; Ok val.

(* pub fn likely_wrapped_since(self, since) *)
Definition ts_likely_wrapped_since (self since : N) : bool :=
  if self <=? since then (TS_MAX / 2 <? since - self) else false.

(* observation encodings *)
Definition enc_ts_err (e : ts_err) : list N :=
  match e with IncorrectPrefixBits ex ac => [1; ex; ac] | MarkerBitNotSet b => [2; b] end.
Definition enc_ts_result (r : rresult N ts_err) : list N :=
  match r with ROk v => [0; v] | RErr e => 1 :: enc_ts_err e end.
