(* Model/TablesObs.v — observations of descriptor loops, PAT and PMT bodies: every public accessor. *)
From TS Require Import Base.Res Model.Timestamp Model.Packet Model.PacketObs Model.Descriptor Model.Tables.
Open Scope N_scope.

Definition enc_desc_err (e : desc_err) : list N :=
  match e with
  | DNotEnoughData t a x => [1; t; n2 a; n2 x]
  | DTagTooLongForBuffer t b => [2; n2 t; n2 b]
  | DBufferTooShort b => [3; n2 b]
  | DUnhandledTagValue t => [4; t]
  end.

Definition enc_lang (l : lang_item) : list N :=
  match l with LangOk code a => 0 :: code ++ [a] | LangTooShort n => [1; n2 n] end.

Definition obs_desc (d : desc) : res (list N) :=
  let v := d_variant d in
  if v =? V_REGISTRATION then
    do f <- reg_format_identifier (d_payload d); do a <- reg_additional_info (d_payload d);
    Ok (v :: f ++ [n2 (d_off d + 4); n2 (length a)])
  else if v =? V_ISO639 then
    do ls <- languages (d_payload d);
    Ok (v :: n2 (length ls) :: concat (map enc_lang ls))
  else if v =? V_MAXBITRATE then
    do r <- maxbr_maximum_bitrate (d_payload d); do b <- maxbr_bits_per_second (d_payload d);
    Ok [v; r; b]
  else if v =? V_AVC then
    do f <- avc_fields (d_payload d); Ok (v :: f)
  else Ok [v; d_tag d; n2 (d_off d); n2 (length (d_payload d))].

Fixpoint obs_desc_items (l : list (rresult desc desc_err)) : res (list N) :=
  match l with
  | [] => Ok []
  | ROk d :: r => do o <- obs_desc d; do rest <- obs_desc_items r; Ok (0 :: o ++ rest)
  | RErr e :: r => do rest <- obs_desc_items r; Ok (1 :: enc_desc_err e ++ rest)
  end.

(* a descriptor loop at offset [base] of the observed buffer *)
Definition obs_desc_loop (base : nat) (buf : list N) : res (list N) :=
  do l <- descriptors base buf; do o <- obs_desc_items l; Ok (n2 (length l) :: o).

Definition run_dsc (buf : list N) : option (list N) := opt_of_res (obs_desc_loop 0 buf).

Definition enc_pd (d : program_descriptor) : list N :=
  match d with PdNetwork p => [0; 0; p] | PdProgram n p => [1; n; p] end.
Definition obs_pat (body : list N) : res (list N) :=
  do l <- pat_programs body; Ok (n2 (length l) :: concat (map enc_pd l)).
Definition run_pat (body : list N) : option (list N) := opt_of_res (obs_pat body).

Definition obs_stream (s : stream_info) : res (list N) :=
  do t <- si_stream_type s; do p <- si_elementary_pid s; do d <- si_descriptor_bytes s;
  do o <- obs_desc_loop (fst d) (snd d);
  Ok (t :: p :: o).
Fixpoint obs_streams (l : list stream_info) : res (list N) :=
  match l with [] => Ok [] | s :: r => do o <- obs_stream s; do rest <- obs_streams r; Ok (o ++ rest) end.

(* accessors of an accepted PmtSection *)
Definition obs_pmt_section (data : list N) : res (list N) :=
  do pcr <- pmt_pcr_pid data;
  do d <- pmt_descriptor_bytes data;
  do dl <- obs_desc_loop (fst d) (snd d);
  do ss <- pmt_streams data;
  do so <- obs_streams ss;
  Ok (pcr :: dl ++ n2 (length ss) :: so).

Definition obs_pmt (body : list N) : res (list N) :=
  do r <- pmt_from_bytes body;
  match r with
  | RErr (DemuxNotEnoughData f e a) => Ok [1; f; n2 e; n2 a]
  | ROk data => do o <- obs_pmt_section data; Ok (0 :: o)
  end.
Definition run_pmt (body : list N) : option (list N) := opt_of_res (obs_pmt body).
