(* Model/Pes.v — src/pes.rs: PesHeader, PesParsedContents and value types (lines 154-853).
   Panic sites 210-259. *)
From TS Require Import Base.Res Model.Timestamp Model.Packet.
Open Scope N_scope.

Inductive pes_err :=
| PesFieldNotPresent | PesPtsDtsFlagsInvalid | PesNotEnoughData (requested available : nat) | PesMarkerBitNotSet.

Definition PES_FIXED_HEADER_SIZE : nat := 6.
Definition PPC_FIXED_HEADER_SIZE : nat := 3.
Definition TIMESTAMP_SIZE : nat := 5.

(* PesHeader::from_bytes(buf) -> Option<PesHeader> *)
Definition pes_header_from_bytes (buf : list N) : res (option (list N)) :=
  if Nat.ltb (length buf) PES_FIXED_HEADER_SIZE then Ok None
  else
    do b0 <- idx buf 0 210; do b1 <- idx buf 1 211; do b2 <- idx buf 2 212;
    let prefix := N.lor (N.lor (N.shiftl b0 16) (N.shiftl b1 8)) b2 in
    if negb (prefix =? 1) then Ok None else Ok (Some buf).

Definition pes_stream_id (h : list N) : res N := idx h 3 213.

(* PesLength: 0 encodes Unbounded *)
Definition pes_packet_length (h : list N) : res N :=
  do b4 <- idx h 4 214; do b5 <- idx h 5 215; Ok (N.lor (N.shiftl b4 8) b5).

(* StreamId::is_parsed *)
Definition sid_is_parsed (sid : N) : bool :=
  negb ((sid =? 188) || (sid =? 190) || (sid =? 191) || (sid =? 240) || (sid =? 241)
        || (sid =? 255) || (sid =? 242) || (sid =? 248)).

(* ---- PesParsedContents ---- *)
Definition ppc_pes_header_data_len (buf : list N) : res nat :=
  do b <- idx buf 2 216; Ok (N.to_nat b).
Definition ppc_pts_dts_flags (buf : list N) : res N := do b <- idx buf 1 217; Ok (N.shiftr b 6).
Definition ppc_flag (buf : list N) (sh : N) (site : N) : res bool :=
  do b <- idx buf 1 site; Ok (nz (N.land (N.shiftr b sh) 1)).
Definition ppc_escr_flag buf := ppc_flag buf 5 218.
Definition ppc_esrate_flag buf := ppc_flag buf 4 219.
Definition ppc_dsm_trick_mode_flag buf := ppc_flag buf 3 220.
Definition ppc_additional_copy_info_flag buf := ppc_flag buf 2 221.
Definition ppc_pes_crc_flag buf := ppc_flag buf 1 222.
Definition ppc_pes_extension_flag buf := ppc_flag buf 0 223.

Definition ppc_pts_dts_end (buf : list N) : res nat :=
  do f <- ppc_pts_dts_flags buf;
  if f =? 0 then Ok PPC_FIXED_HEADER_SIZE
  else if f =? 1 then Ok PPC_FIXED_HEADER_SIZE
  else if f =? 2 then Ok (PPC_FIXED_HEADER_SIZE + TIMESTAMP_SIZE)%nat
  else if f =? 3 then Ok (PPC_FIXED_HEADER_SIZE + TIMESTAMP_SIZE * 2)%nat
  else Panic 224.
Definition ppc_escr_end (buf : list N) : res nat :=
  do e <- ppc_pts_dts_end buf; do f <- ppc_escr_flag buf; Ok (e + if f then 6 else 0)%nat.
Definition ppc_es_rate_end (buf : list N) : res nat :=
  do e <- ppc_escr_end buf; do f <- ppc_esrate_flag buf; Ok (e + if f then 3 else 0)%nat.
Definition ppc_dsm_trick_mode_end (buf : list N) : res nat :=
  do e <- ppc_es_rate_end buf; do f <- ppc_dsm_trick_mode_flag buf; Ok (e + if f then 1 else 0)%nat.
Definition ppc_additional_copy_info_end (buf : list N) : res nat :=
  do e <- ppc_dsm_trick_mode_end buf; do f <- ppc_additional_copy_info_flag buf; Ok (e + if f then 1 else 0)%nat.
Definition ppc_pes_crc_end (buf : list N) : res nat :=
  do e <- ppc_additional_copy_info_end buf; do f <- ppc_pes_crc_flag buf; Ok (e + if f then 2 else 0)%nat.

(* PesParsedContents::from_bytes(buf) -> Option<PesParsedContents> *)
Definition ppc_from_bytes (buf : list N) : res (option (list N)) :=
  if Nat.ltb (length buf) PPC_FIXED_HEADER_SIZE then Ok None
  else
    do b0 <- idx buf 0 225;
    let check_bits := N.shiftr b0 6 in
    if negb (check_bits =? 2) then Ok None
    else
      do hdl <- ppc_pes_header_data_len buf;
      if Nat.ltb (length buf) (PPC_FIXED_HEADER_SIZE + hdl) then Ok None
      else
        do ce <- ppc_pes_crc_end buf;
        if Nat.ltb (PPC_FIXED_HEADER_SIZE + hdl) ce then Ok None
        else Ok (Some buf).

Definition ppc_pes_priority (buf : list N) : res N :=
  do b <- idx buf 0 226; Ok (N.land (N.shiftr b 3) 1).
Definition ppc_data_alignment_indicator (buf : list N) : res bool :=   (* true = Aligned *)
  do b <- idx buf 0 227; Ok (nz (N.land b 4)).
(* copyright(): bit set => Copyright::Undefined, clear => Protected.  [true = Protected]
   This mirrors the code; the standard defines the opposite polarity (known finding F5). *)
Definition ppc_copyright (buf : list N) : res bool :=
  do b <- idx buf 0 228; Ok (negb (nz (N.land b 2))).
Definition ppc_original_or_copy (buf : list N) : res bool :=           (* true = Original *)
  do b <- idx buf 0 229; Ok (nz (N.land b 1)).

(* fn header_slice(&self, from, to) -> Result<&[u8], PesError> *)
Definition ppc_header_slice (buf : list N) (from to : nat) : res (rresult (list N) pes_err) :=
  do hdl <- ppc_pes_header_data_len buf;
  if Nat.ltb (hdl + PPC_FIXED_HEADER_SIZE) to then
    Ok (RErr (PesNotEnoughData to (hdl + PPC_FIXED_HEADER_SIZE)))
  else if Nat.ltb (length buf) to then Ok (RErr (PesNotEnoughData to (length buf)))
  else do s <- slice buf from to 230; Ok (ROk s).

Inductive pts_dts :=
| PtsOnly (pts : rresult N ts_err)
| PtsBoth (pts dts : rresult N ts_err).

Definition ppc_pts_dts (buf : list N) : res (rresult pts_dts pes_err) :=
  do f <- ppc_pts_dts_flags buf;
  if f =? 0 then Ok (RErr PesFieldNotPresent)
  else if f =? 1 then Ok (RErr PesPtsDtsFlagsInvalid)
  else if f =? 2 then
    do e <- ppc_pts_dts_end buf;
    do r <- ppc_header_slice buf PPC_FIXED_HEADER_SIZE e;
    match r with
    | ROk s => do t <- ts_from_bytes s; Ok (ROk (PtsOnly t))
    | RErr er => Ok (RErr er)
    end
  else if f =? 3 then
    do e <- ppc_pts_dts_end buf;
    do r <- ppc_header_slice buf PPC_FIXED_HEADER_SIZE e;
    match r with
    | ROk s =>
        do s1 <- slice_to s TIMESTAMP_SIZE 231;
        do s2 <- slice_from s TIMESTAMP_SIZE 232;
        do p <- ts_from_bytes s1; do d <- ts_from_bytes s2;
        Ok (ROk (PtsBoth p d))
    | RErr er => Ok (RErr er)
    end
  else Panic 233.

Definition ppc_escr (buf : list N) : res (rresult clockref pes_err) :=
  do f <- ppc_escr_flag buf;
  if f then
    do e <- ppc_pts_dts_end buf;
    do r <- ppc_header_slice buf e (e + 6);
    match r with
    | ROk s =>
        do s0 <- idx s 0 234; do s1 <- idx s 1 235; do s2 <- idx s 2 236;
        do s3 <- idx s 3 237; do s4 <- idx s 4 238; do s5 <- idx s 5 239;
        let base :=
          N.lor (N.lor (N.lor (N.lor (N.lor (N.lor
            (N.shiftl (N.land s0 56) 27)
            (N.shiftl (N.land s0 3) 28))
            (N.shiftl s1 20))
            (N.shiftl (N.land s2 248) 12))
            (N.shiftl (N.land s2 3) 13))
            (N.shiftl s3 5))
            (N.shiftr (N.land s4 248) 3) in
        let ext := N.lor (N.shiftl (N.land s4 3) 7) (N.shiftr (N.land s5 254) 1) in
        do c <- clockref_from_parts base ext; Ok (ROk c)
    | RErr er => Ok (RErr er)
    end
  else Ok (RErr PesFieldNotPresent).

(* EsRate::new *)
Definition es_rate_new (v : N) : res N := do _ <- assert (v <? 4194304) 240; Ok v.

Definition ppc_es_rate (buf : list N) : res (rresult N pes_err) :=
  do f <- ppc_esrate_flag buf;
  if f then
    do e <- ppc_escr_end buf;
    do r <- ppc_header_slice buf e (e + 3);
    match r with
    | ROk s =>
        do s0 <- idx s 0 241; do s1 <- idx s 1 242; do s2 <- idx s 2 243;
        do v <- es_rate_new (N.lor (N.lor (N.shiftl (N.land s0 127) 15) (N.shiftl s1 7))
                                   (N.shiftr (N.land s2 254) 1));
        Ok (ROk v)
    | RErr er => Ok (RErr er)
    end
  else Ok (RErr PesFieldNotPresent).

Inductive trick_mode :=
| FastForward (field_id : N) (intra_slice_refresh : bool) (frequency_truncation : N)
| SlowMotion (rep_cntrl : N)
| FreezeFrame (field_id reserved : N)
| FastReverse (field_id : N) (intra_slice_refresh : bool) (frequency_truncation : N)
| SlowReverse (rep_cntrl : N)
| TrickReserved (reserved : N).

(* FrequencyTruncationCoefficientSelection::from_id *)
Definition freq_trunc_from_id (id : N) : res N :=
  if id <? 4 then Ok id else Panic 244.

(* dsm_trick_mode(); rep_cntrl = trick_mode_data [after fix F3] *)
Definition ppc_dsm_trick_mode (buf : list N) : res (rresult trick_mode pes_err) :=
  do f <- ppc_dsm_trick_mode_flag buf;
  if f then
    do e <- ppc_es_rate_end buf;
    do r <- ppc_header_slice buf e (e + 1);
    match r with
    | ROk s =>
        do s0 <- idx s 0 245;
        let control := N.shiftr s0 5 in
        let data := N.land s0 31 in
        if control =? 0 then
          do ft <- freq_trunc_from_id (N.land data 3);
          Ok (ROk (FastForward (N.shiftr data 3) (nz (N.land data 4)) ft))
        else if control =? 1 then Ok (ROk (SlowMotion data))
        else if control =? 2 then Ok (ROk (FreezeFrame (N.shiftr data 3) (N.land data 7)))
        else if control =? 3 then
          do ft <- freq_trunc_from_id (N.land data 3);
          Ok (ROk (FastReverse (N.shiftr data 3) (nz (N.land data 4)) ft))
        else if control =? 4 then Ok (ROk (SlowReverse data))
        else Ok (ROk (TrickReserved control))
    | RErr er => Ok (RErr er)
    end
  else Ok (RErr PesFieldNotPresent).

Definition ppc_additional_copy_info (buf : list N) : res (rresult N pes_err) :=
  do f <- ppc_additional_copy_info_flag buf;
  if f then
    do e <- ppc_dsm_trick_mode_end buf;
    do r <- ppc_header_slice buf e (e + 1);
    match r with
    | ROk s =>
        do s0 <- idx s 0 246;
        if N.land s0 128 =? 0 then Ok (RErr PesMarkerBitNotSet) else Ok (ROk (N.land s0 127))
    | RErr er => Ok (RErr er)
    end
  else Ok (RErr PesFieldNotPresent).

Definition ppc_previous_pes_packet_crc (buf : list N) : res (rresult N pes_err) :=
  do f <- ppc_pes_crc_flag buf;
  if f then
    do e <- ppc_additional_copy_info_end buf;
    do r <- ppc_header_slice buf e (e + 2);
    match r with
    | ROk s => do s0 <- idx s 0 247; do s1 <- idx s 1 248; Ok (ROk (N.lor (N.shiftl s0 8) s1))
    | RErr er => Ok (RErr er)
    end
  else Ok (RErr PesFieldNotPresent).

(* pes_extension(): the remaining header bytes (opaque) *)
Definition ppc_pes_extension (buf : list N) : res (rresult (list N) pes_err) :=
  do f <- ppc_pes_extension_flag buf;
  if f then
    do e <- ppc_pes_crc_end buf; do hdl <- ppc_pes_header_data_len buf;
    ppc_header_slice buf e (hdl + PPC_FIXED_HEADER_SIZE)
  else Ok (RErr PesFieldNotPresent).

(* payload(): (offset within the contents buffer, bytes) *)
Definition ppc_payload (buf : list N) : res (nat * list N) :=
  do hdl <- ppc_pes_header_data_len buf;
  do s <- slice_from buf (PPC_FIXED_HEADER_SIZE + hdl) 249;
  Ok ((PPC_FIXED_HEADER_SIZE + hdl)%nat, s).

(* PesHeader::contents() *)
Inductive pes_contents :=
| PesParsed (c : option (list N))
| PesPayload (d : list N).

Definition pes_contents_of (h : list N) : res pes_contents :=
  do rest <- slice_from h PES_FIXED_HEADER_SIZE 250;
  do sid <- pes_stream_id h;
  if sid_is_parsed sid then do c <- ppc_from_bytes rest; Ok (PesParsed c)
  else Ok (PesPayload rest).
