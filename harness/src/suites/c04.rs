//! C04: CRC-32/MPEG-2 and the CRC gate in front of the PAT / PMT processors.
use crate::mux::*;
use crate::suites::streams::*;
use crate::util::*;

pub fn gen(tier: &str, seed: u64, emit: &mut dyn FnMut(String)) {
    let mut rng = Rng::new(seed ^ 0xC04);
    let big = tier == "thorough";
    // (a) checksum: every one- and two-byte string (every table index), random strings, code words
    emit("CRC x".to_string());
    for a in 0..=255u8 { emit(format!("CRC {}", hex(&[a]))); }
    for a in 0..=255u8 { for b in 0..=255u8 { emit(format!("CRC {}", hex(&[a, b]))); } }
    for _ in 0..(if big { 60000 } else { 3000 }) {
        let n = rng.below(if big { 4097 } else { 1025 }) as usize;
        let mut d = rng.bytes(n);
        emit(format!("CRC {}", hex(&d)));
        let c = crc32_mpeg(&d); d.extend_from_slice(&c.to_be_bytes());
        emit(format!("CRC {}", hex(&d)));
    }
    // (b) gate: a table installs handlers; a damaged table with a *different* version follows; probes after
    let nbase = if big { 160 } else { 40 };
    for i in 0..nbase {
        let multi = i % 3 == 2;
        let npids = if multi { rng.range(40, 60) as usize } else { rng.range(1, 4) as usize };
        let pids = pick_pids(&mut rng, npids + 3);
        let (pmt_pid, new_pid) = (pids[0], pids[1]);
        let streams: Vec<(u8, u16, Vec<u8>)> = pids[3..].iter().map(|p| (0x1b, *p, vec![])).collect();
        let pat0 = section(0, 1, 3, true, &pat_body(&[(7, pmt_pid)], &mut rng));
        let pmt0 = section(2, 7, 5, true, &pmt_body(pids[3], &[], &streams, &mut rng));
        // the damaged transmissions: next version of the PAT (moves the PMT to new_pid) / of the PMT (adds a stream)
        let pat1 = section(0, 1, 4, true, &pat_body(&[(7, new_pid), (8, pids[2])], &mut rng));
        let mut s2 = streams.clone(); s2.push((0x0f, pids[2], vec![]));
        let pmt1 = section(2, 7, 6, true, &pmt_body(pids[3], &[], &s2, &mut rng));
        for (which, sect) in [(0u8, &pat1), (1u8, &pmt1)] {
            let nbits = sect.len() * 8;
            let mut damages: Vec<Vec<usize>> = vec![];
            if sect.len() <= 80 || big { for b in 0..nbits { damages.push(vec![b]); } } else { for _ in 0..120 { damages.push(vec![rng.below(nbits as u64) as usize]); } }
            for _ in 0..(if big { 300 } else { 40 }) { let a = rng.below(nbits as u64) as usize; let mut b = rng.below(nbits as u64) as usize; if b == a { b = (a + 1) % nbits; } damages.push(vec![a, b]); }
            for _ in 0..(if big { 300 } else { 40 }) { // bursts of 2..=32 bits
                let l = rng.range(2, 32) as usize; let st = rng.below((nbits - l) as u64) as usize;
                let mut d = vec![st, st + l - 1]; for k in 1..l - 1 { if rng.chance(1, 2) { d.push(st + k); } } damages.push(d);
            }
            for _ in 0..(if big { 100 } else { 15 }) { let k = rng.range(1, 6); damages.push((0..k * 8).map(|_| rng.below(nbits as u64) as usize).collect()); }
            damages.push(vec![]); // and the intact one, for contrast
            for dmg in damages {
                let mut bad = sect.clone();
                for b in dmg.iter() { bad[b / 8] ^= 0x80 >> (b % 8); }
                let bad = bad;
                let mut m = Mux::new();
                m.psi(0, &pat0, 0, 0, &mut rng);
                m.psi(pmt_pid, &pmt0, 0, if multi { 1 } else { 0 }, &mut rng);
                let pid = if which == 0 { 0 } else { pmt_pid };
                m.psi(pid, &bad, 0, if multi { rng.below(2) } else { 0 }, &mut rng);
                // probes: every PID of interest, twice
                for p in [pmt_pid, new_pid, pids[2], pids[3], *pids.last().unwrap()] { for _ in 0..2 {
                    let pl = rng.bytes(184); let cc = rng.below(16) as u8; m.pkts.push(ts_packet(p, false, cc, false, 0, None, &pl)); } }
                emit(dmx_case(0, "", &[m.bytes()]));
            }
        }
        // (f) a long run of damaged sections (each with another version_number, so that each reaches the CRC layer), then probes:
        // the 2nd, the 21st, the 33rd ... damaged section is as unwelcome as the first
        if i % 4 == 0 { for (which, sect) in [(0u8, &pat1), (1u8, &pmt1)] {
            let pid = if which == 0 { 0 } else { pmt_pid };
            let mut m = Mux::new();
            m.psi(0, &pat0, 0, 0, &mut rng);
            m.psi(pmt_pid, &pmt0, 0, if multi { 1 } else { 0 }, &mut rng);
            let run = *rng.pick(&[2usize, 3, 8, 16, 21, 22, 33, 40, 70, 129, 255, 256, 257, 300]);
            for k in 0..run {
                let mut bad = sect.clone();
                bad[5] = (bad[5] & 0xc1) | ((((k * 3 + 7) & 31) as u8) << 1);
                let body_end = bad.len() - 4; let j = 8 + rng.below((body_end - 8) as u64) as usize; bad[j] ^= 1 << rng.below(8);
                if crc32_mpeg(&bad) == 0 { bad[j] ^= 0xff; }
                m.psi(pid, &bad, 0, 0, &mut rng);
            }
            for p in [pmt_pid, new_pid, pids[2], pids[3], *pids.last().unwrap()] { let pl = rng.bytes(184); let cc = rng.below(16) as u8; m.pkts.push(ts_packet(p, false, cc, false, 0, None, &pl)); }
            emit(dmx_case(0, "", &[m.bytes()]));
        } }
        // (e) three steps: the applied table T; something that makes the de-duplication layer forget T's version (a damaged
        // section with another version, or a start packet whose pointer_field is out of range); then T again with only body
        // bytes damaged (header and CRC_32 field intact)
        for (which, sect) in [(0u8, &pat0), (1u8, &pmt0)] {
            for _ in 0..(if big { 30 } else { 8 }) {
                let pid = if which == 0 { 0 } else { pmt_pid };
                let mut bad = sect.clone();
                let body_end = bad.len() - 4;
                for _ in 0..rng.range(1, 3) { let k = 8 + rng.below((body_end - 8) as u64) as usize; bad[k] ^= 1 << rng.below(8); }
                if crc32_mpeg(&bad) == 0 { continue; }
                let mut m = Mux::new();
                m.psi(0, &pat0, 0, 0, &mut rng);
                m.psi(pmt_pid, &pmt0, 0, if multi { 1 } else { 0 }, &mut rng);
                if rng.chance(1, 2) { let mut x = if which == 0 { pat1.clone() } else { pmt1.clone() }; let k = 8 + rng.below((x.len() - 12) as u64) as usize; x[k] ^= 0x10; m.psi(pid, &x, 0, 0, &mut rng); }
                else { let mut pl = vec![200u8]; pl.extend(rng.bytes(183)); m.data_packet(pid, true, &pl, &mut rng); }
                m.psi(pid, &bad, 0, if multi { rng.below(2) } else { 0 }, &mut rng);
                for p in [pmt_pid, new_pid, pids[2], pids[3], *pids.last().unwrap()] { let pl = rng.bytes(184); let cc = rng.below(16) as u8; m.pkts.push(ts_packet(p, false, cc, false, 0, None, &pl)); }
                emit(dmx_case(0, "", &[m.bytes()]));
            }
        }
        // (g) a next-version table with a verifying code word INSIDE it: section_length counts k trailing bytes (0xff / 0x00 /
        // random stuffing, or a second copy of the CRC) behind a CRC_32 that is right for the bytes before them; or the
        // checksum is right for the section without its first byte(s).  The section as delimited by section_length does not verify.
        for (which, sect) in [(0u8, &pat1), (1u8, &pmt1)] {
            let n = sect.len();
            for k in [1usize, 2, 3, 4, 5, 8, 16] { for fillk in 0..4u8 {
                if n + k > 1024 { continue; }
                let mut pre = sect[..n - 4].to_vec();
                let len = n - 3 + k; pre[1] = (pre[1] & 0xf0) | (len >> 8) as u8; pre[2] = len as u8;
                let c = crc32_mpeg(&pre).to_be_bytes();
                let mut bad = pre.clone(); bad.extend_from_slice(&c);
                for j in 0..k { bad.push(match fillk { 0 => 0xff, 1 => 0x00, 2 => rng.byte(), _ => c[j % 4] }); }
                if crc32_mpeg(&bad) == 0 { continue; }
                let mut m = Mux::new();
                m.psi(0, &pat0, 0, 0, &mut rng);
                m.psi(pmt_pid, &pmt0, 0, if multi { 1 } else { 0 }, &mut rng);
                let pid = if which == 0 { 0 } else { pmt_pid };
                m.psi(pid, &bad, 0, if multi { rng.below(2) } else { 0 }, &mut rng);
                for p in [pmt_pid, new_pid, pids[2], pids[3], *pids.last().unwrap()] { let pl = rng.bytes(184); let cc = rng.below(16) as u8; m.pkts.push(ts_packet(p, false, cc, false, 0, None, &pl)); }
                emit(dmx_case(0, "", &[m.bytes()]));
            } }
            for skip in [1usize, 3, 8] {
                let mut bad = sect.clone();
                let c = crc32_mpeg(&bad[skip..n - 4]).to_be_bytes(); bad[n - 4..].copy_from_slice(&c);
                if crc32_mpeg(&bad) == 0 { continue; }
                let mut m = Mux::new();
                m.psi(0, &pat0, 0, 0, &mut rng);
                m.psi(pmt_pid, &pmt0, 0, if multi { 1 } else { 0 }, &mut rng);
                let pid = if which == 0 { 0 } else { pmt_pid };
                m.psi(pid, &bad, 0, if multi { rng.below(2) } else { 0 }, &mut rng);
                for p in [pmt_pid, new_pid, pids[2], pids[3], *pids.last().unwrap()] { let pl = rng.bytes(184); let cc = rng.below(16) as u8; m.pkts.push(ts_packet(p, false, cc, false, 0, None, &pl)); }
                emit(dmx_case(0, "", &[m.bytes()]));
            }
        }
        // (d) a next-version table whose CRC_32 field holds a value that "means something": zero, all ones, the first or last four
        // bytes of the section, the CRC of the section without / with its own first byte — none of them is its checksum
        for (which, sect) in [(0u8, &pat1), (1u8, &pmt1)] {
            let n = sect.len();
            let body = &sect[..n - 4];
            let cands: Vec<[u8; 4]> = vec![[0, 0, 0, 0], [0xff; 4], [sect[0], sect[1], sect[2], sect[3]], [sect[n - 8], sect[n - 7], sect[n - 6], sect[n - 5]],
                                          crc32_mpeg(&body[1..]).to_be_bytes(), (!crc32_mpeg(body)).to_be_bytes(), crc32_mpeg(body).to_le_bytes()];
            for c in cands {
                let mut bad = sect.clone(); bad[n - 4..].copy_from_slice(&c);
                if crc32_mpeg(&bad) == 0 { continue; }
                let mut m = Mux::new();
                m.psi(0, &pat0, 0, 0, &mut rng);
                m.psi(pmt_pid, &pmt0, 0, if multi { 1 } else { 0 }, &mut rng);
                let pid = if which == 0 { 0 } else { pmt_pid };
                m.psi(pid, &bad, 0, if multi { rng.below(2) } else { 0 }, &mut rng);
                for p in [pmt_pid, new_pid, pids[2], pids[3], *pids.last().unwrap()] { let pl = rng.bytes(184); let cc = rng.below(16) as u8; m.pkts.push(ts_packet(p, false, cc, false, 0, None, &pl)); }
                emit(dmx_case(0, "", &[m.bytes()]));
            }
        }
        // (c) the table that WAS applied is re-transmitted damaged: the version bits changed (so that it is not taken
        // for a repetition) and body bytes changed, while the CRC_32 field still holds the value of the accepted copy
        for (which, sect) in [(0u8, &pat0), (1u8, &pmt0)] {
            for _ in 0..(if big { 40 } else { 12 }) {
                let mut bad = sect.clone();
                bad[5] ^= (1 + rng.below(31) as u8) << 1;                                    // another version_number
                let body_end = bad.len() - 4;
                for _ in 0..rng.below(4) { let k = 8 + rng.below((body_end - 8) as u64) as usize; bad[k] ^= 1 << rng.below(8); }
                if crc32_mpeg(&bad) == 0 { continue; }
                let mut m = Mux::new();
                m.psi(0, &pat0, 0, 0, &mut rng);
                m.psi(pmt_pid, &pmt0, 0, if multi { 1 } else { 0 }, &mut rng);
                for _ in 0..rng.below(3) { let p = *rng.pick(&pids); let pl = rng.bytes(184); let cc = rng.below(16) as u8; m.pkts.push(ts_packet(p, false, cc, false, 0, None, &pl)); }
                let pid = if which == 0 { 0 } else { pmt_pid };
                m.psi(pid, &bad, 0, if multi { rng.below(2) } else { 0 }, &mut rng);
                for p in [pmt_pid, new_pid, pids[2], pids[3], *pids.last().unwrap()] { for _ in 0..2 {
                    let pl = rng.bytes(184); let cc = rng.below(16) as u8; m.pkts.push(ts_packet(p, false, cc, false, 0, None, &pl)); } }
                emit(dmx_case(0, "", &[m.bytes()]));
            }
        }
    }
}
