(* Props/C11.v — C11: a damaged table transmission never blocks a later intact one. *)
From TS Require Import Base.Res Model.Timestamp Model.Packet Model.PesFilter Model.Crc Model.Psi Model.Demux Model.DemuxObs
  Proofs.SectionProofs Proofs.TableProofs Proofs.Witnesses.
Open Scope N_scope.

(* from EVERY state of the chain (whatever a damaged transmission left behind: any buffer contents, Buffering
   or Complete, any ignore flags) the start of a section whose version differs from the remembered one gets
   through to the buffer layer, which starts afresh (the buffer is cleared or bypassed) *)
Theorem C11_start_passes : forall fz (IS CX EV : Type) inner (c : chain IS) (cx : CX) h data off v,
  accepted_start h data -> tsh_version (skipn 3 data) = Ok v -> dd_last_version c <> Some v ->
  sp_start (table_cfg fz) IS CX EV inner c cx h data off =
  buf_start (table_cfg fz) IS CX EV inner (set_dedup IS (set_sp_ignore IS c false) (Some v) false) cx h (skipn 3 data) data off.
Proof. exact c11_start_passes. Qed.
Print Assumptions C11_start_passes.

(* an intact section complete in its start packet then reaches the table processor with exactly its bytes *)
Theorem C11_single_applied : forall fz (IS CX EV : Type) inner (c : chain IS) (cx : CX) S data off v, fz = false ->
  accepted_start (hdr_of S) data -> (length S = ch_section_length (hdr_of S) + 3)%nat -> (length S <= length data)%nat ->
  firstn (length S) data = S -> (12 <= length S)%nat -> m_sum32 S = 0 ->
  tsh_version (skipn 3 data) = Ok v -> dd_last_version c <> Some v ->
  sp_start (table_cfg fz) IS CX EV inner c cx (hdr_of S) data off =
  (do r <- inner (in_state c) cx (hdr_of S) (skipn 3 data) S (Some off);
   Ok (set_inner IS (set_buf IS (set_dedup IS (set_sp_ignore IS c false) (Some v) false) (bf_buf c) Complete) (fst (fst r)),
       snd (fst r), snd r)).
Proof. exact c11_single_applied. Qed.
Print Assumptions C11_single_applied.

(* KNOWN FINDING F2 (refutation witness): the remembered version is recorded at section START, before
   completeness and CRC are known.  A PAT with one flipped bit (version 0) followed by the intact PAT
   (version 0): the intact copy is dropped, the PMT PID 0x100 is then offered as an unannounced PID. *)
Theorem C11_F2_refuted : run_dmx 0 [] [wit_F2] = Some wit_F2_trace.
Proof. vm_compute. reflexivity. Qed.
Print Assumptions C11_F2_refuted.
