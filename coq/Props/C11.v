(* Props/C11.v — C11: a damaged table transmission never blocks a later intact one. *)
From TS Require Import Base.Res Model.Timestamp Model.Packet Model.PesFilter Model.Crc Model.Psi Model.Demux Model.DemuxObs
  Spec.CrcSpec Proofs.SectionProofs Proofs.TableProofs Proofs.Witnesses.
Open Scope N_scope.

(* from EVERY state of the chain (whatever a damaged transmission left behind: any buffer contents, Buffering
   or Complete, any ignore flags) the start of a section whose version differs from the remembered one gets
   through to the buffer layer, which starts afresh (the buffer is cleared or bypassed) *)
Theorem C11_start_passes : forall fz (IS CX EV : Type) inner (c : chain IS) (cx : CX) h data off v,
  accepted_start h data -> tsh_version (skipn 3 data) = Ok v -> dd_last_version c <> Some v ->
  sp_start (table_cfg fz) IS CX EV inner c cx h data off =
  buf_start (table_cfg fz) IS CX EV inner (set_dedup IS (set_sp_ignore IS c false) (Some v) false) cx h (skipn 3 data) data off.
Proof. exact c11_start_passes. Qed.
Print Assumptions C11_start_passes.

(* an intact section complete in its start packet then reaches the table processor with exactly its bytes *)
Theorem C11_single_applied : forall fz (IS CX EV : Type) inner (c : chain IS) (cx : CX) S data off v, fz = false ->
  accepted_start (hdr_of S) data -> (length S = ch_section_length (hdr_of S) + 3)%nat -> (length S <= length data)%nat ->
  firstn (length S) data = S -> (12 <= length S)%nat -> m_sum32 S = 0 ->
  tsh_version (skipn 3 data) = Ok v -> dd_last_version c <> Some v ->
  sp_start (table_cfg fz) IS CX EV inner c cx (hdr_of S) data off =
  (do r <- inner (in_state c) cx (hdr_of S) (skipn 3 data) S (Some off);
   Ok (set_inner IS (set_buf IS (set_dedup IS (set_sp_ignore IS c false) (Some v) false) (bf_buf c) Complete) (fst (fst r)),
       snd (fst r), snd r)).
Proof. exact c11_single_applied. Qed.
Print Assumptions C11_single_applied.

(* the same for a section spanning packets: from EVERY state of the chain, a transmission of S whose version
   differs from the remembered one — start packet carrying any 8..|S|-1 first bytes, then ANY tiling of the
   rest by non-empty continuation payloads (stuffing or the next section's bytes may follow in the last) —
   delivers nothing at the start and exactly [applied] at the end ... *)
Theorem C11_multi_applied : forall fz (IS CX EV : Type) inner (c : chain IS) (cx : CX) S data off v cs extra,
  accepted_start (hdr_of S) data -> (length S = ch_section_length (hdr_of S) + 3)%nat ->
  (length data < length S)%nat -> data = firstn (length data) S ->
  tsh_version (skipn 3 data) = Ok v -> dd_last_version c <> Some v ->
  Forall (fun x => x <> nil) cs -> concat cs = skipn (length data) S ++ extra ->
  (forall pre last, cs = pre ++ (last :: nil) -> (length extra < length last)%nat) -> cs <> nil ->
  let c1 := set_buf IS (set_dedup IS (set_sp_ignore IS c false) (Some v) false) data (Buffering (length S - length data)) in
  sp_start (table_cfg fz) IS CX EV inner c cx (hdr_of S) data off = Ok (c1, cx, nil) /\
  run_continues fz IS CX EV inner c1 cx cs = applied fz IS CX EV inner c1 cx S.
Proof. exact c11_multi_applied. Qed.
Print Assumptions C11_multi_applied.

(* ... where [applied], for an intact S, is one call of the table processor with exactly the bytes of S *)
Theorem C11_applied_intact : forall fz (IS CX EV : Type) inner (c : chain IS) (cx : CX) S,
  fz = false -> (12 <= length S)%nat -> m_sum32 S = 0 ->
  applied fz IS CX EV inner c cx S =
  (do r <- inner (in_state c) cx (hdr_of S) (skipn 3 S) S None;
   Ok (set_inner IS (set_buf IS c S Complete) (fst (fst r)), snd (fst r), snd r)).
Proof. exact applied_crc_ok. Qed.
Print Assumptions C11_applied_intact.

Definition wit_multi_body : list N :=
  (0 :: 176 :: 29 :: 0 :: 1 :: 199 :: 0 :: 0 :: 0 :: 1 :: 225 :: 0 :: 0 :: 2 :: 225 :: 1 :: 0 :: 3 :: 225 :: 2 :: 0 :: 4 :: 225 :: 3 :: 0 :: 5 :: 225 :: 4 :: nil).
Example C11_multi_nonvacuous :
  let S := wit_multi_body ++ be32 (m_sum32 wit_multi_body) in
  (12 <= length S)%nat /\ m_sum32 S = 0 /\ (length S = ch_section_length (hdr_of S) + 3)%nat /\
  accepted_start (hdr_of S) (firstn 20 S) /\ tsh_version (skipn 3 (firstn 20 S)) = Ok 3.
Proof. cbv zeta. repeat split; try (vm_compute; reflexivity); apply PeanoNat.Nat.leb_le; vm_compute; reflexivity. Qed.

(* KNOWN FINDING F2 (refutation witness): the remembered version is recorded at section START, before
   completeness and CRC are known.  A PAT with one flipped bit (version 0) followed by the intact PAT
   (version 0): the intact copy is dropped, the PMT PID 0x100 is then offered as an unannounced PID. *)
Theorem C11_F2_refuted : run_dmx 0 [] [wit_F2] = Some wit_F2_trace.
Proof. vm_compute. reflexivity. Qed.
Print Assumptions C11_F2_refuted.
