//! C19 measurements: a counting global allocator and an allocation-free application around Demultiplex
//! (counters only, no logging), so that whatever is allocated during a push is allocated by the library.
use mpeg2ts_reader::demultiplex::{self, DemuxContext, FilterChangeset, FilterRequest, PacketFilter};
use mpeg2ts_reader::packet::Packet;
use mpeg2ts_reader::pes;
use std::alloc::{GlobalAlloc, Layout, System};
use std::cell::Cell;
use std::sync::atomic::{AtomicI64, AtomicU64, Ordering};

pub struct Counting;
pub static ALLOCS: AtomicU64 = AtomicU64::new(0);
pub static LIVE: AtomicI64 = AtomicI64::new(0);
unsafe impl GlobalAlloc for Counting {
    unsafe fn alloc(&self, l: Layout) -> *mut u8 { ALLOCS.fetch_add(1, Ordering::Relaxed); LIVE.fetch_add(l.size() as i64, Ordering::Relaxed); System.alloc(l) }
    unsafe fn dealloc(&self, p: *mut u8, l: Layout) { LIVE.fetch_sub(l.size() as i64, Ordering::Relaxed); System.dealloc(p, l) }
    unsafe fn realloc(&self, p: *mut u8, l: Layout, n: usize) -> *mut u8 { ALLOCS.fetch_add(1, Ordering::Relaxed); LIVE.fetch_add(n as i64 - l.size() as i64, Ordering::Relaxed); System.realloc(p, l, n) }
}

thread_local! {
    static RANGE: Cell<(usize, usize)> = Cell::new((0, 0));
    static SLICES: Cell<u64> = Cell::new(0);
    static OUTSIDE: Cell<u64> = Cell::new(0);
    static REQUESTS: Cell<u64> = Cell::new(0);
    static SUM: Cell<u64> = Cell::new(0);
}
fn note_slice(d: &[u8]) {
    SLICES.with(|c| c.set(c.get() + 1));
    let (p, n) = RANGE.with(|r| r.get());
    let a = d.as_ptr() as usize;
    if !(a >= p && a + d.len() <= p + n) { OUTSIDE.with(|c| c.set(c.get() + 1)); }
    let mut s = 0u64; for b in d { s = s.wrapping_mul(31).wrapping_add(*b as u64); }
    SUM.with(|c| c.set(c.get() ^ s));
}
pub struct QuietEs;
impl pes::ElementaryStreamConsumer<QuietCtx> for QuietEs {
    fn start_stream(&mut self, _c: &mut QuietCtx) {}
    fn begin_packet(&mut self, _c: &mut QuietCtx, h: pes::PesHeader<'_>) {
        match h.contents() {
            pes::PesContents::Payload(d) => note_slice(d),
            pes::PesContents::Parsed(Some(p)) => note_slice(p.payload()),
            pes::PesContents::Parsed(None) => {}
        }
    }
    fn continue_packet(&mut self, _c: &mut QuietCtx, d: &[u8]) { note_slice(d); }
    fn end_packet(&mut self, _c: &mut QuietCtx) {}
    fn continuity_error(&mut self, _c: &mut QuietCtx) {}
}
pub struct QuietRec;
impl PacketFilter for QuietRec { type Ctx = QuietCtx; fn consume(&mut self, _c: &mut QuietCtx, pk: &Packet<'_>) { SUM.with(|c| c.set(c.get() ^ pk.buffer()[3] as u64)); } }
mpeg2ts_reader::packet_filter_switch! {
    QSw<QuietCtx> {
        Pat: demultiplex::PatPacketFilter<QuietCtx>,
        Pmt: demultiplex::PmtPacketFilter<QuietCtx>,
        Pes: pes::PesPacketFilter<QuietCtx, QuietEs>,
        Rec: QuietRec,
    }
}
pub struct QuietCtx { changeset: FilterChangeset<QSw> }
impl DemuxContext for QuietCtx {
    type F = QSw;
    fn filter_changeset(&mut self) -> &mut FilterChangeset<QSw> { &mut self.changeset }
    fn construct(&mut self, req: FilterRequest<'_, '_>) -> QSw {
        REQUESTS.with(|c| c.set(c.get() + 1));
        match req {
            FilterRequest::ByPid(p) => if u16::from(p) == 0 { QSw::Pat(demultiplex::PatPacketFilter::default()) } else { QSw::Rec(QuietRec) },
            FilterRequest::ByStream { stream_type, .. } => { let st = u8::from(stream_type); if st < 128 && st != 5 { QSw::Pes(pes::PesPacketFilter::new(QuietEs)) } else { QSw::Rec(QuietRec) } }
            FilterRequest::Pmt { pid, program_number } => QSw::Pmt(demultiplex::PmtPacketFilter::new(pid, program_number)),
            FilterRequest::Nit { .. } => QSw::Rec(QuietRec),
        }
    }
}

/// [allocations, slices outside the pushed buffer, payload slices, requests] during the steady part
pub fn run_alloc(warm: &[u8], steady: &[u8]) -> Vec<u64> {
    let mut all = warm.to_vec(); all.extend_from_slice(steady);
    RANGE.with(|r| r.set((all.as_ptr() as usize, all.len())));
    let mut ctx = QuietCtx { changeset: FilterChangeset::default() };
    let mut d = demultiplex::Demultiplex::new(&mut ctx);
    d.push(&mut ctx, &all[..warm.len()]);
    SLICES.with(|c| c.set(0)); OUTSIDE.with(|c| c.set(0)); REQUESTS.with(|c| c.set(0));
    let a0 = ALLOCS.load(Ordering::Relaxed);
    // the steady part in several pushes, as an application would feed it
    let st = &all[warm.len()..];
    let step = 188 * 7;
    let mut pos = 0;
    while pos < st.len() { let n = step.min(st.len() - pos); d.push(&mut ctx, &st[pos..pos + n]); pos += n; }
    let a1 = ALLOCS.load(Ordering::Relaxed);
    let r = vec![a1 - a0, OUTSIDE.with(|c| c.get()), SLICES.with(|c| c.get()), REQUESTS.with(|c| c.get())];
    drop(d);
    r
}

/// hostile input of any length: live heap bytes after the whole stream vs after its first quarter
pub fn run_mem(b: &[u8]) -> Vec<u64> {
    let mut ctx = QuietCtx { changeset: FilterChangeset::default() };
    RANGE.with(|r| r.set((b.as_ptr() as usize, b.len())));
    let base = LIVE.load(Ordering::Relaxed);
    let mut d = demultiplex::Demultiplex::new(&mut ctx);
    let step = 188 * 64;
    let mut pos = 0; let mut at_quarter = None; let mut peak = 0i64;
    while pos < b.len() {
        let n = step.min(b.len() - pos); d.push(&mut ctx, &b[pos..pos + n]); pos += n;
        let live = LIVE.load(Ordering::Relaxed) - base;
        if live > peak { peak = live; }
        if at_quarter.is_none() && pos * 4 >= b.len() { at_quarter = Some(live); }
    }
    let end = LIVE.load(Ordering::Relaxed) - base;
    let q = at_quarter.unwrap_or(end);
    // retained memory must not keep growing with the input: the last three quarters add at most 16 KiB,
    // and the total stays under what 8192 handlers of bounded size can hold
    let ok = end <= q + 16384 && peak < 64 * 1024 * 1024;
    if std::env::var_os("VERIF_MEM_DEBUG").is_some() { eprintln!("MEM packets={} quarter={} end={} peak={}", b.len() / 188, q, end, peak); }
    drop(d);
    vec![ok as u64]
}

// ---- the section re-assembly chain alone (no de-duplication, no CRC layer) under the counting allocator ----
pub struct QuietSecCtx;
pub struct QuietSec;
impl mpeg2ts_reader::psi::WholeSectionSyntaxPayloadParser for QuietSec {
    type Context = QuietSecCtx;
    fn section<'a>(&mut self, _: &mut QuietSecCtx, _h: &mpeg2ts_reader::psi::SectionCommonHeader, _t: &mpeg2ts_reader::psi::TableSyntaxHeader<'a>, data: &'a [u8]) { note_slice(data); }
}
impl mpeg2ts_reader::psi::WholeCompactSyntaxPayloadParser for QuietSec {
    type Context = QuietSecCtx;
    fn section(&mut self, _: &mut QuietSecCtx, _h: &mpeg2ts_reader::psi::SectionCommonHeader, data: &[u8]) { note_slice(data); }
}
/// warm-up packets, then steady packets (the same sections again): [allocations during the steady part, sections delivered in it]
pub fn run_seca(compact: bool, warm: &[Vec<u8>], steady: &[Vec<u8>]) -> Vec<u64> {
    use mpeg2ts_reader::psi;
    let mut ctx = QuietSecCtx;
    RANGE.with(|r| r.set((0, usize::MAX)));
    macro_rules! drive { ($c:expr) => {{ let mut c = $c;
        for p in warm { c.consume(&mut ctx, &Packet::new(p)); }
        SLICES.with(|c| c.set(0));
        let a0 = ALLOCS.load(Ordering::Relaxed);
        OUTSIDE.with(|c| c.set(0));
        let single = warm.len() == 3;                 // three warm-up transmissions of one packet each
        for p in steady { RANGE.with(|r| r.set(if single { (p.as_ptr() as usize, p.len()) } else { (0, usize::MAX) })); c.consume(&mut ctx, &Packet::new(p)); }
        let a1 = ALLOCS.load(Ordering::Relaxed);
        vec![a1 - a0, SLICES.with(|c| c.get()), OUTSIDE.with(|c| c.get())]
    }} }
    if compact { drive!(psi::SectionPacketConsumer::new(psi::CompactSyntaxSectionProcessor::new(psi::BufferCompactSyntaxParser::new(QuietSec)))) }
    else { drive!(psi::SectionPacketConsumer::new(psi::SectionSyntaxSectionProcessor::new(psi::BufferSectionSyntaxParser::new(QuietSec)))) }
}
