//! C03: PSI sections re-assembled exactly across transport packets.
use crate::mux::*;
use crate::util::*;

/// packet on PID 0x40 whose payload is exactly `payload` (1..=184 bytes)
fn pk(m: &mut Mux, pusi: bool, payload: &[u8], rng: &mut Rng) { m.data_packet(0x40, pusi, payload, rng); }

fn mk_section(compact: bool, l: usize, rng: &mut Rng) -> Vec<u8> {
    let mut s = vec![rng.byte(), (if compact { 0x00 } else { 0x80 }) | (rng.byte() & 0x70) | ((l >> 8) as u8 & 0x0f), l as u8];
    let mut body = rng.bytes(l);
    // now and then the section's own bytes look like stuffing (runs of 0xff that fill whole packets), sync bytes or zeros
    match rng.below(8) { 0 => { for b in body.iter_mut() { *b = 0xff; } } 1 => { let at = rng.below(l as u64 + 1) as usize; for b in body.iter_mut().skip(at).take(400) { *b = 0xff; } }
                         2 => { for b in body.iter_mut() { *b = *rng.pick(&[0u8, 0x47, 0xff]); } } _ => {} }
    s.extend(body);
    s
}

pub fn one_case(compact: bool, l: usize, first_mode: u64, ptr_mode: u64, cont_mode: u64, prior: u64, rng: &mut Rng) -> String {
    let hdr = if compact { 3 } else { 8 };
    let s = mk_section(compact, l, rng);
    let mut m = Mux::new(); m.set_cc(0x40, rng.below(16) as u8);
    // ---- prior state of the PID
    let mut pending: Vec<u8> = vec![];          // bytes the previous section still expects (prior = 1)
    match prior {
        1 => { // mid-section: an earlier section started and is unfinished
            let l0 = rng.range(200, 900) as usize; let s0 = mk_section(compact, l0, rng);
            let k = rng.range(hdr as u64, 150) as usize;
            let mut pl = vec![0u8]; pl.extend_from_slice(&s0[..k]); pk(&mut m, true, &pl, rng);
            pending = s0[k..].to_vec();
        }
        2 => { // abandoned: a start that is rejected (over-limit length) leaves the processor ignoring
            let mut bad = mk_section(compact, 100, rng); bad[1] |= 0x0f; bad[2] = 0xff;
            let mut pl = vec![0u8]; pl.extend_from_slice(&bad[..60]); pk(&mut m, true, &pl, rng);
            let c = rng.bytes(50); pk(&mut m, false, &c, rng);
        }
        4 => { // an unfinished spanning section, THEN a section complete in one packet: the abandoned bytes must not survive it
            let l0 = rng.range(200, 900) as usize; let s0 = mk_section(compact, l0, rng);
            let k = rng.range(hdr as u64, 150) as usize;
            let mut pl = vec![0u8]; pl.extend_from_slice(&s0[..k]); pk(&mut m, true, &pl, rng);
            if rng.chance(1, 2) { let n = rng.range(1, 40) as usize; let c = rng.bytes(n); pk(&mut m, false, &c, rng); }
            let l1 = rng.range(5, 100) as usize; let s1 = mk_section(compact, l1, rng);
            let mut pl = vec![0u8]; pl.extend_from_slice(&s1); pk(&mut m, true, &pl, rng);
        }
        3 => { // a complete section went through just before
            let s0 = mk_section(compact, rng.range(5, 100) as usize, rng);
            let mut pl = vec![0u8]; pl.extend_from_slice(&s0); pk(&mut m, true, &pl, rng);
        }
        _ => {}
    }
    let start_index = m.pkts.len();
    // ---- the start packet: pointer_field, T (pointer bytes), first k0 bytes of S
    let ptr = match ptr_mode { 0 => 0usize, 1 => 1, 2 => rng.range(2, 60) as usize, 3 => pending.len().min(150).max(1), 4 => (pending.len() + 1).min(150).max(1), _ => 183 - hdr };
    let ptr = ptr.min(183 - hdr);
    let mut t: Vec<u8> = pending.iter().cloned().take(ptr).collect();
    while t.len() < ptr { t.push(if rng.chance(1, 2) { 0xff } else { rng.byte() }); }
    let room = 183 - ptr;                        // bytes of S that can follow in this packet
    let k0 = match first_mode { 0 => hdr, 1 => hdr + 1, 2 => s.len().saturating_sub(1).max(hdr), 3 => s.len(), 4 => room, _ => rng.range(hdr as u64, room.max(hdr) as u64) as usize };
    let k0 = k0.max(hdr).min(room).min(s.len().max(hdr));
    let mut pl = vec![ptr as u8]; pl.extend_from_slice(&t);
    let take = k0.min(s.len());
    pl.extend_from_slice(&s[..take]);
    if take == s.len() {
        // whole section in the start packet (header bytes beyond a short section are stuffing); trailing stuffing of any length
        while pl.len() < 1 + ptr + k0 { pl.push(0xff); }
        let pad = match rng.below(3) { 0 => 0, 1 => 184 - pl.len(), _ => rng.below((184 - pl.len()) as u64 + 1) as usize };
        pl.extend(std::iter::repeat(0xff).take(pad));
    }
    pk(&mut m, true, &pl, rng);
    // ---- continuations tiling the rest of S
    let mut pos = take;
    while pos < s.len() {
        let remain = s.len() - pos;
        let n = match cont_mode { 0 => 184, 1 => 1, 2 => rng.range(1, 184) as usize, 3 => remain.min(184), _ => (remain.saturating_sub(1)).max(1).min(184) }.min(remain);
        let last = pos + n == s.len();
        if last && cont_mode == 5 && n <= 150 {
            // the last piece travels as the pointer-delimited head of the next start packet
            let s2 = mk_section(compact, 20, rng);
            let mut p2 = vec![n as u8]; p2.extend_from_slice(&s[pos..pos + n]); p2.extend_from_slice(&s2);
            pk(&mut m, true, &p2, rng);
        } else if last {
            let mut c = s[pos..pos + n].to_vec();
            let pad = match rng.below(3) { 0 => 0, 1 => 184 - n, _ => rng.below((184 - n) as u64 + 1) as usize };
            c.extend(std::iter::repeat(0xff).take(pad));
            pk(&mut m, false, &c, rng);
        } else {
            pk(&mut m, false, &s[pos..pos + n], rng);
            if rng.chance(1, 12) { m.af_only(0x40, None, rng); }
        }
        pos += n;
    }
    if rng.chance(1, 3) { let c = rng.bytes(40); pk(&mut m, false, &c, rng); }   // surplus continuation after completion
    let mut line = format!("SEC {}", if compact { 1 } else { 0 });
    for p in m.pkts.iter() { line.push(' '); line.push_str(&hex(p)); }
    line.push_str(&format!(" #{}:{}", start_index, hex(&s)));
    line
}

pub fn gen(tier: &str, seed: u64, emit: &mut dyn FnMut(String)) {
    let mut rng = Rng::new(seed ^ 0xC03);
    let big = tier == "thorough";
    for compact in [false, true] {
        // every section_length 0..=1021 and over-limit ones, with rotating choices of the other dimensions
        let mut ls: Vec<usize> = (0..=1021).collect(); ls.extend([1022, 1023, 1024, 1500, 4095]);
        for &l in ls.iter() {
            let reps = if big { 16 } else { 4 };
            for r in 0..reps {
                let (fm, pm, cm, pr) = if big { (rng.below(6), rng.below(6), rng.below(6), rng.below(5)) } else { ((l as u64 + r) % 6, (l as u64 / 6 + r) % 6, (l as u64 / 36 + r) % 6, (l as u64 + r) % 5) };
                emit(one_case(compact, l, fm, pm, cm, pr, &mut rng));
            }
        }
        // grammar-directed random sequences (starts with every kind of pointer_field and declared length, continuations of any
        // size, payload-less packets, stuffing): no target section, the model of the chain is the oracle
        for _ in 0..(if big { 6000 } else { 600 }) {
            let mut pk = crate::suites::c01::psi_grammar(0x40, &mut rng);
            if rng.chance(1, 2) { let more = crate::suites::c01::psi_grammar(0x40, &mut rng); pk.extend(more); }
            // also through the chains with the de-duplication and / or CRC layers (bit 1 / bit 2)
            let f = if compact { 1 } else { *rng.pick(&[0u64, 0, 2, 4, 6]) };
            let mut line = format!("SEC {}", f);
            for p in pk.iter() { line.push(' '); line.push_str(&hex(p)); }
            emit(line);
        }
        // the full cross product for a few boundary lengths
        for &l in [0usize, 1, 4, 5, 9, 172, 173, 174, 175, 180, 181, 182, 183, 184, 365, 1020, 1021, 1022].iter() {
            for fm in 0..6 { for pm in 0..6 { for cm in 0..6 { for pr in 0..5 { emit(one_case(compact, l, fm, pm, cm, pr, &mut rng)); } } } }
        }
    }
}
