(* Spec/AdaptationSpec.v — ISO/IEC 13818-1 Table 2-6 (adaptation field, after the length byte) read
   sequentially with a byte cursor; field values are uimsbf fields of the window just read.
   Running off the end of the string *is* "not enough data"; a clear flag is "not present". *)
From TS Require Import Base.Res Base.Bits Model.Timestamp Model.Packet Spec.TimestampSpec.
Open Scope N_scope.

(* read n bytes at the cursor *)
Definition rd (b : list N) (pos n : nat) : option (list N) :=
  if Nat.leb (pos + n) (length b) then Some (firstn n (skipn pos b)) else None.

Definition ned {A} : rresult A af_err := RErr AfNotEnoughData.
Definition absent {A} : rresult A af_err := RErr AfFieldNotPresent.

Definition s_clockref (w : list N) : clockref := {| cr_base := s_pcr_base w; cr_ext := s_pcr_ext w |}.

Record s_af_view := {
  v_discontinuity : bool; v_random_access : bool; v_es_priority : N;
  v_pcr : rresult clockref af_err;
  v_opcr : rresult clockref af_err;
  v_splice_countdown : rresult N af_err;
  v_private : rresult (nat * list N) af_err;      (* (offset in the adaptation field, bytes) *)
  v_extension : rresult (list N) af_err }.

(* flags byte: discontinuity 1 | random_access 1 | ES_priority 1 | PCR 1 | OPCR 1 | splicing_point 1 | private_data 1 | extension 1 *)
Definition s_af_parse (b : list N) : s_af_view :=
  let pos := 1%nat in
  (* if (PCR_flag == '1') { program_clock_reference: 33 + 6 + 9 } *)
  let '(pcr, pos) :=
    if bitf b 3 then ((match rd b pos 6 with Some w => ROk (s_clockref w) | None => ned end), (pos + 6)%nat)
    else (absent, pos) in
  (* if (OPCR_flag == '1') { original_program_clock_reference } *)
  let '(opcr, pos) :=
    if bitf b 4 then ((match rd b pos 6 with Some w => ROk (s_clockref w) | None => ned end), (pos + 6)%nat)
    else (absent, pos) in
  (* if (splicing_point_flag == '1') { splice_countdown 8 } *)
  let '(sc, pos) :=
    if bitf b 5 then ((match rd b pos 1 with Some w => ROk (field w 0 8) | None => ned end), (pos + 1)%nat)
    else (absent, pos) in
  (* if (transport_private_data_flag == '1') { length 8; private_data_byte x length } *)
  let '(priv, opos) :=
    if bitf b 6 then
      match rd b pos 1 with
      | Some w =>
          let len := N.to_nat (field w 0 8) in
          ((match rd b (pos + 1) len with Some d => ROk ((pos + 1)%nat, d) | None => ned end),
           Some (pos + 1 + len)%nat)
      | None => (ned, None)
      end
    else (absent, Some pos) in
  (* if (adaptation_field_extension_flag == '1') { length 8; ... } *)
  let ext :=
    if bitf b 7 then
      match opos with
      | None => ned
      | Some pos =>
          match rd b pos 1 with
          | Some w =>
              match rd b (pos + 1) (N.to_nat (field w 0 8)) with
              | Some [] => ned            (* an empty extension cannot hold its own flags byte *)
              | Some e => ROk e
              | None => ned
              end
          | None => ned
          end
      end
    else absent in
  {| v_discontinuity := bitf b 0; v_random_access := bitf b 1; v_es_priority := field b 2 1;
     v_pcr := pcr; v_opcr := opcr; v_splice_countdown := sc; v_private := priv; v_extension := ext |}.

(* adaptation field extension: ltw 1 | piecewise_rate 1 | seamless_splice 1 | reserved 5 *)
Record s_afe_view := {
  v_ltw : rresult (option N) af_err;
  v_piecewise : rresult N af_err;
  v_seamless : rresult (N * N) af_err }.

Definition s_afe_parse (e : list N) : s_afe_view :=
  let pos := 1%nat in
  (* ltw_valid_flag 1 | ltw_offset 15 *)
  let '(ltw, pos) :=
    if bitf e 0 then ((match rd e pos 2 with
                       | Some w => ROk (if bitf w 0 then Some (field w 1 15) else None)
                       | None => ned end), (pos + 2)%nat)
    else (absent, pos) in
  (* reserved 2 | piecewise_rate 22 *)
  let '(pw, pos) :=
    if bitf e 1 then ((match rd e pos 3 with Some w => ROk (field w 2 22) | None => ned end), (pos + 3)%nat)
    else (absent, pos) in
  (* splice_type 4 | DTS_next_AU[32..30] 3 | marker | [29..15] 15 | marker | [14..0] 15 | marker *)
  let ss :=
    if bitf e 2 then
      match rd e pos 5 with
      | Some w => match s_ts_decode w with
                  | ROk v => ROk (field w 0 4, v)
                  | RErr t => RErr (AfSpliceTimestampError t)
                  end
      | None => ned
      end
    else absent in
  {| v_ltw := ltw; v_piecewise := pw; v_seamless := ss |}.
