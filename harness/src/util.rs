//! PRNG, hex, and the two-file case/observation writer.
use std::fs::File;
use std::io::{BufWriter, Write};

pub struct Rng(pub u64);
impl Rng {
    pub fn new(seed: u64) -> Rng { Rng(seed.wrapping_mul(0x9E3779B97F4A7C15) ^ 0xD1B54A32D192ED03) }
    pub fn next(&mut self) -> u64 {
        self.0 = self.0.wrapping_add(0x9E3779B97F4A7C15);
        let mut z = self.0;
        z = (z ^ (z >> 30)).wrapping_mul(0xBF58476D1CE4E5B9);
        z = (z ^ (z >> 27)).wrapping_mul(0x94D049BB133111EB);
        z ^ (z >> 31)
    }
    pub fn below(&mut self, n: u64) -> u64 { if n == 0 { 0 } else { self.next() % n } }
    pub fn range(&mut self, lo: u64, hi: u64) -> u64 { lo + self.below(hi - lo + 1) }
    pub fn byte(&mut self) -> u8 { self.next() as u8 }
    pub fn chance(&mut self, num: u64, den: u64) -> bool { self.below(den) < num }
    pub fn bytes(&mut self, n: usize) -> Vec<u8> { (0..n).map(|_| self.byte()).collect() }
    pub fn pick<'a, T>(&mut self, v: &'a [T]) -> &'a T { &v[self.below(v.len() as u64) as usize] }
    pub fn fork(&mut self) -> Rng { Rng(self.next()) }
}

pub fn unhex(tok: &str) -> Vec<u8> {
    let t = tok.strip_prefix('x').unwrap_or(tok);
    (0..t.len() / 2).map(|i| u8::from_str_radix(&t[2 * i..2 * i + 2], 16).unwrap()).collect()
}

/// values that mean something somewhere in ISO/IEC 13818-1 (sync byte, table ids, stream ids, sizes, H.264 profiles, ...)
pub const MEANINGFUL: [u8; 40] = [0, 1, 2, 3, 4, 5, 8, 9, 10, 11, 14, 15, 16, 31, 32, 40, 63, 64, 66, 71, 77, 88, 100, 127, 128, 176,
                                  182, 183, 184, 188, 189, 190, 191, 192, 224, 240, 248, 253, 254, 255];

/// make parts of a byte string RELATE to one another: a byte equal to another byte (or one more / one less), a pair copied from
/// elsewhere, a byte holding the number of bytes that follow it (or one more / less), a meaningful constant, a run or the whole
/// tail turned into constant filler (all 0xff / all 0x00).  For oracles that
/// are defined on every input, so that any mutation of a case is again a case.
pub fn relate(b: &mut Vec<u8>, rng: &mut Rng) {
    let n = b.len();
    if n < 2 { return; }
    for _ in 0..rng.range(1, 3) {
        let i = rng.below(n as u64) as usize; let j = rng.below(n as u64) as usize;
        match rng.below(9) {
            0 => b[i] = b[j],
            1 => b[i] = b[j].wrapping_add(1),
            2 => b[i] = b[j].wrapping_sub(1),
            3 => { if i + 1 < n && j + 1 < n { let (x, y) = (b[j], b[j + 1]); b[i] = x; b[i + 1] = y; } }
            4 => { let rest = n - i - 1; b[i] = (rest as i64 + rng.range(0, 2) as i64 - 1).clamp(0, 255) as u8; }
            5 => { if i + 1 < n { let rest = n - i - 2; let v = (rest as i64 + rng.range(0, 2) as i64 - 1).clamp(0, 4095) as usize; b[i] = (b[i] & 0xf0) | (v >> 8) as u8; b[i + 1] = v as u8; } }
            6 => b[i] = *rng.pick(&MEANINGFUL),
            // constant filler (stuffing): everything from i on, or the run between i and j, is all 0xff / all 0x00
            7 => { let f = if rng.chance(2, 3) { 0xff } else { 0x00 }; for x in b[i..].iter_mut() { *x = f; } }
            _ => { let f = if rng.chance(2, 3) { 0xff } else { 0x00 }; let (lo, hi) = (i.min(j), i.max(j)); for x in b[lo..=hi].iter_mut() { *x = f; } }
        }
    }
}

pub fn hex(b: &[u8]) -> String {
    let mut s = String::with_capacity(b.len() * 2 + 1);
    s.push('x');
    for x in b { s.push_str(&format!("{:02x}", x)); }
    s
}

pub struct Out {
    cases: BufWriter<File>,
    obs: BufWriter<File>,
    pub n: u64,
}
impl Out {
    pub fn new(dir: &str, name: &str) -> Out {
        std::fs::create_dir_all(dir).unwrap();
        Out {
            cases: BufWriter::new(File::create(format!("{}/{}.cases", dir, name)).unwrap()),
            obs: BufWriter::new(File::create(format!("{}/{}.impl", dir, name)).unwrap()),
            n: 0,
        }
    }
    /// record one case: the case line, and what the implementation did (None = panicked)
    pub fn case(&mut self, case: &str, obs: Option<Vec<u64>>) {
        writeln!(self.cases, "{}", case).unwrap();
        match obs {
            None => writeln!(self.obs, "PANIC").unwrap(),
            Some(v) => {
                let mut s = String::with_capacity(v.len() * 4);
                for (i, x) in v.iter().enumerate() {
                    if i > 0 { s.push(' '); }
                    s.push_str(&x.to_string());
                }
                writeln!(self.obs, "{}", s).unwrap();
            }
        }
        self.n += 1;
    }
    pub fn finish(mut self) {
        self.cases.flush().unwrap();
        self.obs.flush().unwrap();
    }
}

/// run f under catch_unwind
pub fn guarded<F: FnOnce() -> Vec<u64> + std::panic::UnwindSafe>(f: F) -> Option<Vec<u64>> {
    std::panic::catch_unwind(f).ok()
}
