(* Proofs/ConservationProofs.v — C02: elementary stream bytes are delivered exactly once, in order. *)
From Coq Require Import List NArith Lia ZArith ZifyN ZifyNat ZifyBool Bool.
From TS Require Import Base.Res Base.ListX Base.Bits Model.Timestamp Model.Packet Model.Pes Model.PesFilter
  Spec.PacketSpec Spec.EsProtocol Spec.PesSpec Proofs.PacketProofs Proofs.PesProofs Proofs.PesFilterProofs.
Import ListNotations.
Open Scope N_scope.

(* what the PES filter reads of a transport packet *)
Record pview := { w_pusi : bool; w_haspl : bool; w_cc : N; w_pl : option (nat * list N) }.
Definition has_view (pk : pkt) (v : pview) : Prop :=
  pkt_payload_unit_start_indicator pk = Ok (w_pusi v) /\
  (exists ac, pkt_adaptation_control pk = Ok ac /\ ac_has_payload ac = w_haspl v) /\
  pkt_continuity_counter pk = Ok (w_cc v) /\
  pkt_payload pk = Ok (w_pl v).

(* the counter of a packet continues the previous one: +1 mod 16 with payload, unchanged without *)
Definition continues (prev : option N) (v : pview) : Prop :=
  match prev with
  | None => True
  | Some p => w_cc v < 16 /\ p < 16 /\ w_cc v = expected_cc p (w_haspl v)
  end.

Lemma continuous_ok f pk v : has_view pk v -> continues (pf_ccounter f) v -> pf_is_continuous f pk = Ok true.
Proof.
  intros (_ & (ac & Hac & Hpl) & Hcc & _) Hc. unfold pf_is_continuous. unfold continues in Hc.
  destruct (pf_ccounter f) as [prev|]; [|reflexivity]. destruct Hc as (H1 & H2 & H3).
  rewrite Hac. cbn [bind]. rewrite Hpl, Hcc. cbn [bind]. unfold expected_cc in H3.
  destruct (w_haspl v).
  - rewrite follows_fact by assumption. rewrite H3, N.eqb_refl. reflexivity.
  - rewrite H3, N.eqb_refl. reflexivity.
Qed.

(* events a unit start emits before packet-begin, by filter state *)
Definition pre_events (s : pes_state) : list es_event :=
  match s with PsBegin => [EsStartStream] | PsStarted => [EsEndPacket] | PsIgnoreRest => [] end.

(* unit start whose payload is a recognisable PES header: one packet-begin carrying that payload *)
Lemma step_unit_start f pk v off chunk :
  has_view pk v -> continues (pf_ccounter f) v -> w_pusi v = true -> w_pl v = Some (off, chunk) ->
  pes_header_from_bytes chunk = Ok (Some chunk) ->
  pf_consume f pk = Ok ({| pf_ccounter := Some (w_cc v); pf_state := PsStarted |},
                        pre_events (pf_state f) ++ [EsBeginPacket off chunk]).
Proof.
  intros Hv Hc Hp Hpl Hh. pose proof (continuous_ok f pk v Hv Hc) as Hcont.
  destruct Hv as (Hpusi & _ & Hcc & Hpay). unfold pf_consume. rewrite Hcont. cbn [bind negb].
  rewrite Hcc, Hpusi, Hp. cbn [bind]. rewrite Hpay, Hpl. cbn [bind]. rewrite Hh. cbn [bind].
  destruct (pf_state f); reflexivity.
Qed.

(* continuation with payload while a packet is open: exactly that payload, as one slice *)
Lemma step_continuation f pk v off chunk :
  has_view pk v -> continues (pf_ccounter f) v -> w_pusi v = false -> w_pl v = Some (off, chunk) -> chunk <> [] ->
  pf_state f = PsStarted ->
  pf_consume f pk = Ok ({| pf_ccounter := Some (w_cc v); pf_state := PsStarted |}, [EsContinuePacket off chunk]).
Proof.
  intros Hv Hc Hp Hpl Hne Hs. pose proof (continuous_ok f pk v Hv Hc) as Hcont.
  destruct Hv as (Hpusi & _ & Hcc & Hpay). unfold pf_consume. rewrite Hcont. cbn [bind negb].
  rewrite Hcc, Hpusi, Hp, Hs. cbn [bind]. rewrite Hpay, Hpl. cbn [bind].
  destruct chunk; [congruence|]. reflexivity.
Qed.

(* payload-less packet (adaptation field only, e.g. PCR): nothing is delivered, nothing is disturbed *)
Lemma step_no_payload f pk v :
  has_view pk v -> continues (pf_ccounter f) v -> w_pusi v = false -> w_pl v = None -> pf_state f = PsStarted ->
  pf_consume f pk = Ok ({| pf_ccounter := Some (w_cc v); pf_state := PsStarted |}, []).
Proof.
  intros Hv Hc Hp Hpl Hs. pose proof (continuous_ok f pk v Hv Hc) as Hcont.
  destruct Hv as (Hpusi & _ & Hcc & Hpay). unfold pf_consume. rewrite Hcont. cbn [bind negb].
  rewrite Hcc, Hpusi, Hp, Hs. cbn [bind]. rewrite Hpay, Hpl. reflexivity.
Qed.

(* ---- one PES packet spread over transport packets ---- *)
(* the continuation packets of a unit, each with its view: data-carrying or payload-less *)
Definition cont_ok (pv : pkt * pview) : Prop :=
  has_view (fst pv) (snd pv) /\ w_pusi (snd pv) = false /\
  match w_pl (snd pv) with Some (_, chunk) => chunk <> [] | None => True end.

Definition cont_event (pv : pkt * pview) : list es_event :=
  match w_pl (snd pv) with Some (off, chunk) => [EsContinuePacket off chunk] | None => [] end.
Definition cont_bytes (pv : pkt * pview) : list N :=
  match w_pl (snd pv) with Some (_, chunk) => chunk | None => [] end.

Fixpoint chain_cc (prev : N) (l : list (pkt * pview)) : Prop :=
  match l with
  | [] => True
  | pv :: r => continues (Some prev) (snd pv) /\ chain_cc (w_cc (snd pv)) r
  end.
Definition last_cc (c : N) (l : list (pkt * pview)) : N := fold_left (fun _ pv => w_cc (snd pv)) l c.

Lemma run_conts_started : forall (l : list (pkt * pview)) c,
  Forall cont_ok l -> chain_cc c l ->
  run_filter {| pf_ccounter := Some c; pf_state := PsStarted |} (map fst l) =
  Ok ({| pf_ccounter := Some (last_cc c l); pf_state := PsStarted |}, concat (map cont_event l)).
Proof.
  induction l as [|[pk v] l IH]; intros c Hok Hcc; [reflexivity|].
  inversion Hok as [|? ? (Hv & Hp & Hne) Hok']; subst. cbn [fst snd] in *. destruct Hcc as [Hc Hcc'].
  cbn [map run_filter fst].
  assert (Hstep : pf_consume {| pf_ccounter := Some c; pf_state := PsStarted |} pk =
                  Ok ({| pf_ccounter := Some (w_cc v); pf_state := PsStarted |}, cont_event (pk, v))).
  { unfold cont_event. cbn [snd]. destruct (w_pl v) as [[off chunk]|] eqn:Epl.
    - apply (step_continuation _ pk v off chunk); auto.
    - apply (step_no_payload _ pk v); auto. }
  rewrite Hstep. cbn [bind fst snd]. rewrite (IH (w_cc v) Hok' Hcc'). cbn [bind fst snd concat map]. reflexivity.
Qed.

(* the whole unit: from ANY filter state whose counter the first packet continues *)
Lemma c02_unit f pk0 v0 off0 chunk0 (l : list (pkt * pview)) :
  has_view pk0 v0 -> continues (pf_ccounter f) v0 -> w_pusi v0 = true -> w_pl v0 = Some (off0, chunk0) ->
  pes_header_from_bytes chunk0 = Ok (Some chunk0) ->
  Forall cont_ok l -> chain_cc (w_cc v0) l ->
  run_filter f (pk0 :: map fst l) =
  Ok ({| pf_ccounter := Some (last_cc (w_cc v0) l); pf_state := PsStarted |},
      pre_events (pf_state f) ++ EsBeginPacket off0 chunk0 :: concat (map cont_event l)).
Proof.
  intros Hv Hc Hp Hpl Hh Hok Hcc. cbn [run_filter].
  rewrite (step_unit_start f pk0 v0 off0 chunk0 Hv Hc Hp Hpl Hh). cbn [bind fst snd].
  rewrite (run_conts_started l (w_cc v0) Hok Hcc). cbn [bind fst snd].
  rewrite <- app_assoc. reflexivity.
Qed.

(* the bytes delivered for the unit — payload exposed by the header, then the continuation slices — are the
   PES packet's payload bytes: pes = header ++ payload is spread as chunk0 ++ continuation chunks *)
Lemma c02_bytes (hdr payload chunk0 : list N) (l : list (pkt * pview)) :
  hdr ++ payload = chunk0 ++ concat (map cont_bytes l) -> (length hdr <= length chunk0)%nat ->
  skipn (length hdr) chunk0 ++ concat (map cont_bytes l) = payload.
Proof.
  intros E Hl.
  assert (H : skipn (length hdr) (hdr ++ payload) = payload) by apply skipn_app_exact.
  rewrite E in H. rewrite skipn_app in H. replace (length hdr - length chunk0)%nat with 0%nat in H by lia.
  exact H.
Qed.

(* what begin_packet's header exposes as payload is exactly chunk0 minus the PES header *)
Lemma c02_exposed_parsed chunk0 : bytes_ok chunk0 -> s_pes_accept chunk0 = true ->
  s_headerless (s_stream_id chunk0) = false -> s_ppc_accept (skipn 6 chunk0) = true ->
  exists c, pes_contents_of chunk0 = Ok (PesParsed (Some c)) /\ c = skipn 6 chunk0 /\
            ppc_payload c = Ok ((3 + s_hdl c)%nat, skipn (6 + (3 + s_hdl c)) chunk0).
Proof.
  intros Hok Ha Hh Hp. rewrite c14_contents by assumption. rewrite Hh, Hp.
  exists (skipn 6 chunk0). split; [reflexivity|]. split; [reflexivity|].
  destruct (c14_fields (skipn 6 chunk0)) as (_ & _ & _ & _ & _ & _ & _ & _ & _ & _ & Hpay); [apply Forall_skipn, Hok|exact Hp|].
  rewrite Hpay. unfold s_ppc_parse.
  assert (E : forall A B (x y : A * B), x = y -> x = y) by auto.
  repeat match goal with |- context [if ?b then _ else _] => destruct b end; cbn [w_payload]; rewrite skipn_skipn; reflexivity.
Qed.

Lemma c02_exposed_raw chunk0 : bytes_ok chunk0 -> s_pes_accept chunk0 = true ->
  s_headerless (s_stream_id chunk0) = true -> pes_contents_of chunk0 = Ok (PesPayload (skipn 6 chunk0)).
Proof. intros Hok Ha Hh. rewrite c14_contents by assumption. rewrite Hh. reflexivity. Qed.

(* ---- a whole elementary stream: a sequence of units ---- *)
Record unit_t := { u_pk : pkt; u_view : pview; u_off : nat; u_chunk : list N; u_conts : list (pkt * pview) }.
Definition unit_ok (u : unit_t) : Prop :=
  has_view (u_pk u) (u_view u) /\ w_pusi (u_view u) = true /\ w_pl (u_view u) = Some (u_off u, u_chunk u) /\
  pes_header_from_bytes (u_chunk u) = Ok (Some (u_chunk u)) /\
  Forall cont_ok (u_conts u) /\ chain_cc (w_cc (u_view u)) (u_conts u).
Definition unit_packets (u : unit_t) : list pkt := u_pk u :: map fst (u_conts u).
Definition unit_events (u : unit_t) : list es_event := EsBeginPacket (u_off u) (u_chunk u) :: concat (map cont_event (u_conts u)).
Definition unit_last_cc (u : unit_t) : N := last_cc (w_cc (u_view u)) (u_conts u).

Fixpoint units_linked (prev : option N) (us : list unit_t) : Prop :=
  match us with
  | [] => True
  | u :: r => continues prev (u_view u) /\ units_linked (Some (unit_last_cc u)) r
  end.

Fixpoint stream_events (first : bool) (us : list unit_t) : list es_event :=
  match us with
  | [] => []
  | u :: r => (if first then [EsStartStream] else [EsEndPacket]) ++ unit_events u ++ stream_events false r
  end.

Lemma run_filter_app f a b :
  run_filter f (a ++ b) = (do x <- run_filter f a; do y <- run_filter (fst x) b; Ok (fst y, snd x ++ snd y)).
Proof.
  revert f. induction a as [|p a IH]; intros f.
  - cbn [app run_filter bind fst snd]. destruct (run_filter f b) as [[f' e]|]; reflexivity.
  - cbn [app run_filter]. destruct (pf_consume f p) as [[f1 e1]|]; cbn [bind fst snd]; [|reflexivity].
    rewrite IH. destruct (run_filter f1 a) as [[f2 e2]|]; cbn [bind fst snd]; [|reflexivity].
    destruct (run_filter f2 b) as [[f3 e3]|]; cbn [bind fst snd]; [|reflexivity]. rewrite app_assoc. reflexivity.
Qed.

Lemma c02_stream_from us : forall f, Forall unit_ok us -> units_linked (pf_ccounter f) us -> pf_state f <> PsIgnoreRest ->
  exists f', run_filter f (concat (map unit_packets us)) =
             Ok (f', stream_events (pes_state_eqb (pf_state f) PsBegin) us) /\
             (us <> [] -> pf_state f' = PsStarted).
Proof.
  induction us as [|u us IH]; intros f Hok Hl Hs.
  - exists f. split; [reflexivity|congruence].
  - inversion Hok as [|? ? (Hv & Hp & Hpl & Hh & Hc & Hcc) Hok']; subst. destruct Hl as [Hcont Hl'].
    cbn [map concat]. rewrite run_filter_app. unfold unit_packets at 1.
    rewrite (c02_unit f (u_pk u) (u_view u) (u_off u) (u_chunk u) (u_conts u) Hv Hcont Hp Hpl Hh Hc Hcc).
    cbn [bind fst snd].
    destruct (IH {| pf_ccounter := Some (last_cc (w_cc (u_view u)) (u_conts u)); pf_state := PsStarted |} Hok' Hl') as (f' & E & Hst).
    { cbn. discriminate. }
    rewrite E. cbn [bind fst snd]. exists f'. split.
    + cbn [stream_events pf_state pes_state_eqb]. f_equal. unfold unit_events.
      destruct (pf_state f); cbn [pre_events pes_state_eqb app]; try reflexivity. congruence.
    + intros _. destruct us as [|u2 us2]; [|apply Hst; discriminate].
      cbn in E. inversion E; subst. reflexivity.
Qed.

(* from a fresh filter: stream-start once, then per PES packet one packet-begin followed by its continuation
   slices, packets separated by exactly one packet-end; no continuity error anywhere *)
Lemma c02_stream us : Forall unit_ok us -> units_linked None us ->
  exists f', run_filter pes_filter_new (concat (map unit_packets us)) = Ok (f', stream_events true us).
Proof.
  intros Hok Hl. destruct (c02_stream_from us pes_filter_new Hok Hl) as (f' & E & _); [cbn; discriminate|].
  exists f'. exact E.
Qed.
