(* Model/Psi.v — src/psi/mod.rs: section headers and the section re-assembly chain
     SectionPacketConsumer -> {SectionSyntax|CompactSyntax}SectionProcessor -> [Dedup] -> Buffer -> [CrcCheck] -> inner
   as one state record and step functions, layer by layer as in the source.  Panic sites 300-349. *)
From TS Require Import Base.Res Gen.Consts Model.Timestamp Model.Packet Model.Crc.
Open Scope N_scope.

(* ---- SectionCommonHeader ---- *)
Record common_header := {
  ch_table_id : N; ch_ssi : bool; ch_private : bool; ch_section_length : nat }.
Definition SCH_SIZE : nat := 3.
Definition TSH_SIZE : nat := 5.

Definition sch_new (buf : list N) : res common_header :=
  do _ <- assert (Nat.eqb (length buf) SCH_SIZE) 301;
  do b0 <- idx buf 0 302; do b1 <- idx buf 1 303; do b2 <- idx buf 2 304;
  Ok {| ch_table_id := b0;
        ch_ssi := nz (N.land b1 128);
        ch_private := nz (N.land b1 64);
        ch_section_length := N.to_nat (N.lor (N.shiftl (N.land b1 15) 8) b2) |}.

(* ---- TableSyntaxHeader (wraps the bytes after the common header) ---- *)
Definition tsh_new (buf : list N) : res (list N) :=
  do _ <- assert (Nat.leb TSH_SIZE (length buf)) 305; Ok buf.
Definition tsh_id (t : list N) : res N :=
  do a <- idx t 0 306; do b <- idx t 1 307; Ok (N.lor (N.shiftl a 8) b).
Definition tsh_version (t : list N) : res N :=
  do b <- idx t 2 308; Ok (N.land (N.shiftr b 1) 31).
(* CurrentNext::from(v): 0 => Next, 1 => Current, _ => panic *)
Definition tsh_current_next (t : list N) : res N :=
  do b <- idx t 2 309; let v := N.land b 1 in
  if (v =? 0) || (v =? 1) then Ok v else Panic 310.
Definition tsh_section_number (t : list N) : res N := idx t 3 311.
Definition tsh_last_section_number (t : list N) : res N := idx t 4 312.

(* SECTION_LIMIT: regenerated from the source (both processors) *)
Definition SECTION_LIMIT_SYNTAX : nat := Eval compute in N.to_nat SECTION_LIMIT_1.
Definition SECTION_LIMIT_COMPACT : nat := Eval compute in N.to_nat SECTION_LIMIT_0.

Inductive buf_state := Buffering (remaining : nat) | Complete.

Record chain_cfg := { cf_compact : bool; cf_dedup : bool; cf_crc : bool; cf_fuzzing : bool }.

Section Chain.
Variable cfg : chain_cfg.
Variables IS CX EV : Type.
(* the whole-section consumer below the chain: header, complete section bytes, and the provenance of
   those bytes: [Some off] = delivered in place, [off] bytes into the current packet; [None] = from the
   re-assembly buffer *)
(* arguments: header, TableSyntaxHeader bytes (empty for compact syntax), section bytes, provenance *)
Variable inner : IS -> CX -> common_header -> list N -> list N -> option nat -> res (IS * CX * list EV).

Record chain := {
  sp_ignore_rest : bool;            (* {SectionSyntax|CompactSyntax}SectionProcessor.ignore_rest *)
  dd_last_version : option N;       (* DedupSectionSyntaxPayloadParser *)
  dd_ignore_rest : bool;
  bf_buf : list N;                  (* Buffer{Section|Compact}SyntaxParser *)
  bf_state : buf_state;
  in_state : IS }.

Definition chain_init (i : IS) : chain :=
  {| sp_ignore_rest := false; dd_last_version := None; dd_ignore_rest := false;
     bf_buf := []; bf_state := Complete; in_state := i |}.

Definition set_inner (c : chain) (i : IS) : chain :=
  {| sp_ignore_rest := sp_ignore_rest c; dd_last_version := dd_last_version c; dd_ignore_rest := dd_ignore_rest c;
     bf_buf := bf_buf c; bf_state := bf_state c; in_state := i |}.
Definition set_buf (c : chain) (b : list N) (s : buf_state) : chain :=
  {| sp_ignore_rest := sp_ignore_rest c; dd_last_version := dd_last_version c; dd_ignore_rest := dd_ignore_rest c;
     bf_buf := b; bf_state := s; in_state := in_state c |}.
Definition set_dedup (c : chain) (v : option N) (ig : bool) : chain :=
  {| sp_ignore_rest := sp_ignore_rest c; dd_last_version := v; dd_ignore_rest := ig;
     bf_buf := bf_buf c; bf_state := bf_state c; in_state := in_state c |}.
Definition set_sp_ignore (c : chain) (ig : bool) : chain :=
  {| sp_ignore_rest := ig; dd_last_version := dd_last_version c; dd_ignore_rest := dd_ignore_rest c;
     bf_buf := bf_buf c; bf_state := bf_state c; in_state := in_state c |}.

(* ---- CrcCheckWholeSectionSyntaxPayloadParser::section (or straight through when not configured) ---- *)
Definition crc_layer_section (c : chain) (cx : CX) (h : common_header) (tsh : list N) (data : list N) (origin : option nat)
  : res (chain * CX * list EV) :=
  if cf_crc cfg then
    do _ <- assert (ch_ssi h) 313;
    if Nat.ltb (length data) (SCH_SIZE + TSH_SIZE + 4) then Ok (c, cx, [])
    else if negb (cf_fuzzing cfg) && negb (m_sum32 data =? 0) then Ok (c, cx, [])
    else do r <- inner (in_state c) cx h tsh data origin; Ok (set_inner c (fst (fst r)), snd (fst r), snd r)
  else
    do r <- inner (in_state c) cx h tsh data origin; Ok (set_inner c (fst (fst r)), snd (fst r), snd r).

(* ---- Buffer{Section|Compact}SyntaxParser ---- *)
Definition buf_start (c : chain) (cx : CX) (h : common_header) (tsh : list N) (data : list N) (off : nat) : res (chain * CX * list EV) :=
  let slwh := (ch_section_length h + SCH_SIZE)%nat in
  if Nat.leb slwh (length data) then
    do d <- slice_to data slwh 314;
    crc_layer_section (set_buf c (bf_buf c) Complete) cx h tsh d (Some off)
  else
    do to_read <- usub slwh (length data) 315;
    Ok (set_buf c data (Buffering to_read), cx, []).

Definition buf_continue (c : chain) (cx : CX) (data : list N) : res (chain * CX * list EV) :=
  match bf_state c with
  | Complete => Ok (c, cx, [])
  | Buffering remaining =>
      do new_remaining <- (if Nat.ltb remaining (length data) then Ok 0%nat else usub remaining (length data) 316);
      if Nat.eqb new_remaining 0 then
        do part <- slice_to data remaining 317;
        let b := bf_buf c ++ part in
        let c1 := set_buf c b Complete in
        do hb <- slice_to b SCH_SIZE 318;
        do h <- sch_new hb;
        (* section syntax: TableSyntaxHeader::new(&buf[3..]) asserts at least 5 more bytes *)
        do tsh <- (if cf_compact cfg then Ok []
                   else do t <- slice_from b SCH_SIZE 319; tsh_new t);
        crc_layer_section c1 cx h tsh b None
      else
        Ok (set_buf c (bf_buf c ++ data) (Buffering new_remaining), cx, [])
  end.

Definition buf_reset (c : chain) : chain := set_buf c [] Complete.

(* ---- DedupSectionSyntaxPayloadParser (or straight through) ---- *)
Definition dd_start (c : chain) (cx : CX) (h : common_header) (tsh : list N) (data : list N) (off : nat)
  : res (chain * CX * list EV) :=
  if cf_dedup cfg then
    do v <- tsh_version tsh;
    match dd_last_version c with
    | Some last => if last =? v then Ok (set_dedup c (dd_last_version c) true, cx, [])
                   else buf_start (set_dedup c (Some v) false) cx h tsh data off
    | None => buf_start (set_dedup c (Some v) false) cx h tsh data off
    end
  else buf_start c cx h tsh data off.

Definition dd_continue (c : chain) (cx : CX) (data : list N) : res (chain * CX * list EV) :=
  if cf_dedup cfg then (if dd_ignore_rest c then Ok (c, cx, []) else buf_continue c cx data)
  else buf_continue c cx data.

Definition dd_reset (c : chain) : chain :=
  if cf_dedup cfg then set_dedup (buf_reset c) None false else buf_reset c.

(* ---- {SectionSyntax|CompactSyntax}SectionProcessor ---- *)
Definition sp_start (c : chain) (cx : CX) (h : common_header) (data : list N) (off : nat) : res (chain * CX * list EV) :=
  if cf_compact cfg then
    if ch_ssi h then Ok (set_sp_ignore c true, cx, [])
    else if Nat.ltb (length data) SCH_SIZE then Ok (set_sp_ignore c true, cx, [])
    else if Nat.ltb SECTION_LIMIT_COMPACT (ch_section_length h) then Ok (set_sp_ignore c true, cx, [])
    else buf_start (set_sp_ignore c false) cx h [] data off
  else
    if negb (ch_ssi h) then Ok (set_sp_ignore c true, cx, [])
    else if Nat.ltb (length data) (SCH_SIZE + TSH_SIZE) then Ok (set_sp_ignore c true, cx, [])
    else if Nat.ltb SECTION_LIMIT_SYNTAX (ch_section_length h) then Ok (set_sp_ignore c true, cx, [])
    else
      do t <- slice_from data SCH_SIZE 320;
      do tsh <- tsh_new t;
      dd_start (set_sp_ignore c false) cx h tsh data off.

Definition sp_continue (c : chain) (cx : CX) (data : list N) : res (chain * CX * list EV) :=
  if sp_ignore_rest c then Ok (c, cx, [])
  else if cf_compact cfg then buf_continue c cx data else dd_continue c cx data.

Definition sp_reset (c : chain) : chain := if cf_compact cfg then buf_reset c else dd_reset c.

(* ---- SectionPacketConsumer::consume ---- *)
Definition spc_consume (c : chain) (cx : CX) (pk : pkt) : res (chain * CX * list EV) :=
  do pl <- pkt_payload pk;
  match pl with
  | None => Ok (c, cx, [])
  | Some (poff, pk_buf) =>
      do pusi <- pkt_payload_unit_start_indicator pk;
      if pusi then
        do p <- idx pk_buf 0 321;
        let pointer := N.to_nat p in
        do section_data <- slice_from pk_buf 1 322;
        do r1 <- (if Nat.ltb 0 pointer then
                    if Nat.leb (length section_data) pointer then Ok (None)
                    else do remainder <- slice_to section_data pointer 323;
                         do r <- sp_continue c cx remainder; Ok (Some r)
                  else Ok (Some (c, cx, [])));
        match r1 with
        | None => Ok (sp_reset c, cx, [])
        | Some (c1, cx1, e1) =>
            do next_sect <- slice_from section_data pointer 324;
            if Nat.ltb (length next_sect) SCH_SIZE then Ok (sp_reset c1, cx1, e1)
            else
              do hb <- slice_to next_sect SCH_SIZE 325;
              do h <- sch_new hb;
              do r2 <- sp_start c1 cx1 h next_sect (poff + 1 + pointer);
              Ok (fst r2, e1 ++ snd r2)
        end
      else sp_continue c cx pk_buf
  end.
End Chain.

Arguments chain_init {IS}.
Arguments sp_ignore_rest {IS}.
Arguments dd_last_version {IS}.
Arguments dd_ignore_rest {IS}.
Arguments bf_buf {IS}.
Arguments bf_state {IS}.
Arguments in_state {IS}.
