(* Props/C01.v — C01: arbitrary input never panics the demultiplexer or any accessor. *)
From TS Require Import Base.Res Model.Timestamp Model.Packet Model.PesFilter Model.Crc Model.Psi Model.Demux
  Proofs.TotalityProofs.
Open Scope N_scope.

(* for EVERY list of byte chunks of any lengths (packet-aligned or not), every application policy and every
   script of handler changes, in the normal build (fz = false) and with the CRC comparison bypassed
   (fz = true, the cfg(fuzzing) build): Demultiplex::new followed by the successive push calls, with the
   library's PAT, PMT and PES handling, returns a value — no [Panic site] is ever reached.  Every indexing,
   slicing, split_at, assert!, unwrap, usize subtraction and range-checked constructor of the modelled code
   is a checked operation of the model, so this covers them all. *)
Theorem C01_push_total : forall policy scripts fz bufs, Forall bytes_ok bufs ->
  exists fs cx ev, run_demux policy scripts fz false bufs = Ok (fs, cx, ev).
Proof. exact c01_run_demux_total. Qed.
Print Assumptions C01_push_total.

(* the invariant that carries it: the handler table is well formed and every table chain satisfies
   "Buffering => at least 8 buffered bytes whose header has the syntax bit set"; one packet preserves it *)
Theorem C01_packet_step : forall policy scripts fz fs cx i pk, filters_inv fs -> ctx_inv cx -> pkt_ok pk ->
  exists fs' cx' ev, Spec.Dispatch.spec_packet policy scripts fz false fs cx (i, pk) = Ok (fs', cx', ev) /\ filters_inv fs' /\ ctx_inv cx'.
Proof. exact spec_packet_total. Qed.
Print Assumptions C01_packet_step.

(* the section chain alone, for any total table processor *)
Theorem C01_chain_total : forall fz (IS CX EV : Type) inner (IOK : IS -> Prop) (CXOK : CX -> Prop),
  (forall i cx h tsh data origin, IOK i -> CXOK cx -> bytes_ok data -> (12 <= length data)%nat ->
     exists i' cx' ev, inner i cx h tsh data origin = Ok (i', cx', ev) /\ IOK i' /\ CXOK cx') ->
  forall (c : chain IS) cx pk, chain_inv IS IOK c -> CXOK cx -> pkt_ok pk ->
  exists c' cx' ev, spc_consume (table_cfg fz) IS CX EV inner c cx pk = Ok (c', cx', ev) /\ chain_inv IS IOK c' /\ CXOK cx'.
Proof. exact spc_consume_total. Qed.
Print Assumptions C01_chain_total.

(* the accessors handed to application call-backs are total by the exactness theorems of C12 (packet),
   C13 (adaptation field), C14 (PES header), C15 (timestamps), C16 (PAT/PMT), C17 (descriptors): each states
   `accessor x = Ok (specification value)` for every input. *)
