(* Proofs/TotalityProofs.v — C01: the demultiplexer with PAT, PMT and PES handling never panics. *)
From Coq Require Import List NArith Lia ZArith ZifyN ZifyNat ZifyBool Bool.
From TS Require Import Base.Res Base.ListX Base.Bits Model.Timestamp Model.Packet Model.PacketObs Model.Pes Model.PesObs
  Model.Descriptor Model.Tables Model.TablesObs Model.PesFilter Model.Crc Model.Psi Model.Demux
  Spec.PacketSpec Spec.PesSpec Spec.TablesSpec Spec.Dispatch
  Proofs.PacketProofs Proofs.PesProofs Proofs.TablesProofs Proofs.PesFilterProofs Proofs.SectionProofs Proofs.DispatchProofs Proofs.TableProofs Proofs.DeepTotality.
Import ListNotations.
Open Scope N_scope.


(* ---- the table chain ---- *)
Section ChainTotal.
Variable fz : bool.
Variables IS CX EV : Type.
Variable inner : IS -> CX -> common_header -> list N -> list N -> option nat -> res (IS * CX * list EV).
Variable IOK : IS -> Prop.
Variable CXOK : CX -> Prop.
(* the table processor is total on CRC-sized sections and keeps its own invariant *)
Hypothesis inner_total : forall i cx h tsh data origin, IOK i -> CXOK cx -> bytes_ok data -> (12 <= length data)%nat ->
  exists i' cx' ev, inner i cx h tsh data origin = Ok (i', cx', ev) /\ IOK i' /\ CXOK cx'.
Notation cfg := (table_cfg fz).

Definition chain_inv (c : chain IS) : Prop :=
  IOK (in_state c) /\
  match bf_state c with
  | Buffering _ => (8 <= length (bf_buf c))%nat /\ ch_ssi (hdr_of (bf_buf c)) = true /\ bytes_ok (bf_buf c)
  | Complete => True
  end.

Lemma hdr_of_app a b : (3 <= length a)%nat -> hdr_of (a ++ b) = hdr_of a.
Proof. intros H. destruct a as [|x [|y [|z r]]]; cbn in H; try lia. reflexivity. Qed.

Lemma crc_layer_total (c : chain IS) cx h tsh data origin :
  IOK (in_state c) -> CXOK cx -> ch_ssi h = true -> bytes_ok data ->
  exists c' cx' ev, crc_layer_section cfg IS CX EV inner c cx h tsh data origin = Ok (c', cx', ev) /\
                    IOK (in_state c') /\ bf_state c' = bf_state c /\ bf_buf c' = bf_buf c /\ CXOK cx'.
Proof.
  intros Hi Hx Hs Hb. unfold crc_layer_section. cbn [table_cfg cf_crc cf_fuzzing]. unfold assert. rewrite Hs. cbn [bind].
  destruct (Nat.ltb_spec (length data) (SCH_SIZE + TSH_SIZE + 4)) as [|Hl]; [exists c, cx, []; auto|].
  destruct (negb fz && negb (m_sum32 data =? 0)); [exists c, cx, []; auto|].
  destruct (inner_total (in_state c) cx h tsh data origin Hi Hx Hb) as (i' & cx' & ev & E & Hi' & Hx'); [unfold SCH_SIZE, TSH_SIZE in Hl; lia|].
  rewrite E. cbn [bind fst snd]. exists (set_inner IS c i'), cx', ev. auto 6.
Qed.

Lemma buf_start_total (c : chain IS) cx h tsh data off :
  IOK (in_state c) -> CXOK cx -> ch_ssi h = true -> h = hdr_of data -> (8 <= length data)%nat -> bytes_ok data ->
  exists c' cx' ev, buf_start cfg IS CX EV inner c cx h tsh data off = Ok (c', cx', ev) /\ chain_inv c' /\ CXOK cx'.
Proof.
  intros Hi Hx Hs Hh Hl Hb. unfold buf_start, SCH_SIZE.
  destruct (Nat.leb_spec (ch_section_length h + 3) (length data)) as [Hfit|Hno].
  - unfold slice_to. replace (Nat.leb (ch_section_length h + 3) (length data)) with true by (symmetry; apply Nat.leb_le; lia).
    cbn [bind].
    destruct (crc_layer_total (set_buf IS c (bf_buf c) Complete) cx h tsh (firstn (ch_section_length h + 3) data) (Some off))
      as (c' & cx' & ev & E & Hi' & Hst & Hbf & Hx'); [exact Hi|exact Hx|exact Hs|apply Forall_firstn, Hb|].
    rewrite E. exists c', cx', ev. split; [reflexivity|]. split; [|exact Hx']. split; [exact Hi'|]. rewrite Hst. exact I.
  - unfold usub. replace (Nat.leb (length data) (ch_section_length h + 3)) with true by (symmetry; apply Nat.leb_le; lia).
    cbn [bind]. eexists _, _, _. split; [reflexivity|]. split; [|exact Hx]. split; [exact Hi|]. cbn [bf_state bf_buf set_buf].
    subst h. auto.
Qed.

Lemma buf_continue_total (c : chain IS) cx x : chain_inv c -> CXOK cx -> bytes_ok x ->
  exists c' cx' ev, buf_continue cfg IS CX EV inner c cx x = Ok (c', cx', ev) /\ chain_inv c' /\ CXOK cx'.
Proof.
  intros (Hi & Hinv) Hcx Hx. unfold buf_continue. destruct (bf_state c) as [r|] eqn:Es.
  2:{ exists c, cx, []. split; [reflexivity|]. split; [|exact Hcx]. split; [exact Hi|]. rewrite Es. exact I. }
  destruct Hinv as (H8 & Hssi & Hbok).
  assert (Hnr : exists nr, (if Nat.ltb r (length x) then Ok 0%nat else usub r (length x) 316) = Ok nr /\
                           (nr = 0%nat -> (r <= length x)%nat)).
  { destruct (Nat.ltb_spec r (length x)); [exists 0%nat; split; [reflexivity|lia]|].
    unfold usub. replace (Nat.leb (length x) r) with true by (symmetry; apply Nat.leb_le; lia).
    eexists. split; [reflexivity|lia]. }
  destruct Hnr as (nr & Enr & Hnr). rewrite Enr. cbn [bind].
  destruct (Nat.eqb_spec nr 0) as [H0|H0].
  - specialize (Hnr H0). unfold slice_to at 1. replace (Nat.leb r (length x)) with true by (symmetry; apply Nat.leb_le; lia).
    cbn [bind]. set (b := bf_buf c ++ firstn r x).
    assert (Hb8 : (8 <= length b)%nat) by (unfold b; rewrite app_length; lia).
    unfold slice_to, SCH_SIZE. replace (Nat.leb 3 (length b)) with true by (symmetry; apply Nat.leb_le; lia). cbn [bind].
    rewrite sch_new_firstn by lia. cbn [bind table_cfg cf_compact].
    unfold slice_from. replace (Nat.leb 3 (length b)) with true by (symmetry; apply Nat.leb_le; lia). cbn [bind].
    rewrite tsh_new_ok by assumption. cbn [bind].
    destruct (crc_layer_total (set_buf IS c b Complete) cx (hdr_of b) (skipn 3 b) b None)
      as (c' & cx' & ev & E & Hi' & Hst & Hbf & Hx').
    + exact Hi.
    + exact Hcx.
    + unfold b. rewrite hdr_of_app by lia. exact Hssi.
    + unfold b. apply Forall_app. split; [exact Hbok|apply Forall_firstn, Hx].
    + rewrite E. exists c', cx', ev. split; [reflexivity|]. split; [|exact Hx']. split; [exact Hi'|]. rewrite Hst. exact I.
  - eexists _, _, _. split; [reflexivity|]. split; [|exact Hcx]. split; [exact Hi|]. cbn [bf_state bf_buf set_buf].
    rewrite app_length. split; [lia|]. split; [rewrite hdr_of_app by lia; exact Hssi|].
    apply Forall_app. split; assumption.
Qed.

Lemma dd_continue_total (c : chain IS) cx x : chain_inv c -> CXOK cx -> bytes_ok x ->
  exists c' cx' ev, dd_continue cfg IS CX EV inner c cx x = Ok (c', cx', ev) /\ chain_inv c' /\ CXOK cx'.
Proof.
  intros Hc Hcx Hx. unfold dd_continue. cbn [table_cfg cf_dedup].
  destruct (dd_ignore_rest c); [exists c, cx, []; auto|apply buf_continue_total; assumption].
Qed.

Lemma sp_continue_total (c : chain IS) cx x : chain_inv c -> CXOK cx -> bytes_ok x ->
  exists c' cx' ev, sp_continue cfg IS CX EV inner c cx x = Ok (c', cx', ev) /\ chain_inv c' /\ CXOK cx'.
Proof.
  intros Hc Hcx Hx. unfold sp_continue. destruct (sp_ignore_rest c); [exists c, cx, []; auto|].
  cbn [table_cfg cf_compact]. apply dd_continue_total; assumption.
Qed.

Lemma chain_inv_flags (c : chain IS) v ig sp : chain_inv c -> chain_inv (set_dedup IS (set_sp_ignore IS c sp) v ig).
Proof. intros H. exact H. Qed.
Lemma chain_inv_sp (c : chain IS) sp : chain_inv c -> chain_inv (set_sp_ignore IS c sp).
Proof. intros H. exact H. Qed.

Lemma sp_start_total (c : chain IS) cx data off : chain_inv c -> CXOK cx -> bytes_ok data -> (3 <= length data)%nat ->
  exists c' cx' ev, sp_start cfg IS CX EV inner c cx (hdr_of data) data off = Ok (c', cx', ev) /\ chain_inv c' /\ CXOK cx'.
Proof.
  intros Hc Hcx Hb H3. unfold sp_start. cbn [table_cfg cf_compact].
  destruct (ch_ssi (hdr_of data)) eqn:Hs; cbn [negb]; [|eexists _, _, _; split; [reflexivity|split; [apply chain_inv_sp, Hc|exact Hcx]]].
  unfold SCH_SIZE, TSH_SIZE.
  destruct (Nat.ltb_spec (length data) (3 + 5)) as [|H8]; [eexists _, _, _; split; [reflexivity|split; [apply chain_inv_sp, Hc|exact Hcx]]|].
  destruct (Nat.ltb SECTION_LIMIT_SYNTAX (ch_section_length (hdr_of data))); [eexists _, _, _; split; [reflexivity|split; [apply chain_inv_sp, Hc|exact Hcx]]|].
  unfold slice_from. replace (Nat.leb 3 (length data)) with true by (symmetry; apply Nat.leb_le; lia). cbn [bind].
  rewrite tsh_new_ok by lia. cbn [bind]. unfold dd_start. cbn [table_cfg cf_dedup].
  assert (Hv : exists v, tsh_version (skipn 3 data) = Ok v).
  { unfold tsh_version. destruct (skipn 3 data) as [|a [|b [|c' r]]] eqn:E;
      try (apply (f_equal (@length N)) in E; rewrite skipn_length in E; cbn in E; lia). cbn. eauto. }
  destruct Hv as [v Hv]. rewrite Hv. cbn [bind].
  destruct Hc as [Hi Hrest].
  destruct (dd_last_version (set_sp_ignore IS c false)) as [last|].
  - destruct (last =? v).
    + eexists _, _, _. split; [reflexivity|]. split; [split; assumption|exact Hcx].
    + apply buf_start_total; auto; lia.
  - apply buf_start_total; auto; lia.
Qed.

Lemma sp_reset_inv (c : chain IS) : chain_inv c -> chain_inv (sp_reset cfg IS c).
Proof. intros [Hi _]. unfold sp_reset, dd_reset, buf_reset. cbn [table_cfg cf_compact cf_dedup]. split; [exact Hi|exact I]. Qed.

(* SectionPacketConsumer::consume on any 188-byte packet *)
Lemma spc_consume_total (c : chain IS) cx pk : chain_inv c -> CXOK cx -> pkt_ok pk ->
  exists c' cx' ev, spc_consume cfg IS CX EV inner c cx pk = Ok (c', cx', ev) /\ chain_inv c' /\ CXOK cx'.
Proof.
  intros Hc Hcx (Hl & Hok). unfold spc_consume.
  destruct (c12_split pk Hl Hok) as (_ & Hpl). rewrite Hpl. cbn [bind].
  destruct (c12_fields pk Hl Hok) as (_ & Hpusi & _). rewrite Hpusi. cbn [bind].
  destruct (s_payload_range (s_afc pk) (s_af_length pk)) as [[o l]|] eqn:Er; cbn [range_bytes]; [|exists c, cx, []; auto].
  assert (Hne : (1 <= length (firstn l (skipn o pk)))%nat /\ bytes_ok (firstn l (skipn o pk))).
  { split; [|apply Forall_firstn, Forall_skipn, Hok].
    assert (Ha : s_afc pk < 4) by (unfold s_afc, field; pose proof (N.mod_upper_bound (be pk / 2 ^ (nbits pk - 26 - 2)) (2^2)); change (2^2) with 4 in *; lia).
    assert (HL : s_af_length pk < 256) by (unfold s_af_length, field; pose proof (N.mod_upper_bound (be pk / 2 ^ (nbits pk - 32 - 8)) (2^8)); change (2^8) with 256 in *; lia).
    pose proof (c12_ranges (s_afc pk) (s_af_length pk) Ha HL) as Hr. rewrite Er in Hr.
    rewrite firstn_length, skipn_length, Hl.
    destruct (s_af_range (s_afc pk) (s_af_length pk)) as [[ao al]|]; lia. }
  destruct Hne as [Hn1 Hpb]. set (pl := firstn l (skipn o pk)) in *.
  destruct (s_pusi pk).
  2:{ apply sp_continue_total; assumption. }
  destruct pl as [|p sd] eqn:Epl; [cbn in Hn1; lia|]. cbn [idx nth_error bind].
  unfold slice_from at 1. cbn [length Nat.leb bind skipn].
  assert (Hsd : bytes_ok sd) by (inversion Hpb; assumption).
  destruct (Nat.ltb_spec 0 (N.to_nat p)) as [Hp|Hp].
  - destruct (Nat.leb_spec (length sd) (N.to_nat p)) as [Hge|Hlt]; cbn [bind].
    + eexists _, _, _. split; [reflexivity|split; [apply sp_reset_inv, Hc|exact Hcx]].
    + unfold slice_to. replace (Nat.leb (N.to_nat p) (length sd)) with true by (symmetry; apply Nat.leb_le; lia). cbn [bind].
      destruct (sp_continue_total c cx (firstn (N.to_nat p) sd) Hc Hcx) as (c1 & cx1 & e1 & E1 & Hc1 & Hcx1); [apply Forall_firstn, Hsd|].
      rewrite E1. cbn [bind]. unfold slice_from. replace (Nat.leb (N.to_nat p) (length sd)) with true by (symmetry; apply Nat.leb_le; lia).
      cbn [bind]. set (next := skipn (N.to_nat p) sd).
      destruct (Nat.ltb_spec (length next) SCH_SIZE) as [Hs|Hs]; [eexists _, _, _; split; [reflexivity|split; [apply sp_reset_inv, Hc1|exact Hcx1]]|].
      unfold slice_to, SCH_SIZE in *. replace (Nat.leb 3 (length next)) with true by (symmetry; apply Nat.leb_le; lia). cbn [bind].
      rewrite sch_new_firstn by lia. cbn [bind].
      destruct (sp_start_total c1 cx1 next (o + 1 + N.to_nat p) Hc1 Hcx1) as (c2 & cx2 & e2 & E2 & Hc2); [apply Forall_skipn, Hsd|lia|].
      rewrite E2. cbn [bind fst snd]. eexists _, _, _. split; [reflexivity|exact Hc2].
  - cbn [bind]. assert (Hp0 : N.to_nat p = 0%nat) by lia. unfold slice_from. rewrite Hp0. cbn [Nat.leb bind skipn].
    destruct (Nat.ltb_spec (length sd) SCH_SIZE) as [Hs|Hs]; [eexists _, _, _; split; [reflexivity|split; [apply sp_reset_inv, Hc|exact Hcx]]|].
    unfold slice_to, SCH_SIZE in *. replace (Nat.leb 3 (length sd)) with true by (symmetry; apply Nat.leb_le; lia). cbn [bind].
    rewrite sch_new_firstn by lia. cbn [bind].
    destruct (sp_start_total c cx sd (o + 1 + 0) Hc Hcx Hsd) as (c2 & cx2 & e2 & E2 & Hc2); [lia|].
    rewrite E2. cbn [bind fst snd]. eexists _, _, _. split; [reflexivity|exact Hc2].
Qed.
End ChainTotal.

(* ---- the table processors ---- *)
Definition reg_ok (l : list N) : Prop := Forall (fun p => p <= 8191) l.

Lemma bs_insert_ok x l : x <= 8191 -> reg_ok l -> reg_ok (bs_insert x l).
Proof.
  intros Hx Hl. induction Hl as [|y l Hy Hl IH]; cbn [bs_insert]; [repeat constructor; assumption|].
  destruct (x <? y); [constructor; [assumption|constructor; assumption]|].
  destruct (x =? y); constructor; assumption.
Qed.
Lemma bs_difference_ok a b : reg_ok a -> reg_ok (bs_difference a b).
Proof. intros H. unfold bs_difference, reg_ok in *. rewrite Forall_forall in *. intros x Hx. apply filter_In in Hx. apply H, Hx. Qed.

Lemma field_13_le g : field g 19 13 <= 8191.
Proof. unfold field. pose proof (N.mod_upper_bound (be g / 2 ^ (nbits g - 19 - 13)) (2^13)). change (2^13) with 8192 in *. lia. Qed.
Lemma pat_entry_pid g : pd_pid (s_pat_entry g) <= 8191.
Proof. unfold s_pat_entry. destruct (field g 0 16 =? 0); cbn [pd_pid]; apply field_13_le. Qed.
Lemma s_pat_pids body : Forall (fun d => pd_pid d <= 8191) (s_pat body).
Proof. unfold s_pat. apply Forall_forall. intros d Hd. apply in_map_iff in Hd. destruct Hd as (g & <- & _). apply pat_entry_pid. Qed.

Lemma fold_insert_ok (progs : list program_descriptor) : forall s, Forall (fun d => pd_pid d <= 8191) progs -> reg_ok s ->
  reg_ok (fold_left (fun s d => bs_insert (pd_pid d) s) progs s).
Proof.
  induction progs as [|d r IH]; intros s Hp Hs; [exact Hs|]. inversion Hp; subst. cbn [fold_left].
  apply IH; [assumption|apply bs_insert_ok; assumption].
Qed.

(* ---- invariants of handlers, the handler table and the context ---- *)
Definition pat_iok (ps : pat_state) : Prop := reg_ok (pat_registered ps).
Definition pmt_iok (ps : pmt_state) : Prop := reg_ok (pmt_registered ps).
Definition handler_inv (h : handler) : Prop :=
  match h with
  | HPat _ c => chain_inv pat_state pat_iok c
  | HPmt _ c => chain_inv pmt_state pmt_iok c
  | _ => True
  end.
Definition change_inv (ch : change) : Prop := match ch with ChInsert _ h => handler_inv h | ChRemove _ => True end.
Definition ctx_inv (cx : ctx) : Prop := Forall change_inv (cx_changes cx).

Lemma mk_handler_inv k s : handler_inv (mk_handler k s).
Proof. destruct k; cbn; try exact I; split; try exact I; constructor. Qed.
Lemma queue_inv cx ch : ctx_inv cx -> change_inv ch -> ctx_inv (queue cx ch).
Proof. intros H1 H2. unfold ctx_inv, queue. cbn [cx_changes]. apply Forall_app. split; [exact H1|repeat constructor; exact H2]. Qed.

Section ProcTotal.
Variable policy : request -> hkind.
Variable deep : bool.

Lemma construct_inv cx rq : ctx_inv cx -> ctx_inv (fst (fst (construct policy cx rq))) /\ handler_inv (snd (fst (construct policy cx rq))).
Proof. intros H. unfold construct. cbn [fst snd]. split; [exact H|apply mk_handler_inv]. Qed.

Lemma s_pat_apply_inv progs : forall cx, ctx_inv cx -> ctx_inv (fst (s_pat_apply policy cx progs)).
Proof.
  induction progs as [|d r IH]; intros cx H; [exact H|]. cbn [s_pat_apply].
  destruct (construct policy cx (req_of_pd d)) as [[cx1 hh] ev] eqn:Ec.
  pose proof (construct_inv cx (req_of_pd d) H) as [H1 H2]. rewrite Ec in H1, H2. cbn [fst snd] in H1, H2.
  specialize (IH (queue cx1 (ChInsert (pd_pid d) hh)) (queue_inv cx1 (ChInsert (pd_pid d) hh) H1 H2)).
  destruct (s_pat_apply policy (queue cx1 (ChInsert (pd_pid d) hh)) r) as [cx3 ev3]. exact IH.
Qed.

Lemma pat_section_total ps cx h tsh data origin : pat_iok ps -> ctx_inv cx -> bytes_ok data -> (12 <= length data)%nat ->
  exists ps' cx' ev, pat_section policy ps cx h tsh data origin = Ok (ps', cx', ev) /\ pat_iok ps' /\ ctx_inv cx'.
Proof.
  unfold pat_iok. intros Hr Hcx Hb Hl. unfold pat_section, usub.
  replace (Nat.leb 4 (length data)) with true by (symmetry; apply Nat.leb_le; lia). cbn [bind].
  unfold slice, SCH_SIZE, TSH_SIZE.
  replace (Nat.leb (3 + 5) (length data - 4)) with true by (symmetry; apply Nat.leb_le; lia).
  replace (Nat.leb (length data - 4) (length data)) with true by (symmetry; apply Nat.leb_le; lia). cbn [andb bind].
  destruct (negb (ch_table_id h =? 0)); [exists ps, cx, []; auto|].
  set (body := firstn (length data - 4 - (3 + 5)) (skipn (3 + 5) data)).
  assert (Hbody : bytes_ok body) by (apply Forall_firstn, Forall_skipn, Hb).
  rewrite (c16_pat body Hbody). cbn [bind].
  pose proof (s_pat_pids body) as Hp.
  rewrite pat_entries_spec by (unfold pids_ok; eapply Forall_impl; [|exact Hp]; cbn; intros; lia). cbn [bind].
  set (seen := fold_left (fun s d => bs_insert (pd_pid d) s) (s_pat body) []).
  set (reg := fold_left (fun s d => bs_insert (pd_pid d) s) (s_pat body) (pat_registered ps)).
  assert (Hseen : reg_ok seen) by (apply fold_insert_ok; [exact Hp|constructor]).
  assert (Hreg : reg_ok reg) by (apply fold_insert_ok; assumption).
  rewrite queue_removes_spec by (apply bs_difference_ok, Hreg). cbn [bind].
  eexists _, _, _. split; [reflexivity|]. split; [exact Hseen|].
  unfold ctx_inv. cbn [cx_changes]. apply Forall_app. split; [apply s_pat_apply_inv, Hcx|].
  apply Forall_forall. intros ch Hch. apply in_map_iff in Hch. destruct Hch as (q & <- & _). exact I.
Qed.


Definition stream_fit (s : stream_info) : Prop :=
  bytes_ok (si_data s) /\ (5 <= length (si_data s))%nat /\ (5 + s_es_info_length (si_data s) <= length (si_data s))%nat.

Lemma pmt_entries_total program_pid pmt_data (ss : list stream_info) : forall cx seen reg,
  bytes_ok pmt_data -> s_pmt_accept pmt_data = ROk pmt_data ->
  Forall stream_fit ss -> reg_ok seen -> reg_ok reg -> ctx_inv cx ->
  exists cx' seen' reg' ev, pmt_entries policy deep program_pid pmt_data cx seen reg ss = Ok (cx', seen', reg', ev) /\
                            reg_ok seen' /\ reg_ok reg' /\ ctx_inv cx'.
Proof.
  induction ss as [|s r IH]; intros cx seen reg Hd Hacc Hss Hs Hr Hcx.
  - eexists _, _, _, _. split; [reflexivity|]. auto.
  - inversion Hss as [|? ? (Hsb & Hsl & Hfit) Hss']; subst. cbn [pmt_entries].
    assert (Hl : (4 <= length pmt_data)%nat) by (unfold s_pmt_accept in Hacc; destruct (Nat.ltb_spec (length pmt_data) 4); [discriminate|lia]).
    assert (Eo : exists o, (if deep then do a <- obs_pmt_section pmt_data; do b <- obs_stream s; Ok (a ++ b)
                            else do pcr <- pmt_pcr_pid pmt_data; Ok [pcr]) = Ok o).
    { destruct deep.
      - destruct (obs_pmt_section_total pmt_data Hd Hacc) as [a Ea]. rewrite Ea. cbn [bind].
        destruct (obs_stream_total s Hsb Hsl Hfit) as [b Eb]. rewrite Eb. cbn [bind]. eauto.
      - destruct (c16_pcr_pid pmt_data Hd Hl) as (E3 & _). rewrite E3. cbn [bind]. eauto. }
    destruct Eo as [oo Eo]. rewrite Eo. clear Eo.
    destruct s as [o d]. cbn [si_data] in *.
    destruct (c16_stream_fields o d Hsb Hsl) as (E1 & E2 & Hle). rewrite E1, E2. cbn [bind].
    match goal with |- context [construct policy cx ?rq] =>
      pose proof (construct_inv cx rq Hcx) as [Hc1 Hc2]; destruct (construct policy cx rq) as [[cx1 hh] ev] eqn:Ec end.
    cbn [fst snd] in Hc1, Hc2.
    unfold bs_insert_checked, assert, BITSET_CAPACITY. replace (s_elementary_pid d <? 8192) with true by lia. cbn [bind].
    destruct (IH (queue cx1 (ChInsert (s_elementary_pid d) hh)) (bs_insert (s_elementary_pid d) seen) (bs_insert (s_elementary_pid d) reg))
      as (cx' & seen' & reg' & ev' & E & H1 & H2 & H3); auto using bs_insert_ok, queue_inv.
    rewrite E. cbn [bind]. eexists _, _, _, _. split; [reflexivity|]. auto.
Qed.

Lemma pmt_section_total ps cx h tsh data origin : pmt_iok ps -> ctx_inv cx -> bytes_ok data -> (12 <= length data)%nat ->
  exists ps' cx' ev, pmt_section policy deep ps cx h tsh data origin = Ok (ps', cx', ev) /\ pmt_iok ps' /\ ctx_inv cx'.
Proof.
  unfold pmt_iok. intros Hr Hcx Hb Hl. unfold pmt_section, usub.
  replace (Nat.leb 4 (length data)) with true by (symmetry; apply Nat.leb_le; lia). cbn [bind].
  unfold slice, SCH_SIZE, TSH_SIZE.
  replace (Nat.leb (3 + 5) (length data - 4)) with true by (symmetry; apply Nat.leb_le; lia).
  replace (Nat.leb (length data - 4) (length data)) with true by (symmetry; apply Nat.leb_le; lia). cbn [andb bind].
  set (body := firstn (length data - 4 - (3 + 5)) (skipn (3 + 5) data)).
  assert (Hbody : bytes_ok body) by (apply Forall_firstn, Forall_skipn, Hb).
  rewrite (c16_pmt_accept body Hbody). cbn [bind].
  destruct (s_pmt_accept body) as [sd|e] eqn:Eacc; [|exists ps, cx, []; auto].
  assert (Hsd : sd = body).
  { unfold s_pmt_accept in Eacc. destruct (Nat.ltb (length body) 4); [discriminate|].
    destruct (Nat.ltb (length body) (s_program_info_length body + 4)); [discriminate|]. inversion Eacc; reflexivity. }
  subst sd.
  destruct (negb (ch_table_id h =? 2)); [exists ps, cx, []; auto|].
  rewrite (c16_pmt_streams body Hbody Eacc). cbn [bind].
  assert (H4 : (4 <= length body)%nat).
  { unfold s_pmt_accept in Eacc. destruct (Nat.ltb_spec (length body) 4); [discriminate|lia]. }
  set (ss := s_streams (S (length body - (4 + s_program_info_length body))) (4 + s_program_info_length body)
                       (skipn (4 + s_program_info_length body) body)).
  assert (Hss : Forall stream_fit ss) by (apply s_streams_fit, Forall_skipn, Hbody).
  assert (Hnil : reg_ok []) by constructor.
  destruct (pmt_entries_total (pmt_pid ps) body ss cx [] (pmt_registered ps) Hbody Eacc Hss Hnil Hr Hcx)
    as (cx1 & seen & reg & ev & E & Hs & Hg & Hcx1).
  rewrite E. cbn [bind].
  rewrite queue_removes_spec by (apply bs_difference_ok, Hg). cbn [bind].
  eexists _, _, _. split; [reflexivity|]. split; [exact Hs|].
  unfold ctx_inv. cbn [cx_changes]. apply Forall_app. split; [exact Hcx1|].
  apply Forall_forall. intros ch Hch. apply in_map_iff in Hch. destruct Hch as (q & <- & _). exact I.
Qed.
End ProcTotal.

(* ---- handlers and the dispatcher ---- *)
Definition filters_inv (fs : filters) : Prop := wf fs /\ forall pid h, filters_get fs pid = Some h -> handler_inv h.

Lemma filters_inv_empty : filters_inv filters_empty.
Proof. split; [apply wf_empty|]. intros pid h H. unfold filters_get in H. cbn in H. destruct (pid <? 0); discriminate. Qed.

Lemma insert_inv fs pid h : filters_inv fs -> handler_inv h ->
  exists fs', filters_insert fs pid h = Ok fs' /\ filters_inv fs' /\ filters_get fs' pid = Some h.
Proof.
  intros [Hw Hh] Hi. destruct (insert_spec fs pid h Hw) as (fs' & E & Hw' & G & O).
  exists fs'. split; [exact E|]. split; [|exact G]. split; [exact Hw'|].
  intros p h' Hg. destruct (N.eq_dec p pid) as [->|Hn]; [rewrite G in Hg; inversion Hg; subst; exact Hi|].
  rewrite O in Hg by assumption. eapply Hh; eassumption.
Qed.

Lemma set_slot_inv fs pid h : filters_inv fs -> pid < f_len fs -> handler_inv h -> filters_inv (set_slot fs pid (Some h)).
Proof.
  intros [Hw Hh] Hp Hi. split; [apply wf_set_slot; assumption|].
  intros p h' Hg. destruct (N.eq_dec p pid) as [->|Hn]; [rewrite get_set_same in Hg by assumption; inversion Hg; subst; exact Hi|].
  rewrite get_set_other in Hg by assumption. eapply Hh; eassumption.
Qed.

Lemma remove_inv fs pid : filters_inv fs -> filters_inv (filters_remove fs pid).
Proof.
  intros [Hw Hh]. destruct (remove_spec fs pid Hw) as (Hw' & G & O). split; [exact Hw'|].
  intros p h' Hg. destruct (N.eq_dec p pid) as [->|Hn]; [rewrite G in Hg; discriminate|].
  rewrite O in Hg by assumption. eapply Hh; eassumption.
Qed.

Lemma apply_changes_inv cs : forall fs, filters_inv fs -> Forall change_inv cs ->
  exists fs', apply_changes fs cs = Ok fs' /\ filters_inv fs'.
Proof.
  induction cs as [|[pid h|pid] cs IH]; intros fs Hf Hc.
  - exists fs. auto.
  - inversion Hc as [|? ? Hh Hc']; subst. cbn [apply_changes].
    destruct (insert_inv fs pid h Hf Hh) as (fs1 & E & Hf1 & _). rewrite E. cbn [bind]. apply IH; assumption.
  - inversion Hc as [|? ? _ Hc']; subst. cbn [apply_changes]. apply IH; [apply remove_inv, Hf|assumption].
Qed.

Section DemuxTotal.
Variable policy : request -> hkind.
Variable scripts : N -> nat -> list action.
Variable fz : bool.

Lemma queue_actions_total acts : forall cx, ctx_inv cx ->
  exists cx' ev, queue_actions cx acts = Ok (cx', ev) /\ ctx_inv cx'.
Proof.
  induction acts as [|[pid k|pid] r IH]; intros cx H.
  - exists cx, []. auto.
  - cbn [queue_actions].
    destruct (IH (queue {| cx_changes := cx_changes cx; cx_serial := cx_serial cx + 1 |} (ChInsert pid (mk_handler k (cx_serial cx)))))
      as (cx' & ev & E & H'); [apply queue_inv; [exact H|apply mk_handler_inv]|].
    rewrite E. cbn [bind fst snd]. exists cx', ev. auto.
  - cbn [queue_actions]. destruct (IH (queue cx (ChRemove pid))) as (cx' & ev & E & H'); [apply queue_inv; [exact H|exact I]|].
    rewrite E. cbn [bind fst snd]. exists cx', ev. auto.
Qed.

(* what packet-begin's observer needs: the header it is handed was accepted by PesHeader::from_bytes *)
Definition begin_ok (e : es_event) : Prop :=
  match e with EsBeginPacket _ hb => bytes_ok hb /\ pes_header_from_bytes hb = Ok (Some hb) | _ => True end.

Lemma header_accept_self d h : pes_header_from_bytes d = Ok (Some h) -> h = d.
Proof.
  unfold pes_header_from_bytes. destruct (Nat.ltb (length d) PES_FIXED_HEADER_SIZE); [discriminate|].
  destruct d as [|d0 [|d1 [|d2 r]]]; cbn [idx nth_error bind]; try discriminate.
  match goal with |- context [if ?c then _ else _] => destruct c end; [discriminate|]. intros E; inversion E; reflexivity.
Qed.

Lemma pf_consume_begin_ok f pk f' evs : pkt_ok pk -> pf_consume f pk = Ok (f', evs) -> Forall begin_ok evs.
Proof.
  intros (Hl & Hok). destruct (c12_split pk Hl Hok) as (_ & Hpl).
  unfold pf_consume. rewrite Hpl.
  assert (Hb : forall o d, range_bytes pk (s_payload_range (s_afc pk) (s_af_length pk)) = Some (o, d) -> bytes_ok d).
  { intros o d E. destruct (s_payload_range _ _) as [[o' l']|]; cbn in E; [|discriminate]. inversion E; subst. apply Forall_firstn, Forall_skipn, Hok. }
  destruct (range_bytes pk (s_payload_range (s_afc pk) (s_af_length pk))) as [[o d]|] eqn:Er.
  - specialize (Hb o d eq_refl).
    destruct (pf_is_continuous f pk) as [cont|]; cbn [bind]; [|discriminate].
    destruct cont; destruct (pf_state f); cbn [negb pes_state_eqb];
      (destruct (pkt_continuity_counter pk) as [c|]; cbn [bind]; [|discriminate]);
      (destruct (pkt_payload_unit_start_indicator pk) as [[|]|]; cbn [bind pes_state_eqb]; [| |discriminate]);
      try (destruct (pes_header_from_bytes d) as [[hb|]|] eqn:Eh; cbn [bind]; [| |discriminate]);
      try (destruct (Nat.eqb (length d) 0); cbn [negb]);
      intros E; inversion E; subst; repeat (apply Forall_cons || apply Forall_nil); cbn [begin_ok]; try exact I;
      pose proof (header_accept_self _ _ Eh); subst; split; assumption.
  - destruct (pf_is_continuous f pk) as [cont|]; cbn [bind]; [|discriminate].
    destruct cont; destruct (pf_state f); cbn [negb pes_state_eqb];
      (destruct (pkt_continuity_counter pk) as [c|]; cbn [bind]; [|discriminate]);
      (destruct (pkt_payload_unit_start_indicator pk) as [[|]|]; cbn [bind pes_state_eqb]; [| |discriminate]);
      intros E; inversion E; subst; repeat (apply Forall_cons || apply Forall_nil); cbn [begin_ok]; exact I.
Qed.
End DemuxTotal.

Section DemuxTotal2.
Variable policy : request -> hkind.
Variable scripts : N -> nat -> list action.
Variable fz deep : bool.

Lemma es_obs_total_shallow idx e : begin_ok e -> exists o, es_obs false idx e = Ok o.
Proof.
  destruct e as [|off hb| | |]; cbn [es_obs begin_ok]; eauto.
  intros (Hb & Hh).
  assert (Hacc : Spec.PesSpec.s_pes_accept hb = true).
  { rewrite Proofs.PesProofs.c14_header in Hh by assumption. destruct (Spec.PesSpec.s_pes_accept hb); [reflexivity|discriminate]. }
  rewrite Proofs.PesProofs.c14_contents by assumption.
  destruct (Spec.PesSpec.s_headerless (Spec.PesSpec.s_stream_id hb)); cbn [bind]; [eauto|].
  destruct (Spec.PesSpec.s_ppc_accept (skipn 6 hb)) eqn:Ea; cbn [bind]; [|eauto].
  destruct (Proofs.PesProofs.c14_fields (skipn 6 hb)) as (_ & _ & _ & _ & _ & _ & _ & _ & _ & _ & Hpay); [apply Forall_skipn, Hb|exact Ea|].
  rewrite Hpay. cbn [bind]. eauto.
Qed.

Lemma es_obs_total_deep idx e : begin_ok e -> exists o, es_obs true idx e = Ok o.
Proof.
  destruct e as [|off hb| | |]; cbn [es_obs begin_ok]; eauto.
  intros (Hb & Hh).
  assert (Hacc : s_pes_accept hb = true).
  { rewrite c14_header in Hh by assumption. destruct (s_pes_accept hb); [reflexivity|discriminate]. }
  assert (Hl : (6 <= length hb)%nat).
  { unfold s_pes_accept in Hacc. apply andb_true_iff in Hacc. destruct Hacc as [H _]. apply Nat.leb_le in H. exact H. }
  rewrite c14_contents by assumption.
  destruct (c14_header_fields hb Hb Hl) as (Es & El). rewrite Es, El.
  destruct (s_headerless (s_stream_id hb)); cbn [bind]; [eauto|].
  destruct (s_ppc_accept (skipn 6 hb)) eqn:Ea; cbn [bind]; [|eauto].
  destruct (c14_fields (skipn 6 hb)) as (_ & _ & _ & _ & _ & _ & _ & _ & _ & _ & Hpay); [apply Forall_skipn, Hb|exact Ea|].
  rewrite Hpay. cbn [bind].
  destruct (obs_ppc_total false idx (off + 6) (skipn 6 hb)) as [o Eo]; [apply Forall_skipn, Hb|exact Ea|].
  rewrite Eo. cbn [bind]. eauto.
Qed.

Lemma es_obs_total idx e : begin_ok e -> exists o, es_obs deep idx e = Ok o.
Proof. destruct deep; [apply es_obs_total_deep|apply es_obs_total_shallow]. Qed.

Lemma es_events_total s idx evs : Forall begin_ok evs -> exists l, es_events deep s idx evs = Ok l.
Proof.
  induction evs as [|e r IH]; intros H; [exists []; reflexivity|].
  inversion H as [|? ? He Hr]; subst. cbn [es_events].
  destruct (es_obs_total idx e He) as [o Eo]. rewrite Eo. cbn [bind].
  destruct (IH Hr) as [l El]. rewrite El. cbn [bind]. eauto.
Qed.

Lemma handler_consume_total hd cx i pk : handler_inv hd -> ctx_inv cx -> pkt_ok pk ->
  exists hd' cx' ev, handler_consume policy scripts fz deep hd cx i pk = Ok (hd', cx', ev) /\ handler_inv hd' /\ ctx_inv cx'.
Proof.
  intros Hh Hc Hp. destruct hd as [s c|s c|s f|s|s id n]; cbn [handler_consume].
  - destruct (spc_consume_total fz pat_state ctx event (pat_section policy) pat_iok ctx_inv
                (fun i0 cx0 h tsh data origin Hi Hx Hb Hl => pat_section_total policy i0 cx0 h tsh data origin Hi Hx Hb Hl)
                c cx pk Hh Hc Hp) as (c' & cx' & ev & E & Hc' & Hx').
    rewrite E. cbn [bind fst snd]. eexists _, _, _. split; [reflexivity|]. split; assumption.
  - destruct (spc_consume_total fz pmt_state ctx event (pmt_section policy deep) pmt_iok ctx_inv
                (fun i0 cx0 h tsh data origin Hi Hx Hb Hl => pmt_section_total policy deep i0 cx0 h tsh data origin Hi Hx Hb Hl)
                c cx pk Hh Hc Hp) as (c' & cx' & ev & E & Hc' & Hx').
    rewrite E. cbn [bind fst snd]. eexists _, _, _. split; [reflexivity|]. split; assumption.
  - destruct Hp as [Hl Hok]. destruct (pf_consume_total f pk Hl Hok) as [[f' evs] E]. rewrite E. cbn [bind fst snd].
    destruct (es_events_total s i evs (pf_consume_begin_ok f pk f' evs (conj Hl Hok) E)) as [l El]. rewrite El. cbn [bind].
    eexists _, _, _. split; [reflexivity|]. split; [exact I|exact Hc].
  - assert (Eo : exists o, (if deep then obs_packet pk else Ok []) = Ok o) by (destruct deep; [apply obs_packet_total, Hp|eauto]).
    destruct Eo as [o Eo]. rewrite Eo. cbn [bind]. eexists _, _, _. split; [reflexivity|]. split; [exact I|exact Hc].
  - destruct (queue_actions_total (scripts id n) cx Hc) as (cx' & ev & E & Hc'). rewrite E. cbn [bind fst snd].
    eexists _, _, _. split; [reflexivity|]. split; [exact I|exact Hc'].
Qed.

Lemma clear_changes_inv cx : ctx_inv (clear_changes cx).
Proof. unfold ctx_inv, clear_changes. cbn. constructor. Qed.

(* one packet of the per-packet dispatcher: total, and the invariants survive *)
Lemma spec_packet_total fs cx i pk : filters_inv fs -> ctx_inv cx -> pkt_ok pk ->
  exists fs' cx' ev, spec_packet policy scripts fz deep fs cx (i, pk) = Ok (fs', cx', ev) /\ filters_inv fs' /\ ctx_inv cx'.
Proof.
  intros Hf Hc Hp. pose proof Hp as (Hl & Hok). cbn [spec_packet].
  destruct (c12_fields pk Hl Hok) as (Htei & _ & _ & Hpid & _ & (tsc & Htsc & _) & _).
  rewrite Hpid. cbn [bind].
  assert (Hr0 : exists fs1 cx1 ev1,
     (if filters_contains fs (s_pid pk) then Ok (fs, cx, [])
      else let '(cx1, h, ev) := construct policy cx (RqByPid (s_pid pk)) in
           do fs1 <- filters_insert fs (s_pid pk) h; Ok (fs1, cx1, ev)) = Ok (fs1, cx1, ev1) /\
     filters_inv fs1 /\ ctx_inv cx1 /\ exists hd, filters_get fs1 (s_pid pk) = Some hd).
  { destruct (filters_contains fs (s_pid pk)) eqn:Ec.
    - exists fs, cx, []. split; [reflexivity|]. split; [exact Hf|]. split; [exact Hc|]. apply contains_get. exact Ec.
    - unfold construct.
      destruct (insert_inv fs (s_pid pk) (mk_handler (policy (RqByPid (s_pid pk))) (cx_serial cx)) Hf (mk_handler_inv _ _)) as (fs1 & E & Hf1 & G).
      rewrite E. cbn [bind]. eexists _, _, _. split; [reflexivity|]. split; [exact Hf1|]. split; [exact Hc|eauto]. }
  destruct Hr0 as (fs1 & cx1 & ev1 & E0 & Hf1 & Hc1 & hd & Hg). rewrite E0. cbn [bind]. rewrite Hg.
  rewrite Htei. cbn [bind]. destruct (s_tei pk); [eexists _, _, _; split; [reflexivity|split; assumption]|].
  rewrite Htsc. cbn [bind]. destruct (tsc_is_scrambled tsc); [eexists _, _, _; split; [reflexivity|split; assumption]|].
  destruct (handler_consume_total hd cx1 i pk) as (hd' & cx2 & ev2 & E2 & Hh' & Hc2); [eapply (proj2 Hf1); eassumption|exact Hc1|exact Hp|].
  rewrite E2. cbn [bind].
  destruct (apply_changes_inv (cx_changes cx2) (set_slot fs1 (s_pid pk) (Some hd'))) as (fs3 & E3 & Hf3).
  - apply set_slot_inv; [exact Hf1|eapply get_some_lt; eassumption|exact Hh'].
  - exact Hc2.
  - rewrite E3. cbn [bind]. eexists _, _, _. split; [reflexivity|]. split; [exact Hf3|apply clear_changes_inv].
Qed.

Lemma spec_push_total pkts : forall fs cx, filters_inv fs -> ctx_inv cx -> Forall (fun ip => pkt_ok (snd ip)) pkts ->
  exists fs' cx' ev, spec_push policy scripts fz deep fs cx pkts = Ok (fs', cx', ev) /\ filters_inv fs' /\ ctx_inv cx'.
Proof.
  induction pkts as [|[i pk] r IH]; intros fs cx Hf Hc Hp.
  - exists fs, cx, []. auto.
  - inversion Hp as [|? ? Hpk Hr]; subst. cbn [snd] in Hpk. cbn [spec_push].
    destruct (spec_packet_total fs cx i pk Hf Hc Hpk) as (fs1 & cx1 & e1 & E1 & Hf1 & Hc1). rewrite E1. cbn [bind].
    destruct (IH fs1 cx1 Hf1 Hc1 Hr) as (fs2 & cx2 & e2 & E2 & Hf2 & Hc2). rewrite E2. cbn [bind].
    eexists _, _, _. split; [reflexivity|]. split; assumption.
Qed.

Lemma chunks_pure_ok n : forall base buf, (n * 188 <= length buf)%nat -> bytes_ok buf ->
  Forall (fun ip => pkt_ok (snd ip)) (chunks_pure n base buf).
Proof.
  induction n as [|n IH]; intros base buf Hl Hb; [constructor|]. cbn [chunks_pure].
  apply Forall_app. split.
  - destruct (good_sync (firstn 188 buf)); [|constructor]. constructor; [|constructor]. cbn [snd]. split.
    + rewrite firstn_length. lia.
    + apply Forall_firstn, Hb.
  - apply IH; [rewrite skipn_length; lia|apply Forall_skipn, Hb].
Qed.

Lemma push_total fs cx base buf : filters_inv fs -> ctx_inv cx -> bytes_ok buf ->
  exists fs' cx' ev, push policy scripts fz deep fs cx base buf = Ok (fs', cx', ev) /\ filters_inv fs' /\ ctx_inv cx'.
Proof.
  intros Hf Hc Hb. rewrite push_spec. apply spec_push_total; [assumption|assumption|].
  apply chunks_pure_ok; [|exact Hb].
  pose proof (Nat.mul_div_le (length buf) 188). lia.
Qed.

Lemma pushes_total bufs : forall fs cx base, filters_inv fs -> ctx_inv cx -> Forall bytes_ok bufs ->
  exists fs' cx' ev, pushes policy scripts fz deep fs cx base bufs = Ok (fs', cx', ev) /\ filters_inv fs' /\ ctx_inv cx'.
Proof.
  induction bufs as [|b r IH]; intros fs cx base Hf Hc Hb.
  - exists fs, cx, []. auto.
  - inversion Hb as [|? ? Hb1 Hbr]; subst. cbn [pushes].
    destruct (push_total fs cx base b Hf Hc Hb1) as (fs1 & cx1 & e1 & E1 & Hf1 & Hc1). rewrite E1. cbn [bind].
    destruct (IH fs1 cx1 (base + n2 (length b)) Hf1 Hc1 Hbr) as (fs2 & cx2 & e2 & E2 & Hf2 & Hc2). rewrite E2. cbn [bind].
    eexists _, _, _. split; [reflexivity|]. split; assumption.
Qed.

(* C01: for every list of byte chunks of any lengths (packet-aligned or not), every policy and every script
   of handler changes, in the normal build and with the CRC comparison bypassed (cfg(fuzzing)):
   Demultiplex::new followed by the pushes never panics *)
Lemma c01_run_demux_total bufs : Forall bytes_ok bufs ->
  exists fs cx ev, run_demux policy scripts fz deep bufs = Ok (fs, cx, ev).
Proof.
  intros Hb. unfold run_demux, demux_new, construct. cbn [cx_serial cx_changes].
  destruct (insert_inv filters_empty 0 (mk_handler (policy (RqByPid 0)) 0) filters_inv_empty (mk_handler_inv _ _)) as (fs0 & E0 & Hf0 & _).
  rewrite E0. cbn [bind].
  destruct (pushes_total bufs fs0 {| cx_changes := []; cx_serial := 0 + 1 |} 0 Hf0) as (fs1 & cx1 & e1 & E1 & _ & _).
  - unfold ctx_inv. cbn. constructor.
  - exact Hb.
  - rewrite E1. cbn [bind]. eauto.
Qed.
End DemuxTotal2.
