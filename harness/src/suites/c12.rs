//! C12: transport packet header fields and payload / adaptation-field split.
use crate::util::*;

fn mk(rng: &mut Rng, b1: u8, b2: u8, b3: u8, b4: u8) -> Vec<u8> {
    let mut p = rng.bytes(188);
    p[0] = 0x47; p[1] = b1; p[2] = b2; p[3] = b3; p[4] = b4;
    p
}

pub fn gen(tier: &str, seed: u64, emit: &mut dyn FnMut(String)) {
    let mut rng = Rng::new(seed ^ 0xC12);
    // exhaustive over header bytes 1,2 (tei, pusi, priority, pid) — other bytes random
    for b1 in 0..=255u8 { for b2 in 0..=255u8 {
        let (b3, b4) = (rng.byte(), rng.byte());
        emit(format!("P12 {}", hex(&mk(&mut rng, b1, b2, b3, b4))));
    } }
    // exhaustive over header byte 3 (scrambling, adaptation control, counter) x adaptation_field_length
    for b3 in 0..=255u8 { for b4 in 0..=255u8 {
        let (b1, b2) = (rng.byte(), rng.byte());
        emit(format!("P12 {}", hex(&mk(&mut rng, b1, b2, b3, b4))));
    } }
    // the PIDs with a meaning of their own (PAT, CAT, null packets, ...) and their neighbours x every value of header
    // byte 3 x boundary and random adaptation_field_lengths: an accessor that treats one of them specially shows here
    for pid in [0u16, 1, 2, 0x10, 0x11, 0x1ffb, 0x1ffe, 0x1fff] { for b3 in 0..=255u8 {
        for b4 in [0u8, 1, 2, 100, 181, 182, 183, 184, 255] {
            let b1 = (rng.byte() & 0xe0) | (pid >> 8) as u8;
            emit(format!("P12 {}", hex(&mk(&mut rng, b1, pid as u8, b3, b4))));
        }
    } }
    // constant filler behind the header (stuffing as real multiplexers emit it: flags byte 0x00 / 0xff / PCR flag / random, then
    // all 0xff or all 0x00) x every value of header byte 3 x boundary adaptation_field_lengths: an accessor that looks at
    // the bytes behind the header to decide what the header means shows here
    for b3 in 0..=255u8 { for b4 in [0u8, 1, 2, 100, 181, 182, 183, 184, 255] {
        for flags in [Some(0x00u8), Some(0xff), Some(0x10), None] { for fill in [0xffu8, 0x00] {
            let (b1, b2) = (rng.byte(), rng.byte());
            let mut p = vec![fill; 188];
            p[0] = 0x47; p[1] = b1; p[2] = b2; p[3] = b3; p[4] = b4; p[5] = flags.unwrap_or_else(|| rng.byte());
            emit(format!("P12 {}", hex(&p)));
        } }
    } }
    // bad sync bytes
    for s in 0..=255u8 {
        let mut p = rng.bytes(188); p[0] = s;
        emit(format!("P12 {}", hex(&p)));
    }
    if tier == "thorough" {
        // every (b1,b3) pair x every boundary adaptation_field_length, the low PID byte random
        for b3 in 0..=255u8 { for b1 in 0..=255u8 { for b4 in [0u8, 1, 2, 181, 182, 183, 184, 255] {
            let b2 = rng.byte();
            emit(format!("P12 {}", hex(&mk(&mut rng, b1, b2, b3, b4))));
        } } }
    }
}
