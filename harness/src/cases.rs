//! Execution of one case line against the real crate.  `None` = the implementation panicked.
use crate::app;
use crate::obs;
use crate::tobs;
use crate::util::*;

pub fn unhex(tok: &str) -> Vec<u8> {
    let s = tok.strip_prefix('x').expect("hex token");
    (0..s.len() / 2).map(|i| u8::from_str_radix(&s[2 * i..2 * i + 2], 16).unwrap()).collect()
}

pub fn exec_case(line: &str) -> Option<Vec<u64>> {
    let toks: Vec<&str> = line.split_whitespace().filter(|t| !t.starts_with('#')).collect();
    match toks[0] {
        "PKT" => { let b = unhex(toks[1]); guarded(move || obs::run_packet(&b)) }
        "P12" => { let b = unhex(toks[1]); guarded(move || obs::run_packet_c12(&b)) }
        "TSB" => { let b = unhex(toks[1]); guarded(move || obs::run_tsb(&b)) }
        "TSU" => { let v: u64 = toks[1].parse().unwrap(); guarded(move || obs::run_tsu(v)) }
        "TSW" => { let a: u64 = toks[1].parse().unwrap(); let c: u64 = toks[2].parse().unwrap(); guarded(move || obs::run_tsw(a, c)) }
        "CRP" => { let a: u64 = toks[1].parse().unwrap(); let c: u64 = toks[2].parse().unwrap(); guarded(move || obs::run_crp(a, c)) }
        "CRS" => { let b = unhex(toks[1]); guarded(move || obs::run_crs(&b)) }
        "PES" => { let b = unhex(toks[1]); guarded(move || obs::run_pes(&b)) }
        "PPC" => { let b = unhex(toks[1]); guarded(move || obs::run_ppc(&b)) }
        "CRC" => { let b = unhex(toks[1]); guarded(move || vec![mpeg2ts_reader::mpegts_crc::sum32(&b) as u64]) }
        "DSC1" => { let b = unhex(toks[1]); guarded(move || tobs::run_dsc1(&b)) }
        "DSC" => { let b = unhex(toks[1]); guarded(move || tobs::run_dsc(&b)) }
        "PAT" => { let b = unhex(toks[1]); guarded(move || tobs::run_pat(&b)) }
        "PMT" => { let b = unhex(toks[1]); guarded(move || tobs::run_pmt(&b)) }
        "SEC" => { let f: u64 = toks[1].parse().unwrap(); let p: Vec<Vec<u8>> = toks[2..].iter().map(|t| unhex(t)).collect(); guarded(move || app::run_sec(f, &p)) }
        "ALLOC" => { let w = unhex(toks[1]); let s = unhex(toks[2]); guarded(move || crate::quiet::run_alloc(&w, &s)) }
        "SECA" => { let c: u64 = toks[1].parse().unwrap(); let nw: usize = toks[2].parse().unwrap(); let p: Vec<Vec<u8>> = toks[3..].iter().map(|t| unhex(t)).collect();
                    guarded(move || crate::quiet::run_seca(c & 1 != 0, &p[..nw], &p[nw..])) }
        "MEM" => { let b = unhex(toks[1]); guarded(move || crate::quiet::run_mem(&b)) }
        "PESF" => { let f: u64 = toks[1].parse().unwrap(); let p: Vec<Vec<u8>> = toks[2..].iter().map(|t| unhex(t)).collect(); guarded(move || app::run_pesf(f, &p)) }
        "DMX" => { let f: u64 = toks[1].parse().unwrap(); let s = app::parse_scripts(toks[2]); let p: Vec<Vec<u8>> = toks[3..].iter().map(|t| unhex(t)).collect();
                   guarded(move || app::run_dmx(f, s, &p)) }
        "DMXQ" => { let f: u64 = toks[1].parse().unwrap(); let s = app::parse_scripts(toks[2]); let p: Vec<Vec<u8>> = toks[3..].iter().map(|t| unhex(t)).collect();
                    guarded(move || app::run_dmx(f | 4, s, &p)) }
        "AF" => { let b = unhex(toks[1]); guarded(move || obs::run_af(&b)) }
        k => panic!("unknown case kind {}", k),
    }
}
