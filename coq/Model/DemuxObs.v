(* Model/DemuxObs.v — encoding of demultiplexer traces, the recording application's policy, and the
   suite entry points. *)
From TS Require Import Base.Res Model.Timestamp Model.Packet Model.PacketObs Model.Pes Model.PesObs
  Model.Descriptor Model.Tables Model.TablesObs Model.PesFilter Model.Crc Model.Psi Model.Demux.
Open Scope N_scope.

Definition enc_request (r : request) : list N :=
  match r with
  | RqByPid p => [0; p]
  | RqByStream pp st ep o => [1; pp; st; ep; n2 (length o)] ++ o
  | RqPmt pid pn => [2; pid; pn]
  | RqNit pid => [3; pid]
  end.

Definition enc_es (index : N) (e : es_event) : list N :=
  match e with
  | EsStartStream => [0]
  | EsBeginPacket off hb => [1]
  | EsContinuePacket off d => [2; index + n2 off; n2 (length d)]
  | EsEndPacket => [3]
  | EsContinuityError => [4]
  end.

Definition enc_event (e : event) : list N :=
  match e with
  | EvConstruct s rq => 1 :: s :: enc_request rq
  | EvPacket s idx o => [2; s; idx; n2 (length o)] ++ o
  | EvEs s idx ev o => 3 :: s :: enc_es idx ev ++ n2 (length o) :: o
  end.

(* the recording application: PAT on PID 0, PMTs as announced, PES consumers for stream types below
   0x80 other than 0x05 (private sections), recorders for everything else; PIDs that have a script get
   a scripted handler instead of a recorder *)
Definition is_pes_type (st : N) : bool := (st <? 128) && negb (st =? 5).

Definition std_policy (script_pids : list N) (r : request) : hkind :=
  match r with
  | RqByPid p => if p =? 0 then KPat else if existsb (N.eqb p) script_pids then KScript p else KRec
  | RqByStream _ st _ _ => if is_pes_type st then KPes else KRec
  | RqPmt pid pn => KPmt pid pn
  | RqNit _ => KRec
  end.

(* scripts as data: (pid, [actions of 1st packet; actions of 2nd packet; ...]) *)
Definition script_table := list (N * list (list action)).
Fixpoint lookup_script (t : script_table) (id : N) : list (list action) :=
  match t with [] => [] | (k, v) :: r => if k =? id then v else lookup_script r id end.
Definition scripts_of (t : script_table) (id : N) (n : nat) : list action := nth n (lookup_script t id) [].

Definition run_dmx (flags : N) (t : script_table) (bufs : list (list N)) : option (list N) :=
  let deep := N.testbit flags 0 in
  let fuzzing := N.testbit flags 1 in
  match run_demux (std_policy (map fst t)) (scripts_of t) fuzzing deep bufs with
  | Ok (_, _, evs) => Some (concat (map enc_event evs))
  | Panic _ => None
  end.

(* a PES packet filter driven directly with a sequence of 188-byte packets (C08 / C09 suites) *)
Fixpoint run_pesf_loop (deep : bool) (f : pes_filter) (idx : N) (pkts : list (list N)) : res (list N) :=
  match pkts with
  | [] => Ok []
  | p :: rest =>
      do pk <- pkt_new p;
      do r <- handler_consume (std_policy []) (scripts_of []) false deep (HPes 0 f) {| cx_changes := []; cx_serial := 1 |} idx pk;
      let '(h, _, evs) := r in
      do more <- run_pesf_loop deep (match h with HPes _ f' => f' | _ => f end) (idx + 188) rest;
      Ok (concat (map enc_event evs) ++ more)
  end.
Definition run_pesf (flags : N) (pkts : list (list N)) : option (list N) :=
  opt_of_res (run_pesf_loop (N.testbit flags 0) pes_filter_new 0 pkts).

(* ---- C19 suites: what the model predicts for the steady-state part of a two-phase stream ---- *)
Definition is_slice (e : event) : bool :=
  match e with
  | EvEs _ _ (EsContinuePacket _ _) _ => true
  | EvEs _ _ (EsBeginPacket _ _) (k :: _) => negb (k =? 0)
  | _ => false
  end.
Definition is_construct (e : event) : bool := match e with EvConstruct _ _ => true | _ => false end.
Fixpoint steady_part (limit : N) (evs : list event) : list event :=
  match evs with
  | [] => []
  | EvPacket s idx o :: r => if limit <=? idx then evs else steady_part limit r
  | _ :: r => steady_part limit r
  end.
(* [allocations; slices outside the pushed buffer; payload slices delivered; requests made] during the steady part *)
Definition run_alloc (warm steady : list N) : option (list N) :=
  match run_demux (std_policy []) (scripts_of []) false false [warm; steady] with
  | Ok (_, _, evs) =>
      let st := steady_part (n2 (length warm)) evs in
      Some [0; 0; n2 (length (filter is_slice st)); n2 (length (filter is_construct st))]
  | Panic _ => None
  end.
(* bounded retained memory under hostile input: the model's claim is just "yes" (see C19_buffer_bounded) *)
Definition run_mem (_ : list N) : option (list N) := Some [1].
