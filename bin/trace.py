"""Decoding of observation lists produced by the harness / model for stream-level cases, a small
independent transport-packet reader, and the run-time property predicates (monitors) evaluated on what
the IMPLEMENTATION did.  They classify a disagreement: predicate violated -> concrete failing input;
predicate holds -> only the correspondence is broken (reported as no-failing-input-found)."""

def unhex(tok):
    return bytes.fromhex(tok[1:])

def parse_events(nums):
    """flat list of ints -> list of events (see Model/DemuxObs.v enc_event)"""
    ev = []; i = 0; n = len(nums)
    while i < n:
        k = nums[i]
        if k == 1:
            s = nums[i + 1]; r = nums[i + 2]
            if r == 0: ev.append(("construct", s, ("bypid", nums[i + 3]))); i += 4
            elif r == 1:
                pp, st, ep, ln = nums[i + 3:i + 7]
                ev.append(("construct", s, ("bystream", pp, st, ep, tuple(nums[i + 7:i + 7 + ln])))); i += 7 + ln
            elif r == 2: ev.append(("construct", s, ("pmt", nums[i + 3], nums[i + 4]))); i += 5
            elif r == 3: ev.append(("construct", s, ("nit", nums[i + 3]))); i += 4
            else: raise ValueError("bad request kind")
        elif k == 2:
            s, idx, ln = nums[i + 1:i + 4]
            ev.append(("packet", s, idx, tuple(nums[i + 4:i + 4 + ln]))); i += 4 + ln
        elif k == 3:
            s = nums[i + 1]; e = nums[i + 2]
            if e == 0: ev.append(("es", s, "start")); i += 4
            elif e == 1:
                ln = nums[i + 3]; ev.append(("es", s, "begin", tuple(nums[i + 4:i + 4 + ln]))); i += 4 + ln
            elif e == 2: ev.append(("es", s, "cont", nums[i + 3], nums[i + 4])); i += 6
            elif e == 3: ev.append(("es", s, "end")); i += 4
            elif e == 4: ev.append(("es", s, "ccerr")); i += 4
            else: raise ValueError("bad es kind")
        else:
            raise ValueError("bad event tag %r at %d" % (k, i))
    return ev

def parse_obs(line):
    if line.startswith("PANIC"):
        return None
    return [int(x) for x in line.split()]

class Pkt:
    """independent reading of a 188-byte packet per ISO/IEC 13818-1 2.4.3.2"""
    def __init__(self, b):
        self.b = b
        self.sync = b[0] == 0x47
        self.tei = bool(b[1] & 0x80); self.pusi = bool(b[1] & 0x40)
        self.pid = ((b[1] & 0x1f) << 8) | b[2]
        self.scr = b[3] >> 6; self.afc = (b[3] >> 4) & 3; self.cc = b[3] & 15
        self.has_payload = bool(self.afc & 1)
        L = b[4]
        if self.afc == 1: self.payload_off = 4
        elif self.afc == 3 and L <= 182: self.payload_off = 5 + L
        else: self.payload_off = None
    def payload(self):
        return None if self.payload_off is None else self.b[self.payload_off:]
    def pes_header_ok(self):
        p = self.payload()
        return p is not None and len(p) >= 6 and p[0] == 0 and p[1] == 0 and p[2] == 1

def es_protocol_ok(events):
    """C08 monitor per consumer serial; returns None or a reason"""
    st = {}
    for e in events:
        if e[0] != "es": continue
        s, k = e[1], e[2]
        m = st.get(s, "nostream")
        if k == "start":
            if m != "nostream": return f"start_stream on consumer {s} although the stream had started"
            m = "idle"
        elif k == "begin":
            if m != "idle": return f"begin_packet on consumer {s} in state {m}"
            m = "open"
        elif k == "cont":
            if m != "open": return f"continue_packet on consumer {s} with no packet open (state {m})"
        elif k == "end":
            if m != "open": return f"end_packet on consumer {s} with no packet open (state {m})"
            m = "idle"
        elif k == "ccerr":
            if m == "open": m = "idle"
        st[s] = m
    return None

def split_by_packet(events):
    """groups of events per consumed packet marker: list of (serial, idx, [es events])"""
    out = []
    for e in events:
        if e[0] == "packet": out.append([e[1], e[2], []])
        elif e[0] == "es" and out: out[-1][2].append(e)
    return out

def pesf_judge(case, impl_line):
    """C08 + C09 predicates for a PESF case; returns None or reason"""
    toks = case.split()
    pkts = [Pkt(unhex(t)) for t in toks[2:]]
    nums = parse_obs(impl_line)
    if nums is None: return "implementation panicked"
    try: ev = parse_events(nums)
    except Exception as x: return f"undecodable observation ({x})"
    r = es_protocol_ok(ev)
    if r: return r
    groups = split_by_packet(ev)
    if len(groups) != len(pkts): return "number of packet markers differs from number of packets"
    prev = None; quarantined = False
    for i, (p, g) in enumerate(zip(pkts, groups)):
        kinds = [e[2] for e in g[2]]
        exp_err = prev is not None and p.cc != (((prev + 1) & 15) if p.has_payload else prev)
        if ("ccerr" in kinds) != exp_err:
            return f"packet {i}: continuity error {'missing' if exp_err else 'spurious'} (previous counter {prev}, counter {p.cc}, payload {p.has_payload})"
        if kinds.count("ccerr") > 1: return f"packet {i}: more than one continuity error"
        for k in kinds:
            if k == "ccerr": quarantined = True
            elif k == "begin": quarantined = False
            elif k == "cont" and quarantined: return f"packet {i}: continuation data delivered after a continuity error before any packet-begin"
        exp_begin = p.pusi and p.pes_header_ok()
        if ("begin" in kinds) != exp_begin:
            return f"packet {i}: packet-begin {'missing' if exp_begin else 'reported'} although the PES header is {'recognisable' if exp_begin else 'not recognisable'}"
        if p.pusi and not exp_begin: quarantined = True      # unrecognised header: nothing delivered until the next begin
        prev = p.cc
    return None

def parse_sec(nums, compact, npkts):
    """per packet: list of deliveries (header tuple, origin, bytes)"""
    out = []; i = 0
    for _ in range(npkts):
        cnt = nums[i]; i += 1; dl = []
        for _ in range(cnt):
            hdr = tuple(nums[i:i + 4]); i += 4
            tsh = None
            if not compact: tsh = tuple(nums[i:i + 5]); i += 5
            origin = (nums[i], nums[i + 1]); i += 2
            ln = nums[i]; i += 1
            data = bytes(nums[i:i + ln]); i += ln
            dl.append((hdr, tsh, origin, data))
        out.append(dl)
    if i != len(nums): raise ValueError("trailing numbers")
    return out

def sec_judge(case, impl_line):
    """C03 predicate: from the start packet on, the target section is delivered exactly once with exactly
    its bytes (never, when its section_length exceeds 1021)"""
    toks = case.split()
    if not any(t.startswith("#") for t in toks):
        return None                                  # grammar-directed sequence without a target section: the model is the oracle
    truth = [t for t in toks if t.startswith("#")][0][1:]
    start, shex = truth.split(":")
    start = int(start); S = unhex(shex)
    pk = [t for t in toks[2:] if not t.startswith("#")]
    compact = int(toks[1]) & 1 == 1
    nums = parse_obs(impl_line)
    if nums is None: return "implementation panicked"
    try: per = parse_sec(nums, compact, len(pk))
    except Exception as x: return f"undecodable observation ({x})"
    L = ((S[1] & 0x0f) << 8) | S[2]
    hits = [d for dl in per[start:] for d in dl if d[3] == S]
    if L > 1021:
        # nothing of it may reach the consumer, whole or cut short (its bytes start with the section's header)
        part = [d for dl in per[start:] for d in dl if len(d[3]) >= 3 and S[:len(d[3])] == d[3]]
        if hits or part:
            return f"a section declaring a length above 1021 ({L}) was delivered ({len((hits or part)[0][3])} bytes)"
        return None
    if len(hits) != 1:
        return f"target section delivered {len(hits)} times (expected exactly once) from its start packet on"
    d = hits[0]
    if d[0] != (S[0], S[1] >> 7, (S[1] >> 6) & 1, L):
        return "delivered header fields differ from the section's"
    return None

def parse_scripts(tok):
    """'S256=i257.R,r256|r257;300=...' -> {pid: [[('i',pid,kind)|('r',pid)]...]}"""
    m = {}
    for ent in [e for e in tok[1:].split(";") if e]:
        pid, invs = ent.split("=", 1)
        il = []
        for inv in invs.split("|"):
            acts = []
            for a in [x for x in inv.split(",") if x]:
                if a[0] == "r": acts.append(("r", int(a[1:])))
                else:
                    p, k = a[1:].split(".", 1)
                    acts.append(("i", int(p), k))
            il.append(acts)
        m[int(pid)] = il
    return m

def dispatch_reference(case):
    """the dispatcher of C06/C18 for recording and scripted handlers, recomputed from the input:
    expected list of ('construct', serial, pid) / ('packet', serial, offset) events.  Returns None when the
    case involves PID 0 traffic (PAT semantics are outside this reference)."""
    toks = [t for t in case.split() if not t.startswith("#")]
    scripts = parse_scripts(toks[2])
    table = {0: [0, "pat", 0]}
    serial = 1
    exp = []
    off = 0
    for ch in toks[3:]:
        data = unhex(ch)
        for k in range(len(data) // 188):
            b = data[k * 188:(k + 1) * 188]
            here = off + k * 188
            if b[0] != 0x47: continue
            p = Pkt(b)
            if p.pid == 0: return None
            if p.pid not in table:
                kind = "S%d" % p.pid if p.pid in scripts else "R"
                table[p.pid] = [serial, kind, 0]
                exp.append(("construct", serial, p.pid)); serial += 1
            if p.tei or p.scr != 0: continue
            h = table[p.pid]
            exp.append(("packet", h[0], here))
            if h[1].startswith("S"):
                acts = scripts.get(int(h[1][1:]), [])
                acts = acts[h[2]] if h[2] < len(acts) else []
                h[2] += 1
                queued = []
                for a in acts:
                    if a[0] == "i": queued.append(("i", a[1], [serial, a[2], 0])); serial += 1
                    else: queued.append(("r", a[1]))
                for q in queued:
                    if q[0] == "i": table[q[1]] = q[2]
                    else: table.pop(q[1], None)
        off += len(data)
    return exp

def dispatch_judge(case, impl_line):
    exp = dispatch_reference(case)
    nums = parse_obs(impl_line)
    if nums is None: return "implementation panicked"
    try: ev = parse_events(nums)
    except Exception as x: return f"undecodable observation ({x})"
    if exp is None: return None
    got = []
    for e in ev:
        if e[0] == "construct":
            if e[1] == 0: continue                       # the PAT handler requested by Demultiplex::new
            if e[2][0] != "bypid": return f"unexpected request {e[2]}"
            got.append(("construct", e[1], e[2][1]))
        elif e[0] == "packet": got.append(("packet", e[1], e[2]))
    for i, (a, b) in enumerate(zip(got, exp)):
        if a != b:
            return f"dispatch event {i}: implementation {a}, per-packet dispatcher specification {b}"
    if len(got) != len(exp):
        return f"implementation produced {len(got)} dispatch events, specification {len(exp)} (first missing/extra: {(got + exp)[min(len(got), len(exp))]})"
    return None

def chunking_groups(cases_path, impl_path):
    """C07: within a group (#g<k>) every chunking must give the implementation observation of the group's first
    line (the single push).  Returns list of (lineno, case, impl, why)."""
    first = {}; bad = []
    with open(cases_path) as fc, open(impl_path) as fi:
        for n, (c, i) in enumerate(zip(fc, fi)):
            g = [t for t in c.split() if t.startswith("#g")]
            if not g: continue
            g = g[0]
            if g not in first: first[g] = (n + 1, i)
            elif i != first[g][1]:
                bad.append((n + 1, c.rstrip("\n"), i.rstrip("\n"), f"call-back trace differs from that of the single push of the same stream (case line {first[g][0]})"))
    return bad

def c02_judge(case, impl_line):
    """C02 predicate on the implementation's trace: per elementary PID, the bytes from one packet-begin to the
    next (payload exposed by the header + continuation slices) equal the multiplexed PES payloads, in order;
    with deep observation also stream id and PTS/DTS."""
    toks = case.split()
    deep = int(toks[1]) & 1
    truth = {}
    for t in toks:
        if t.startswith("#P"):
            pid, lst = t[2:].split("=", 1)
            ents = []
            for e in [x for x in lst.split(";") if x]:
                sid, pts, dts, hx = e.split(":")
                ents.append((int(sid), int(pts), int(dts), unhex(hx)))
            truth[int(pid)] = ents
    data = b"".join(unhex(t) for t in toks[3:] if not t.startswith("#"))
    nums = parse_obs(impl_line)
    if nums is None: return "implementation panicked"
    try: ev = parse_events(nums)
    except Exception as x: return f"undecodable observation ({x})"
    r = es_protocol_ok(ev)
    if r: return r
    serial_pid = {}
    for e in ev:
        if e[0] == "construct" and e[2][0] == "bystream": serial_pid[e[1]] = e[2][3]
    got = {}      # pid -> list of [sid, pts, dts, bytes]
    for e in ev:
        if e[0] != "es": continue
        pid = serial_pid.get(e[1])
        if pid is None: return f"elementary-stream call-back from handler {e[1]} that was not built for a stream"
        if e[2] == "ccerr": return f"continuity error reported on PID {pid} of a well-formed stream"
        if e[2] == "begin":
            o = list(e[3]); kind = o[0]
            if kind == 0: return f"PID {pid}: packet-begin with unparsable header contents in a well-formed stream"
            off, ln = o[1], o[2]
            if off + ln > len(data): return f"PID {pid}: payload slice outside the pushed buffer"
            rec = [None, None, None, bytearray(data[off:off + ln])]
            if deep:
                full = o[3:]
                rec[0] = full[0]
                if full[2] == 1:                         # parsed contents: prio al cp oc, then pts_dts
                    q = full[3 + 4:]
                    if q[0] == 0:
                        if q[1] == 1 and q[2] == 0: rec[1] = q[3]
                        elif q[1] == 2 and q[2] == 0 and q[4] == 0: rec[1] = q[3]; rec[2] = q[5]
            got.setdefault(pid, []).append(rec)
        elif e[2] == "cont":
            off, ln = e[3], e[4]
            if pid not in got: return f"PID {pid}: continuation data before any packet-begin"
            if off + ln > len(data): return f"PID {pid}: continuation slice outside the pushed buffer"
            got[pid][-1][3] += data[off:off + ln]
    for pid, ents in truth.items():
        g = got.get(pid, [])
        if len(g) != len(ents): return f"PID {pid}: {len(g)} PES packets begun, {len(ents)} multiplexed"
        for k, ((sid, pts, dts, pl), rec) in enumerate(zip(ents, g)):
            if bytes(rec[3]) != pl:
                return f"PID {pid} PES packet {k}: delivered {len(rec[3])} bytes differ from the {len(pl)} multiplexed payload bytes"
            if deep:
                if rec[0] != sid: return f"PID {pid} PES packet {k}: stream id {rec[0]} reported, {sid} multiplexed"
                if pts >= 0 and rec[1] != pts: return f"PID {pid} PES packet {k}: PTS {rec[1]} reported, {pts} multiplexed"
                if dts >= 0 and rec[2] != dts: return f"PID {pid} PES packet {k}: DTS {rec[2]} reported, {dts} multiplexed"
    for pid in got:
        if pid not in truth: return f"elementary-stream data attributed to PID {pid} which carries none"
    return None

# ---------------------------------------------------------------- table histories (C05 / C10 / C11)
def parse_history(case):
    toks = case.split()
    h = [t for t in toks if t.startswith("#H=")]
    recs = []
    if h:
        for r in [x for x in h[0][3:].split(";") if x]:
            f = r.split("|")
            if f[0] == "T":
                pid = int(f[1]); desc = f[6]
                if pid == 0:
                    entries = [tuple(int(y) for y in e.split(":")) for e in desc.split(",") if e]
                    recs.append(dict(k="T", pid=0, first=int(f[2]), last=int(f[3]), kind=f[4], ver=int(f[5]), pat=entries))
                else:
                    pn, ss = desc.split("/", 1)
                    streams = [tuple(int(y) for y in e.split(":")) for e in ss.split(",") if e]
                    recs.append(dict(k="T", pid=pid, first=int(f[2]), last=int(f[3]), kind=f[4], ver=int(f[5]), pn=int(pn), streams=streams))
            elif f[0] == "P":
                recs.append(dict(k="P", pid=int(f[1]), idx=int(f[2])))
    data = b"".join(unhex(t) for t in toks[3:] if not t.startswith("#"))
    return recs, data

def group_events(ev):
    """[(serial, byte offset, [events caused by that packet])]; a ByPid request belongs to the packet that follows it"""
    groups = []; pending = []
    for e in ev:
        if e[0] == "packet":
            groups.append([e[1], e[2], list(pending)]); pending = []
        elif e[0] == "construct" and e[2][0] == "bypid":
            pending.append(e)
        elif groups:
            groups[-1][2].append(e)
    return groups

def started_version(data, pkt_index):
    """version_number of the section that the start packet #pkt_index would make the chain record, or None"""
    b = data[pkt_index * 188:(pkt_index + 1) * 188]
    if len(b) < 188: return None
    p = Pkt(b); pl = p.payload()
    if pl is None or not p.pusi or len(pl) < 1: return None
    ptr = pl[0]; s = pl[1 + ptr:]
    if ptr > 0 and ptr >= len(pl) - 1: return None
    if len(s) < 8 or not (s[1] & 0x80): return None
    if (((s[1] & 0x0f) << 8) | s[2]) > 1021: return None
    return (s[5] >> 1) & 31

def reset_packets(data, pid, malformed=False):
    """indices of the packets on `pid` in which a section starts (valid pointer_field) with fewer than 3 of its bytes left in
    the packet: the section header straddles the packet boundary, SectionPacketConsumer resets the whole chain (finding F9)"""
    out = []
    for k in range(len(data) // 188):
        b = data[k * 188:(k + 1) * 188]
        if b[0] != 0x47: continue
        p = Pkt(b)
        if p.pid != pid or not p.pusi or p.tei or p.scr: continue
        pl = p.payload()
        if pl is None or len(pl) < 1: continue
        ptr = pl[0]; sd = pl[1:]
        if ptr > 0 and ptr >= len(sd):
            if malformed: out.append(k)                  # pointer_field out of range: the chain is reset as well
            continue                                     # (not a valid stream: not part of the F9 class)
        if (0 if malformed else 1) <= len(sd) - ptr < 3: out.append(k)
    return out

def history_judge(case, impl_line, prop):
    """returns ('ok',None) | ('violation', why) | ('known', id)"""
    recs, data = parse_history(case)
    nums = parse_obs(impl_line)
    if nums is None: return ("violation", "implementation panicked")
    try: ev = parse_events(nums)
    except Exception as x: return ("violation", f"undecodable observation ({x})")
    r = es_protocol_ok(ev)
    if r: return ("violation", r)
    groups = group_events(ev)
    by_off = {g[1]: g for g in groups}
    ctor = {e[1]: e[2] for e in ev if e[0] == "construct"}
    def table_constructs(first, last, pid):
        out = []
        for k in range(first, last + 1):
            g = by_off.get(k * 188)
            if g and Pkt(data[k * 188:(k + 1) * 188]).pid == pid:      # transmissions on different PIDs may be interleaved
                out += [e[2] for e in g[2] if e[0] == "construct" and e[2][0] != "bypid"]
        return out
    ideal_ver = {}            # table pid -> version last applied (ideal)
    ideal_pat = []            # [(pn, pid)]
    ideal_pmt = {}            # pmt pid -> (pn, [(type, pid)])
    started_not_applied = {}  # table pid -> set of versions started since the last application
    pat_since_pmt = {}        # pmt pid -> a new PAT version was applied since that PMT's last application (instance re-created)
    recreated = set()         # pmt pids whose handler instance was re-created between two of their versions
    listed_by = {}            # elementary pid -> set of pmt pids that ever listed it
    shared_ever = set()       # elementary pids that two program maps listed at the same time (finding F7)
    stale = {}                # pid -> (table pid that dropped it, forbidden request kind)
    prev_last = {}            # table pid -> last packet of the previous transmission on it
    resets_all = {}; last_dmg = {}
    assigned = {}             # pid -> the request of the table application that listed it last (the later application wins)
    applied_first = {}        # table pid -> first packet of the transmission last applied (or last re-applied)
    resets = {}               # table pid -> packets in which a section header straddles the packet boundary (F9)
    known = None
    for rc in recs:
        if rc["k"] == "T":
            pid = rc["pid"]; ver = rc["ver"]
            if pid != 0:
                for (_, ep) in rc["streams"]: listed_by.setdefault(ep, set()).add(pid)
            # tight packing: the packet in which this section starts also carries the end of the previous one (whose
            # requests are made there); a section spanning packets causes no request in its own start packet
            shared = prev_last.get(pid) == rc["first"] and rc["last"] > rc["first"]
            prev_last[pid] = rc["last"]
            cons = table_constructs(rc["first"] + (1 if shared else 0), rc["last"], pid)
            if rc["kind"] == "dmg":
                sv = started_version(data, rc["first"])
                if sv is not None: started_not_applied.setdefault(pid, set()).add(sv); last_dmg[pid] = rc["first"]
                continue
            if started_not_applied.get(pid):
                # a start packet that resets the chain (pointer_field out of range, or fewer than 3 section bytes behind it) since
                # the damaged start makes the chain forget the version that start left behind
                if pid not in resets_all: resets_all[pid] = reset_packets(data, pid, malformed=True)
                if any(last_dmg.get(pid, -1) < k < rc["first"] for k in resets_all[pid]): started_not_applied[pid] = set()
            ideal_applies = ideal_ver.get(pid) != ver
            if ideal_applies:
                exp = ([("nit", p) if n == 0 else ("pmt", p, n) for (n, p) in rc["pat"]] if pid == 0
                       else [("bystream", pid, t, ep) for (t, ep) in rc["streams"]])
                got = [c[:4] if c[0] == "bystream" else c for c in cons]
                if not cons and exp:
                    if prop in ("C11", "C05") and ver in started_not_applied.get(pid, set()):
                        known = known or "F2"
                        continue                      # blocked: the table never arrives, the ideal state does not advance either
                    if prop in ("C11", "C05"):
                        return ("violation", f"intact table on PID {pid} (packets {rc['first']}..{rc['last']}, version {ver}) whose version differs from the one last applied was not applied")
                elif got != exp and prop == "C05":
                    return ("violation", f"table on PID {pid} version {ver}: requests {got} differ from the entries {exp}")
                ideal_ver[pid] = ver; started_not_applied[pid] = set(); applied_first[pid] = rc["first"]
                for e_ in exp: assigned[e_[1] if e_[0] != "bystream" else e_[3]] = e_
                if pid == 0:
                    for (n, q) in ideal_pat:
                        if q not in [x[1] for x in rc["pat"]]: stale[q] = (0, "nit" if n == 0 else "pmt")
                    for (n, q) in rc["pat"]: stale.pop(q, None)
                    ideal_pat = rc["pat"]
                    for q in ideal_pmt: pat_since_pmt[q] = True
                else:
                    if pid in ideal_pmt:
                        if pat_since_pmt.get(pid): recreated.add(pid)
                        for (t, q) in ideal_pmt[pid][1]:
                            if q not in [x[1] for x in rc["streams"]]: stale[q] = (pid, "bystream")
                    for (t, q) in rc["streams"]:
                        stale.pop(q, None)
                        if any(pp != pid and q in [x[1] for x in ideal_pmt[pp][1]] for pp in ideal_pmt): shared_ever.add(q)
                    ideal_pmt[pid] = (rc["pn"], rc["streams"]); pat_since_pmt[pid] = False
            else:
                if cons and prop == "C10":
                    if pid not in resets: resets[pid] = reset_packets(data, pid)
                    if pid != 0 and pat_since_pmt.get(pid):
                        known = known or "F8"
                        pat_since_pmt[pid] = False
                    elif any(applied_first.get(pid, -1) < k < rc["first"] for k in resets[pid]):
                        known = known or "F9"
                        applied_first[pid] = rc["first"]
                    else:
                        return ("violation", f"repetition of the table on PID {pid} (version {ver}, packets {rc['first']}..{rc['last']}) caused requests {cons[:3]}")
        elif rc["k"] == "P" and prop == "C05":
            X = rc["pid"]
            g = by_off.get(rc["idx"] * 188)
            if g is None:
                return ("violation", f"probe packet {rc['idx']} on PID {X} reached no handler")
            req = ctor.get(g[0]); req = req[:4] if req and req[0] == "bystream" else req
            live = {q: n for (n, q) in ideal_pat}
            exp = []; owners = []
            if X in live: exp.append(("nit", X) if live[X] == 0 else ("pmt", X, live[X]))
            for pp, (pn, ss) in ideal_pmt.items():
                if pp in live and live[pp] != 0:
                    for (t, ep) in ss:
                        if ep == X: exp.append(("bystream", pp, t, X)); owners.append(pp)
            bad = None; is_stale = False
            if len(exp) >= 2 and assigned.get(X) in exp: exp = [assigned[X]]      # a PID with two roles: the later application wins
            if exp:
                if req not in exp: bad = f"the latest valid PAT/PMT call for {exp}"
            elif X in stale:
                tp, kind = stale[X]
                if req and req[0] == kind and (kind != "bystream" or req[1] == tp):
                    bad = f"that PID was dropped by a newer version of the table on PID {tp} and must no longer go to the handler it installed"
                    owners = [tp]; is_stale = True
            if bad:
                if X in shared_ever: known = known or "F7"
                elif is_stale and any(o in recreated for o in owners): known = known or "F8"      # F8: a dropped PID keeps its old handler
                elif known == "F2": pass               # routing after a blocked table (F2) follows the older table
                else:
                    return ("violation", f"probe on PID {X} (packet {rc['idx']}) was handled by a handler built from {req}; {bad}")
    if known: return ("known", known)
    return ("ok", None)
