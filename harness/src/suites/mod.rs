pub mod c12;
pub mod c15;
