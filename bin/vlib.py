"""Shared machinery of /verif/bin/check: builds, proof-obligation checks, correspondence runs,
verdicts, evidence.  See DESIGN.md sections 3, 4 and 8."""
import fcntl, hashlib, json, os, re, subprocess, sys, time

ROOT = "/verif"
COQ = ROOT + "/coq"
WORK = ROOT + "/work"
HARNESS = ROOT + "/harness"
DRIVER = ROOT + "/driver/driver"
HBIN = HARNESS + "/target/release/verif-harness"
ENV = dict(os.environ, CARGO_NET_OFFLINE="true")
FORBIDDEN = re.compile(r"\b(Admitted|admit|Axiom|Axioms|Parameter|Parameters|Conjecture|Abort All|bypass_check)\b|Unset\s+Guard|type-in-type|Unset\s+Positivity|Unset\s+Universe|Admit\s+Obligations")
AXIOM_ALLOW = set()   # "Closed under the global context" is the target for every property theorem


def sh(cmd, cwd=None, timeout=3600, env=None, log=None):
    t0 = time.time()
    p = subprocess.run(cmd, cwd=cwd, shell=isinstance(cmd, str), stdout=subprocess.PIPE,
                       stderr=subprocess.STDOUT, timeout=timeout, env=env or ENV)
    out = p.stdout.decode("utf-8", "replace")
    if log:
        with open(log, "w") as f:
            f.write(out)
    return p.returncode, out, time.time() - t0


class Lock:
    def __init__(self, name="build"):
        os.makedirs(WORK, exist_ok=True)
        self.f = open(f"{WORK}/.{name}.lock", "w")
    def __enter__(self):
        fcntl.flock(self.f, fcntl.LOCK_EX)
        return self
    def __exit__(self, *a):
        fcntl.flock(self.f, fcntl.LOCK_UN)
        self.f.close()


def write_if_changed(path, text):
    try:
        if open(path).read() == text:
            return False
    except FileNotFoundError:
        pass
    os.makedirs(os.path.dirname(path), exist_ok=True)
    with open(path, "w") as f:
        f.write(text)
    return True


# ------------------------------------------------------------------ builds
def gen_tables():
    """Regenerate coq/Gen/*.v from /repo's current source (the translator part of the tie)."""
    rc, out, _ = sh([sys.executable, ROOT + "/bin/gen_tables.py"])
    return rc == 0, out


def build_coq():
    if not os.path.exists(COQ + "/Makefile"):
        sh("coq_makefile -f _CoqProject -o Makefile", cwd=COQ)
    rc, out, dt = sh("timeout 3000 make -k -j16", cwd=COQ, log=WORK + "/coq_make.log")
    return rc == 0, out


def build_driver():
    rc, out, _ = sh([ROOT + "/bin/build_driver"], log=WORK + "/driver_build.log")
    return rc == 0, out


def build_harness(fuzzing=False):
    env = dict(ENV)
    cmd = "cargo build --release --offline"
    if fuzzing:
        env["RUSTFLAGS"] = "--cfg fuzzing"
        cmd += " --target-dir target-fuzzing"
    rc, out, _ = sh(cmd, cwd=HARNESS, env=env, log=WORK + ("/cargo_fuzzing.log" if fuzzing else "/cargo.log"))
    return rc == 0, out


def build_all(fuzzing=False):
    """Everything a check needs, rebuilt from the current trees; serialised across concurrent checks."""
    status = {}
    with Lock():
        if not os.path.exists(HARNESS + "/Cargo.lock"):
            sh(f"cp /repo/Cargo.lock {HARNESS}/Cargo.lock")
        # the harness first: the translator falls back on the implementation's behaviour when a literal is not in the source
        status["harness"], status["harness_out"] = build_harness(False)
        status["gen"], status["gen_out"] = gen_tables()
        status["coq"], status["coq_out"] = build_coq()
        status["driver"], status["driver_out"] = build_driver()
        if fuzzing:
            status["harness_fuzzing"], _ = build_harness(True)
    return status


# ------------------------------------------------------------------ proof obligations
def theorem_names(props_file):
    src = open(f"{COQ}/{props_file}").read()
    return re.findall(r"^Theorem\s+([A-Za-z0-9_']+)", src, re.M)


def forbidden_scan():
    bad = []
    for d, _, fs in os.walk(COQ):
        for f in fs:
            if f.endswith(".v"):
                p = os.path.join(d, f)
                src = open(p).read()
                src_nc = re.sub(r"\(\*.*?\*\)", " ", src, flags=re.S)
                for m in FORBIDDEN.finditer(src_nc):
                    bad.append(f"{os.path.relpath(p, COQ)}: {m.group(0)}")
    return bad


def coqchk_props(props_files):
    """independent re-check (coqchk) of the compiled Props files and everything they depend on; returns (ok, summary)"""
    mods = " ".join("TS." + pf[:-2].replace("/", ".") for pf in props_files)
    rc, out, _ = sh(f"timeout 3000 coqchk -o -silent -Q . TS {mods}", cwd=COQ)
    m = re.search(r"CONTEXT SUMMARY(.*)", out, re.S)
    summ = (m.group(1) if m else out[-600:])
    flat = re.sub(r"\s+", " ", summ)
    ok = rc == 0 and all(f"{k}: <none>" in flat for k in ("Axioms", "relying on type-in-type", "relying on unsafe (co)fixpoints", "whose positivity is assumed"))
    return ok, flat.strip()[:600]


def check_obligations(pid, props_files):
    """Returns dict: theorems, discharged, broken (list of names/reasons), axioms per theorem."""
    res = {"theorems": [], "discharged": [], "broken": [], "axioms": {}}
    wd = f"{WORK}/{pid}"
    os.makedirs(wd, exist_ok=True)
    bad = forbidden_scan()
    if bad:
        res["broken"].append("forbidden construct: " + "; ".join(bad[:5]))
    for pf in props_files:
        names = theorem_names(pf)
        res["theorems"] += names
        vo = f"{COQ}/{pf}o"
        with Lock():
            rc, out, _ = sh(f"timeout 3000 make {pf}o", cwd=COQ)
        if rc != 0 or not os.path.exists(vo):
            m = re.findall(r'File "\./([^"]+)", line (\d+)[^\n]*\n(?:[^\n]*\n){0,6}?Error:[^\n]*', out)
            where = ", ".join(sorted(set(f"{a}:{b}" for a, b in m))) or "see work/coq_make.log"
            for n in names:
                res["broken"].append(f"{n} (file {pf} or one of its dependencies no longer compiles: {where})")
            continue
        mod = "TS." + pf[:-2].replace("/", ".")
        body = f"From TS Require Import {pf[:-2].replace('/', '.')}.\n" + "".join(
            f'Goal True. idtac "@@BEGIN {n}". Abort.\nPrint Assumptions {n}.\nGoal True. idtac "@@END {n}". Abort.\n' for n in names)
        af = f"{wd}/assum_{os.path.basename(pf)[:-2]}.v"
        open(af, "w").write(body)
        rc, out, _ = sh(f"timeout 600 coqc -Q {COQ} TS {af}", cwd=wd)
        if rc != 0:
            for n in names:
                res["broken"].append(f"{n} (Print Assumptions failed: {out.strip()[-300:]})")
            continue
        for n in names:
            m = re.search(rf"@@BEGIN {re.escape(n)}\n(.*?)@@END {re.escape(n)}", out, re.S)
            txt = m.group(1).strip() if m else "?"
            if txt.startswith("Closed under the global context"):
                res["axioms"][n] = []
                res["discharged"].append(n)
            else:
                axs = re.findall(r"^([A-Za-z0-9_.']+)\s*:", txt, re.M)
                res["axioms"][n] = axs
                extra = [a for a in axs if a not in AXIOM_ALLOW]
                if extra or not axs:
                    res["broken"].append(f"{n} (depends on axioms outside the allow-list: {extra or txt[:200]})")
                else:
                    res["discharged"].append(n)
    return res


# ------------------------------------------------------------------ correspondence
def _big_stack():
    # the extracted model recurses over whole buffers: give it the stack the kernel allows
    import resource
    try: resource.setrlimit(resource.RLIMIT_STACK, (resource.RLIM_INFINITY, resource.RLIM_INFINITY))
    except Exception:
        try:
            soft, hard = resource.getrlimit(resource.RLIMIT_STACK); resource.setrlimit(resource.RLIMIT_STACK, (hard, hard))
        except Exception: pass


def run_suite(pid, suite, tier, seed, fuzzing=False):
    """Generate + run implementation + run model.  Returns (cases_path, impl_path, model_path).
    The cfg(fuzzing) build writes into its own sub-directory."""
    wd = f"{WORK}/{pid}" + ("/cfg_fuzzing" if fuzzing else "")
    os.makedirs(wd, exist_ok=True)
    hbin = HARNESS + ("/target-fuzzing/release/verif-harness" if fuzzing else "/target/release/verif-harness")
    tag = suite
    rc, out, _ = sh([hbin, "gen", suite, tier, str(seed), wd], timeout=7200)
    if rc != 0:
        raise RuntimeError(f"harness failed on suite {suite}: {out[-2000:]}")
    cases, impl, model = f"{wd}/{suite}.cases", f"{wd}/{suite}.impl", f"{wd}/{suite}.model"
    # shard the model run over the cores (round-robin, streamed: the thorough suites are gigabytes)
    nlines = 0
    with open(cases) as f:
        for _ in f: nlines += 1
    nsh = max(1, min(16, nlines // 8))
    outs = [open(f"{wd}/{tag}.shard{k}.cases", "w") for k in range(nsh)]
    with open(cases) as f:
        for i, line in enumerate(f):
            outs[i % nsh].write(line if line.endswith("\n") else line + "\n")
    for o in outs: o.close()
    procs = []
    for k in range(nsh):
        cf = f"{wd}/{tag}.shard{k}.cases"
        procs.append((k, subprocess.Popen([DRIVER, cf, f"{wd}/{tag}.shard{k}.model", f"{wd}/{tag}.shard{k}.spec"] + (["fuzzing"] if fuzzing else []),
                                          stdout=subprocess.PIPE, stderr=subprocess.STDOUT, preexec_fn=_big_stack)))
    for k, p in procs:
        out, _ = p.communicate(timeout=(5400 if tier == "thorough" else 1500))
        if p.returncode != 0:
            raise RuntimeError(f"driver failed on suite {suite} shard {k}: {out.decode()[-2000:]}")
        os.remove(f"{wd}/{tag}.shard{k}.cases")
    ms = [open(f"{wd}/{tag}.shard{k}.model") for k in range(nsh)]
    ss = [open(f"{wd}/{tag}.shard{k}.spec") for k in range(nsh)]
    with open(model, "w") as fm, open(model + ".spec", "w") as fs:
        for i in range(nlines):
            lm = ms[i % nsh].readline(); ls = ss[i % nsh].readline()
            fm.write(lm if lm.endswith("\n") else lm + "\n")
            fs.write(ls if ls.endswith("\n") else ls + "\n")
    for k in range(nsh):
        ms[k].close(); ss[k].close()
        for ext in ("model", "spec"):
            os.remove(f"{wd}/{tag}.shard{k}.{ext}")
    return cases, impl, model


def compare(cases, impl, model, limit=50):
    """Line-by-line comparison of the implementation with the specification observation (model.spec)
    and with the model of the code; returns (n, nmis, mismatches[(lineno, case, impl, model, spec)], stats).
    A line is a mismatch when the implementation differs from the specification or from the model."""
    n = 0
    mism = []
    nmis = 0
    kinds = {}
    distinct = set()
    panics = 0
    with open(cases) as fc, open(impl) as fi, open(model) as fm, open(model + ".spec") as fs:
        for c, i, m, s in zip(fc, fi, fm, fs):
            n += 1
            k = c.split(" ", 1)[0]
            kinds[k] = kinds.get(k, 0) + 1
            if m.startswith("SKIP"):
                pass                                  # a case outside the model: judged on the implementation's behaviour alone
            elif i != s or i != m:
                nmis += 1
                if len(mism) < limit or (i != m and len(mism) < 4 * limit):
                    mism.append((n, c.rstrip("\n"), i.rstrip("\n"), m.rstrip("\n"), s.rstrip("\n")))
            if i.startswith("PANIC"):
                panics += 1
            distinct.add(hashlib.blake2b(c.encode(), digest_size=8).digest())
    return n, nmis, mism, {"kinds": kinds, "distinct_cases": len(distinct), "impl_panics": panics}


def exec_impl(case_lines, wd, fuzzing=False):
    os.makedirs(wd, exist_ok=True)
    cf, of = f"{wd}/replay.cases", f"{wd}/replay.impl"
    open(cf, "w").write("\n".join(case_lines) + "\n")
    hbin = HARNESS + ("/target-fuzzing/release/verif-harness" if fuzzing else "/target/release/verif-harness")
    rc, out, _ = sh([hbin, "exec", cf, of])
    if rc != 0:
        raise RuntimeError("harness exec failed: " + out[-1000:])
    return [l.rstrip("\n") for l in open(of)]


def exec_model(case_lines, wd, fuzzing=False):
    os.makedirs(wd, exist_ok=True)
    cf, of = f"{wd}/replay.cases", f"{wd}/replay.model"
    open(cf, "w").write("\n".join(case_lines) + "\n")
    rc, out, _ = sh([DRIVER, cf, of, of + ".spec"] + (["fuzzing"] if fuzzing else []))
    if rc != 0:
        raise RuntimeError("driver failed: " + out[-1000:])
    return [l.rstrip("\n") for l in open(of)], [l.rstrip("\n") for l in open(of + ".spec")]


# ------------------------------------------------------------------ in-Coq re-evaluation of a sample
def coq_list(nums):
    return "[" + "; ".join(str(x) for x in nums) + "]"


def hex_to_coq(tok):
    s = tok[1:]
    return coq_list(int(s[2 * i:2 * i + 2], 16) for i in range(len(s) // 2))


def coq_sample_check(pid, sample, render):
    """sample: list of (case_line, model_obs_line).  render(case_tokens) -> Coq term of type option (list N).
    Writes one Example per case, closed by vm_compute; coqc accepts iff the kernel agrees with the
    extracted code."""
    wd = f"{WORK}/{pid}"
    lines = ["From Coq Require Import List NArith.", "From TS Require Import Base.Res Model.All.",
             "Import ListNotations.", "Open Scope N_scope."]
    k = 0
    for case, obs in sample:
        term = render([t for t in case.split() if not t.startswith("#")])
        if term is None:
            continue
        exp = "None" if obs.startswith("PANIC") else f"Some {coq_list(obs.split())}"
        lines.append(f"Example case_{k} : {term} = {exp}. Proof. vm_compute. reflexivity. Qed.")
        k += 1
    f = f"{wd}/sample_cases.v"
    open(f, "w").write("\n".join(lines) + "\n")
    rc, out, dt = sh(f"timeout 1200 coqc -Q {COQ} TS {f}", cwd=wd)
    return rc == 0, k, out[-1500:]


# ------------------------------------------------------------------ evidence / verdict
def write_evidence(pid, tier, seed, t0, coverage, assumptions, violations):
    ev = {"property_id": pid, "tier": tier, "seed": seed, "level": "proof",
          "coverage": coverage, "assumptions": assumptions,
          "wall_s": round(time.time() - t0, 2), "violations": violations}
    os.makedirs(ROOT + "/evidence", exist_ok=True)
    with open(f"{ROOT}/evidence/{pid}.json", "w") as f:
        json.dump(ev, f, indent=1)


def write_replay(pid, seed, k, obj):
    os.makedirs(ROOT + "/replays", exist_ok=True)
    p = f"{ROOT}/replays/{pid}-{seed}-{k}.json"
    with open(p, "w") as f:
        json.dump(obj, f, indent=1)
    return p


def load_known():
    try:
        return json.load(open(ROOT + "/known_findings.json"))
    except FileNotFoundError:
        return []
