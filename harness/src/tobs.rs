//! Observations of descriptor loops, PAT and PMT bodies (mirrors Model/TablesObs.v).
use crate::obs::off_in;
use mpeg2ts_reader::descriptor::avcvideo::AvcVideoDescriptor;
use mpeg2ts_reader::descriptor::iso_639_language::{AudioType, Iso639LanguageDescriptor, LangError};
use mpeg2ts_reader::descriptor::max_bitrate::MaximumBitrateDescriptor;
use mpeg2ts_reader::descriptor::registration::RegistrationDescriptor;
use mpeg2ts_reader::descriptor::{CoreDescriptors, DescriptorError, DescriptorIter};
use mpeg2ts_reader::psi::pat::{PatSection, ProgramDescriptor};
use mpeg2ts_reader::psi::pmt::{PmtSection, StreamInfo};
use mpeg2ts_reader::demultiplex::DemuxError;

fn b(x: bool) -> u64 { x as u64 }

pub fn enc_desc_err(e: &DescriptorError, v: &mut Vec<u64>) {
    match e {
        DescriptorError::NotEnoughData { tag, actual, expected } => v.extend([1, *tag as u64, *actual as u64, *expected as u64]),
        DescriptorError::TagTooLongForBuffer { taglen, buflen } => v.extend([2, *taglen as u64, *buflen as u64]),
        DescriptorError::BufferTooShort { buflen } => v.extend([3, *buflen as u64]),
        DescriptorError::UnhandledTagValue(t) => v.extend([4, *t as u64]),
    }
}
fn obs_reg(d: &RegistrationDescriptor<'_>, base: &[u8], v: &mut Vec<u64>) {
    let f = d.format_identifier();
    for x in (f.0).0.iter() { v.push(*x as u64); }
    let a = d.additional_identification_info();
    v.push(off_in(base, a)); v.push(a.len() as u64);
    let _ = d.is_format(f);
}
fn obs_iso(d: &Iso639LanguageDescriptor<'_>, _base: &[u8], v: &mut Vec<u64>) {
    let items: Vec<_> = d.languages().collect();
    v.push(items.len() as u64);
    for it in items {
        match it {
            Ok(l) => {
                v.push(0);
                for ch in l.code().chars() { v.push(ch as u64); }
                v.push(match l.audio_type() { AudioType::Undefined => 0, AudioType::CleanEffects => 1, AudioType::HearingImpaired => 2, AudioType::VisualImpairedCommentary => 3, AudioType::Reserved(x) => x as u64 });
                let _ = format!("{:?}", l);
            }
            Err(LangError::TooShort { actual }) => { v.push(1); v.push(actual as u64); }
        }
    }
}
fn obs_mbr(d: &MaximumBitrateDescriptor<'_>, _base: &[u8], v: &mut Vec<u64>) {
    v.push(d.maximum_bitrate() as u64); v.push(d.maximum_bits_per_second() as u64);
}
fn obs_avc(d: &AvcVideoDescriptor<'_>, _base: &[u8], v: &mut Vec<u64>) {
    v.extend([d.profile_idc() as u64, b(d.constraint_set0_flag()), b(d.constraint_set1_flag()), b(d.constraint_set2_flag()),
        b(d.constraint_set3_flag()), b(d.constraint_set4_flag()), b(d.constraint_set5_flag()), d.avc_compatible_flags() as u64,
        d.level_idc() as u64, b(d.avc_still_present()), b(d.avc_24_hour_picture_flag()), b(d.frame_packing_sei_not_present_flag())]);
}
pub fn obs_desc(d: &CoreDescriptors<'_>, base: &[u8], v: &mut Vec<u64>) {
    let _ = format!("{:?}", d);
    match d {
        CoreDescriptors::Reserved(d) => { v.push(0); v.push(d.tag as u64); v.push(off_in(base, d.payload)); v.push(d.payload.len() as u64); }
        CoreDescriptors::VideoStream(d) => { v.push(1); v.push(d.tag as u64); v.push(off_in(base, d.payload)); v.push(d.payload.len() as u64); }
        CoreDescriptors::AudioStream(d) => { v.push(2); v.push(d.tag as u64); v.push(off_in(base, d.payload)); v.push(d.payload.len() as u64); }
        CoreDescriptors::Hierarchy(d) => { v.push(3); v.push(d.tag as u64); v.push(off_in(base, d.payload)); v.push(d.payload.len() as u64); }
        CoreDescriptors::Registration(d) => { v.push(4); obs_reg(d, base, v); }
        CoreDescriptors::DataStreamAlignment(d) => { v.push(5); v.push(d.tag as u64); v.push(off_in(base, d.payload)); v.push(d.payload.len() as u64); }
        CoreDescriptors::TargetBackgroundGrid(d) => { v.push(6); v.push(d.tag as u64); v.push(off_in(base, d.payload)); v.push(d.payload.len() as u64); }
        CoreDescriptors::VideoWindow(d) => { v.push(7); v.push(d.tag as u64); v.push(off_in(base, d.payload)); v.push(d.payload.len() as u64); }
        CoreDescriptors::CA(d) => { v.push(8); v.push(d.tag as u64); v.push(off_in(base, d.payload)); v.push(d.payload.len() as u64); }
        CoreDescriptors::ISO639Language(d) => { v.push(9); obs_iso(d, base, v); }
        CoreDescriptors::SystemClock(d) => { v.push(10); v.push(d.tag as u64); v.push(off_in(base, d.payload)); v.push(d.payload.len() as u64); }
        CoreDescriptors::MultiplexBufferUtilization(d) => { v.push(11); v.push(d.tag as u64); v.push(off_in(base, d.payload)); v.push(d.payload.len() as u64); }
        CoreDescriptors::Copyright(d) => { v.push(12); v.push(d.tag as u64); v.push(off_in(base, d.payload)); v.push(d.payload.len() as u64); }
        CoreDescriptors::MaximumBitrate(d) => { v.push(13); obs_mbr(d, base, v); }
        CoreDescriptors::PrivateDataIndicator(d) => { v.push(14); v.push(d.tag as u64); v.push(off_in(base, d.payload)); v.push(d.payload.len() as u64); }
        CoreDescriptors::SmoothingBuffer(d) => { v.push(15); v.push(d.tag as u64); v.push(off_in(base, d.payload)); v.push(d.payload.len() as u64); }
        CoreDescriptors::STD(d) => { v.push(16); v.push(d.tag as u64); v.push(off_in(base, d.payload)); v.push(d.payload.len() as u64); }
        CoreDescriptors::IBP(d) => { v.push(17); v.push(d.tag as u64); v.push(off_in(base, d.payload)); v.push(d.payload.len() as u64); }
        CoreDescriptors::IsoIec13818dash6(d) => { v.push(18); v.push(d.tag as u64); v.push(off_in(base, d.payload)); v.push(d.payload.len() as u64); }
        CoreDescriptors::MPEG4Video(d) => { v.push(19); v.push(d.tag as u64); v.push(off_in(base, d.payload)); v.push(d.payload.len() as u64); }
        CoreDescriptors::MPEG4Audio(d) => { v.push(20); v.push(d.tag as u64); v.push(off_in(base, d.payload)); v.push(d.payload.len() as u64); }
        CoreDescriptors::IOD(d) => { v.push(21); v.push(d.tag as u64); v.push(off_in(base, d.payload)); v.push(d.payload.len() as u64); }
        CoreDescriptors::SL(d) => { v.push(22); v.push(d.tag as u64); v.push(off_in(base, d.payload)); v.push(d.payload.len() as u64); }
        CoreDescriptors::FMC(d) => { v.push(23); v.push(d.tag as u64); v.push(off_in(base, d.payload)); v.push(d.payload.len() as u64); }
        CoreDescriptors::ExternalESID(d) => { v.push(24); v.push(d.tag as u64); v.push(off_in(base, d.payload)); v.push(d.payload.len() as u64); }
        CoreDescriptors::MuxCode(d) => { v.push(25); v.push(d.tag as u64); v.push(off_in(base, d.payload)); v.push(d.payload.len() as u64); }
        CoreDescriptors::FmxBufferSize(d) => { v.push(26); v.push(d.tag as u64); v.push(off_in(base, d.payload)); v.push(d.payload.len() as u64); }
        CoreDescriptors::MultiplexBuffer(d) => { v.push(27); v.push(d.tag as u64); v.push(off_in(base, d.payload)); v.push(d.payload.len() as u64); }
        CoreDescriptors::MontentLabeling(d) => { v.push(28); v.push(d.tag as u64); v.push(off_in(base, d.payload)); v.push(d.payload.len() as u64); }
        CoreDescriptors::MetadataPointer(d) => { v.push(29); v.push(d.tag as u64); v.push(off_in(base, d.payload)); v.push(d.payload.len() as u64); }
        CoreDescriptors::Metadata(d) => { v.push(30); v.push(d.tag as u64); v.push(off_in(base, d.payload)); v.push(d.payload.len() as u64); }
        CoreDescriptors::MetadataStd(d) => { v.push(31); v.push(d.tag as u64); v.push(off_in(base, d.payload)); v.push(d.payload.len() as u64); }
        CoreDescriptors::AvcVideo(d) => { v.push(32); obs_avc(d, base, v); }
        CoreDescriptors::IPMP(d) => { v.push(33); v.push(d.tag as u64); v.push(off_in(base, d.payload)); v.push(d.payload.len() as u64); }
        CoreDescriptors::AvcTimingAndHrd(d) => { v.push(34); v.push(d.tag as u64); v.push(off_in(base, d.payload)); v.push(d.payload.len() as u64); }
        CoreDescriptors::Mpeg2AacAudio(d) => { v.push(35); v.push(d.tag as u64); v.push(off_in(base, d.payload)); v.push(d.payload.len() as u64); }
        CoreDescriptors::FlexMuxTiming(d) => { v.push(36); v.push(d.tag as u64); v.push(off_in(base, d.payload)); v.push(d.payload.len() as u64); }
        CoreDescriptors::Mpeg4Text(d) => { v.push(37); v.push(d.tag as u64); v.push(off_in(base, d.payload)); v.push(d.payload.len() as u64); }
        CoreDescriptors::Mpeg4AudioExtension(d) => { v.push(38); v.push(d.tag as u64); v.push(off_in(base, d.payload)); v.push(d.payload.len() as u64); }
        CoreDescriptors::AuxiliaryVideoStream(d) => { v.push(39); v.push(d.tag as u64); v.push(off_in(base, d.payload)); v.push(d.payload.len() as u64); }
        CoreDescriptors::SvcExtension(d) => { v.push(40); v.push(d.tag as u64); v.push(off_in(base, d.payload)); v.push(d.payload.len() as u64); }
        CoreDescriptors::MvcExtension(d) => { v.push(41); v.push(d.tag as u64); v.push(off_in(base, d.payload)); v.push(d.payload.len() as u64); }
        CoreDescriptors::J2kVideo(d) => { v.push(42); v.push(d.tag as u64); v.push(off_in(base, d.payload)); v.push(d.payload.len() as u64); }
        CoreDescriptors::MvcOperationPoint(d) => { v.push(43); v.push(d.tag as u64); v.push(off_in(base, d.payload)); v.push(d.payload.len() as u64); }
        CoreDescriptors::Mpeg2StereoscopicVideoFormat(d) => { v.push(44); v.push(d.tag as u64); v.push(off_in(base, d.payload)); v.push(d.payload.len() as u64); }
        CoreDescriptors::StereoscopicProgramInfo(d) => { v.push(45); v.push(d.tag as u64); v.push(off_in(base, d.payload)); v.push(d.payload.len() as u64); }
        CoreDescriptors::StereoscopicVideoInfo(d) => { v.push(46); v.push(d.tag as u64); v.push(off_in(base, d.payload)); v.push(d.payload.len() as u64); }
        CoreDescriptors::TransportProfile(d) => { v.push(47); v.push(d.tag as u64); v.push(off_in(base, d.payload)); v.push(d.payload.len() as u64); }
        CoreDescriptors::HevcVideo(d) => { v.push(48); v.push(d.tag as u64); v.push(off_in(base, d.payload)); v.push(d.payload.len() as u64); }
        CoreDescriptors::Extension(d) => { v.push(49); v.push(d.tag as u64); v.push(off_in(base, d.payload)); v.push(d.payload.len() as u64); }
        CoreDescriptors::UserPrivate(d) => { v.push(50); v.push(d.tag as u64); v.push(off_in(base, d.payload)); v.push(d.payload.len() as u64); }
    }
}
pub fn obs_desc_items<'a>(it: impl Iterator<Item = Result<CoreDescriptors<'a>, DescriptorError>>, base: &[u8], v: &mut Vec<u64>) {
    let items: Vec<_> = it.collect();
    v.push(items.len() as u64);
    for i in items.iter() {
        match i {
            Ok(d) => { v.push(0); obs_desc(d, base, v); }
            Err(e) => { v.push(1); enc_desc_err(e, v); }
        }
    }
}
pub fn run_dsc(buf: &[u8]) -> Vec<u64> {
    let mut v = vec![];
    obs_desc_items(DescriptorIter::<CoreDescriptors<'_>>::new(buf), buf, &mut v);
    v
}
/// `Descriptor::from_bytes` on a slice whose first descriptor is complete and which goes on behind it: "the descriptor at
/// the start of the given slice"; encoded like a one-item loop
pub fn run_dsc1(buf: &[u8]) -> Vec<u64> {
    let mut v = vec![];
    obs_desc_items(std::iter::once(<CoreDescriptors<'_> as mpeg2ts_reader::descriptor::Descriptor>::from_bytes(buf)), buf, &mut v);
    v
}
pub fn run_pat(body: &[u8]) -> Vec<u64> {
    let mut v = vec![];
    let s = PatSection::new(body);
    let _ = format!("{:?}", s);
    let items: Vec<_> = s.programs().collect();
    v.push(items.len() as u64);
    for d in items {
        let _ = format!("{:?}", d);
        match d {
            ProgramDescriptor::Network { pid } => { v.extend([0, 0, u16::from(pid) as u64]); if d.pid() != pid { v.push(999); } }
            ProgramDescriptor::Program { program_number, pid } => { v.extend([1, program_number as u64, u16::from(pid) as u64]); if d.pid() != pid { v.push(999); } }
        }
    }
    v
}
pub fn obs_stream(s: &StreamInfo<'_>, base: &[u8], v: &mut Vec<u64>) {
    v.push(u8::from(s.stream_type()) as u64);
    v.push(u16::from(s.elementary_pid()) as u64);
    obs_desc_items(s.descriptors::<CoreDescriptors<'_>>(), base, v);
    let _ = format!("{:?}", s);
}
pub fn obs_pmt_section(p: &PmtSection<'_>, v: &mut Vec<u64>) {
    let base = p.buffer();
    v.push(u16::from(p.pcr_pid()) as u64);
    obs_desc_items(p.descriptors::<CoreDescriptors<'_>>(), base, v);
    let ss: Vec<_> = p.streams().collect();
    v.push(ss.len() as u64);
    for s in ss.iter() { obs_stream(s, base, v); }
    let _ = format!("{:?}", p);
}
pub fn run_pmt(body: &[u8]) -> Vec<u64> {
    let mut v = vec![];
    match PmtSection::from_bytes(body) {
        Err(DemuxError::NotEnoughData { field, expected, actual }) => {
            v.extend([1, if field == "program_map_section" { 0 } else if field == "descriptor" { 1 } else { 9 }, expected as u64, actual as u64]);
        }
        Ok(p) => {
            v.push(0); obs_pmt_section(&p, &mut v);
            // answers must not depend on what was asked before (see obs::run_af): the same value again, and a second value
            // asked back to front first (last stream first; descriptors before PID before type; PCR PID last)
            let mut again = vec![0]; obs_pmt_section(&p, &mut again);
            let mut rev = vec![0];
            if let Ok(q) = PmtSection::from_bytes(body) {
                let ss: Vec<_> = q.streams().collect();
                for s in ss.iter().rev() { let _ = s.descriptors::<CoreDescriptors<'_>>().count(); let _ = s.elementary_pid(); let _ = s.stream_type(); }
                let _ = q.descriptors::<CoreDescriptors<'_>>().count(); let _ = q.pcr_pid();
                obs_pmt_section(&q, &mut rev);
            }
            return crate::obs::stable(v, again, rev);
        }
    }
    v
}
