//! C13: adaptation-field optional fields.
use crate::util::*;

/// build an adaptation field body (after the length byte) of exactly `len` bytes with the given flags
/// whose length bytes are steered to boundary values relative to what remains
fn steer(rng: &mut Rng, flags: u8, len: usize, mode: u64) -> Vec<u8> {
    let mut b = match mode % 4 { 0 => vec![0u8; len], 1 => vec![0xffu8; len], 2 => (0..len).map(|i| i as u8).collect(), _ => rng.bytes(len) };
    b[0] = flags;
    let mut pos = 1usize;
    if flags & 0x10 != 0 { pos += 6; }
    if flags & 0x08 != 0 { pos += 6; }
    if flags & 0x04 != 0 { pos += 1; }
    if flags & 0x02 != 0 && pos < len {
        let fit = (len - pos - 1) as i64;
        let l = match rng.below(6) { 0 => 0, 1 => 1, 2 => fit - 1, 3 => fit, 4 => fit + 1, _ => if flags & 1 != 0 { (fit - rng.range(1, 13) as i64).max(0) } else { 255 } };
        let l = l.clamp(0, 255) as u8;
        b[pos] = l;
        pos += 1 + l as usize;
    }
    if flags & 0x01 != 0 && pos < len {
        let fit = (len - pos - 1) as i64;
        let l = match rng.below(6) { 0 => 0, 1 => 1, 2 => fit - 1, 3 => fit, 4 => fit + 1, _ => rng.range(0, 12) as i64 };
        let l = l.clamp(0, 255) as u8;
        b[pos] = l;
        if pos + 1 < len {
            // extension flags: all 8 combinations
            b[pos + 1] = ((rng.below(8) as u8) << 5) | (rng.byte() & 0x1f);
            // seamless splice markers mostly set
            let mut q = pos + 2;
            if b[pos + 1] & 0x80 != 0 { if q < len && rng.chance(1, 2) { b[q] |= 0x80; } q += 2; }
            if b[pos + 1] & 0x40 != 0 { q += 3; }
            if b[pos + 1] & 0x20 != 0 && q + 4 < len && rng.chance(3, 4) { b[q] |= 1; b[q + 2] |= 1; if rng.chance(3, 4) { b[q + 4] |= 1; } }
        }
    }
    b
}

pub fn gen(tier: &str, seed: u64, emit: &mut dyn FnMut(String)) {
    let mut rng = Rng::new(seed ^ 0xC13);
    let reps = if tier == "thorough" { 12 } else { 2 };
    // all 256 flag bytes x all lengths 1..=183 x fill modes, with steered private-data / extension lengths
    for flags in 0..=255u8 { for len in 1..=183usize { for rep in 0..reps {
        let b = steer(&mut rng, flags, len, rep + (flags as u64) + len as u64);
        emit(format!("AF {}", hex(&b)));
    } } }
    // extension-focused: all 8 extension flag sets x extension lengths 0..=12 x preceding optional fields
    for eflags in 0..8u8 { for elen in 0..=12usize { for pre in 0..8u8 { for _ in 0..(reps * 2) {
        let flags = (pre << 2) | 1 | (rng.byte() & 0xe0);
        let mut b = vec![flags];
        if flags & 0x10 != 0 { b.extend(rng.bytes(6)); }
        if flags & 0x08 != 0 { b.extend(rng.bytes(6)); }
        if flags & 0x04 != 0 { b.push(rng.byte()); }
        b.push(elen as u8);
        let extra = rng.below(3) as usize; let mut e = rng.bytes(elen + extra);
        if !e.is_empty() { e[0] = (eflags << 5) | (rng.byte() & 0x1f); }
        // set timestamp markers at the seamless-splice position most of the time
        let mut q = 1usize; if eflags & 4 != 0 { q += 2; } if eflags & 2 != 0 { q += 3; }
        if eflags & 1 != 0 && q + 4 < e.len() { for (i, m) in [(0usize, 3u64), (2, 3), (4, 3)] { if rng.chance(m, 4) { e[q + i] |= 1; } } }
        let cut = if rng.chance(1, 3) { rng.below(e.len() as u64 + 1) as usize } else { e.len() };
        b.extend_from_slice(&e[..cut]);
        emit(format!("AF {}", hex(&b)));
    } } } }
    // through packets: adaptation fields as the crate itself delimits them
    for _ in 0..(if tier == "thorough" { 200000 } else { 20000 }) {
        let mut p = rng.bytes(188);
        p[0] = 0x47; p[3] = (p[3] & 0xcf) | if rng.chance(1, 2) { 0x30 } else { 0x20 };
        p[4] = if p[3] & 0x10 != 0 { rng.range(1, 182) as u8 } else { 183 };
        let l = p[4] as usize;
        let flags = rng.byte();
        let af = steer(&mut rng, flags, l, 3);
        p[5..5 + l].copy_from_slice(&af);
        emit(format!("PKT {}", hex(&p)));
    }
}
