(* Proofs/TimestampProofs.v — C15: timestamps and clock references. *)
From Coq Require Import List NArith Lia ZArith ZifyN ZifyNat ZifyBool Bool.
From TS Require Import Base.Res Base.ListX Base.Bits Model.Timestamp Model.Packet Spec.TimestampSpec.
Import ListNotations.
Open Scope N_scope.
Ltac Zify.zify_post_hook ::= Z.div_mod_to_equations.

(* ---- byte-level facts by sweep ---- *)
Lemma b0_fact b : b < 256 -> N.land b 14 = ((b / 2) mod 8) * 2.
Proof. intros H. apply N.eqb_eq. sweep1 b H. Qed.
Lemma b2_fact b : b < 256 -> N.land b 254 = (b / 2) * 2.
Proof. intros H. apply N.eqb_eq. sweep1 b H. Qed.
Lemma marker_low b : b < 256 -> nz (N.land b 1) = negb ((b mod 2) =? 0).
Proof. intros H. apply Bool.eqb_prop. sweep1 b H. Qed.
Lemma shr4_fact b : b < 256 -> N.shiftr b 4 = b / 16.
Proof. intros H. apply N.eqb_eq. sweep1 b H. Qed.

Definition ts_val (b0 b1 b2 b3 b4 : N) : N :=
  N.lor (N.lor (N.lor (N.lor (N.shiftl (N.land b0 14) 29) (N.shiftl b1 22))
        (N.shiftl (N.land b2 254) 14)) (N.shiftl b3 7)) (N.shiftr b4 1).
Definition ts_arith (b0 b1 b2 b3 b4 : N) : N :=
  ((b0 / 2) mod 8) * 1073741824 + b1 * 4194304 + (b2 / 2) * 32768 + b3 * 128 + b4 / 2.

Lemma ts_val_arith b0 b1 b2 b3 b4 :
  b0 < 256 -> b1 < 256 -> b2 < 256 -> b3 < 256 -> b4 < 256 ->
  ts_val b0 b1 b2 b3 b4 = ts_arith b0 b1 b2 b3 b4.
Proof.
  intros H0 H1 H2 H3 H4. unfold ts_val, ts_arith.
  rewrite b0_fact, b2_fact by assumption.
  rewrite N.shiftr_div_pow2, !N.shiftl_mul_pow2.
  rewrite (lor_add _ (b1 * 2^22) 30) by (pow_eval; lia).
  rewrite (lor_add _ (b2 / 2 * 2 * 2^14) 22) by (pow_eval; lia).
  rewrite (lor_add _ (b3 * 2^7) 15) by (pow_eval; lia).
  rewrite (lor_add _ (b4 / 2^1) 7) by (pow_eval; lia).
  pow_eval. lia.
Qed.

(* the specification's fields on a 5-byte window *)
Section Five.
Variables b0 b1 b2 b3 b4 : N.
Hypotheses (H0 : b0 < 256) (H1 : b1 < 256) (H2 : b2 < 256) (H3 : b3 < 256) (H4 : b4 < 256).
Let w := [b0; b1; b2; b3; b4].

Lemma be_w : be w = b0 * 4294967296 + b1 * 16777216 + b2 * 65536 + b3 * 256 + b4.
Proof. apply be5. Qed.

Ltac fld := unfold field, nbits, w; cbn [length]; rewrite be5;
  repeat match goal with |- context [N.of_nat ?k] => let v := eval vm_compute in (N.of_nat k) in change (N.of_nat k) with v end;
  repeat match goal with |- context [8 * ?k - ?a - ?b] => let v := eval vm_compute in (8 * k - a - b) in change (8 * k - a - b) with v end;
  pow_eval.

Lemma f_prefix : field w 0 4 = b0 / 16.
Proof. fld. lia. Qed.
Lemma f_hi : field w 4 3 = (b0 / 2) mod 8.
Proof. fld. lia. Qed.
Lemma f_mid : field w 8 15 = b1 * 128 + b2 / 2.
Proof. fld. lia. Qed.
Lemma f_lo : field w 24 15 = b3 * 128 + b4 / 2.
Proof. fld. lia. Qed.
Lemma f_m7 : field w 7 1 = b0 mod 2.
Proof. fld. lia. Qed.
Lemma f_m23 : field w 23 1 = b2 mod 2.
Proof. fld. lia. Qed.
Lemma f_m39 : field w 39 1 = b4 mod 2.
Proof. fld. lia. Qed.

Lemma ts_value_w : s_ts_value w = ts_arith b0 b1 b2 b3 b4.
Proof. unfold s_ts_value, ts_arith. rewrite f_hi, f_mid, f_lo. lia. Qed.

Lemma ts_value_lt : s_ts_value w < 8589934592.
Proof. rewrite ts_value_w. unfold ts_arith. lia. Qed.
End Five.

(* ---- from a buffer of at least 5 bytes to its 5-byte window ---- *)
Lemma buf5_shape (buf : list N) : (5 <= length buf)%nat ->
  exists b0 b1 b2 b3 b4 rest, buf = b0 :: b1 :: b2 :: b3 :: b4 :: rest.
Proof.
  intros H. destruct buf as [|b0 [|b1 [|b2 [|b3 [|b4 rest]]]]]; cbn in H; try lia.
  exists b0, b1, b2, b3, b4, rest. reflexivity.
Qed.

Lemma field5 b0 b1 b2 b3 b4 rest off w :
  bytes_ok (b0 :: b1 :: b2 :: b3 :: b4 :: rest) -> off + w <= 40 ->
  field (b0 :: b1 :: b2 :: b3 :: b4 :: rest) off w = field [b0; b1; b2; b3; b4] off w.
Proof.
  intros Hok Hfit.
  change (b0 :: b1 :: b2 :: b3 :: b4 :: rest) with ([] ++ [b0; b1; b2; b3; b4] ++ rest).
  change off with (nbits [] + off) at 1.
  apply field_window; [| |cbn; lia].
  - apply (Forall_firstn _ _ 5) in Hok. exact Hok.
  - apply (Forall_skipn _ _ 5) in Hok. exact Hok.
Qed.

Lemma bytes5 b0 b1 b2 b3 b4 rest : bytes_ok (b0 :: b1 :: b2 :: b3 :: b4 :: rest) ->
  b0 < 256 /\ b1 < 256 /\ b2 < 256 /\ b3 < 256 /\ b4 < 256.
Proof.
  intros H. repeat match goal with H : bytes_ok (_ :: _) |- _ => inversion H; clear H; subst end.
  repeat match goal with H : Forall _ (_ :: _) |- _ => inversion H; clear H; subst end.
  repeat split; assumption.
Qed.

Lemma marker_bit_7 b0 r : b0 < 256 ->
  check_marker_bit (b0 :: r) 7 = Ok (if negb (b0 mod 2 =? 0) then ROk tt else RErr (MarkerBitNotSet 7)).
Proof.
  intros H. unfold check_marker_bit. change (N.to_nat (7 / 8)) with 0%nat.
  cbn [idx nth_error bind]. change (N.shiftl 1 (7 - 7 mod 8)) with 1.
  rewrite marker_low by assumption. reflexivity.
Qed.
Lemma marker_bit_23 b0 b1 b2 r : b2 < 256 ->
  check_marker_bit (b0 :: b1 :: b2 :: r) 23 = Ok (if negb (b2 mod 2 =? 0) then ROk tt else RErr (MarkerBitNotSet 23)).
Proof.
  intros H. unfold check_marker_bit. change (N.to_nat (23 / 8)) with 2%nat.
  cbn [idx nth_error bind]. change (N.shiftl 1 (7 - 23 mod 8)) with 1.
  rewrite marker_low by assumption. reflexivity.
Qed.
Lemma marker_bit_39 b0 b1 b2 b3 b4 r : b4 < 256 ->
  check_marker_bit (b0 :: b1 :: b2 :: b3 :: b4 :: r) 39 = Ok (if negb (b4 mod 2 =? 0) then ROk tt else RErr (MarkerBitNotSet 39)).
Proof.
  intros H. unfold check_marker_bit. change (N.to_nat (39 / 8)) with 4%nat.
  cbn [idx nth_error bind]. change (N.shiftl 1 (7 - 39 mod 8)) with 1.
  rewrite marker_low by assumption. reflexivity.
Qed.

Lemma c15_decode (buf : list N) : (5 <= length buf)%nat -> bytes_ok buf ->
  ts_from_bytes buf = Ok (s_ts_decode buf).
Proof.
  intros Hl Hok. destruct (buf5_shape buf Hl) as (b0 & b1 & b2 & b3 & b4 & rest & ->).
  destruct (bytes5 _ _ _ _ _ _ Hok) as (H0 & H1 & H2 & H3 & H4).
  unfold s_ts_decode, s_ts_value, bitf.
  rewrite !(field5 b0 b1 b2 b3 b4 rest) by (assumption || lia).
  rewrite f_m7, f_m23, f_m39 by assumption.
  pose proof (ts_value_w b0 b1 b2 b3 b4 H0 H1 H2 H3 H4) as Hv. unfold s_ts_value in Hv. rewrite Hv.
  unfold ts_from_bytes.
  rewrite marker_bit_7, marker_bit_23, marker_bit_39 by assumption.
  destruct (b0 mod 2 =? 0); cbn [negb rbind]; [reflexivity|].
  destruct (b2 mod 2 =? 0); cbn [negb rbind]; [reflexivity|].
  destruct (b4 mod 2 =? 0); cbn [negb rbind]; [reflexivity|].
  cbn [idx nth_error bind]. do 2 f_equal.
  apply (ts_val_arith b0 b1 b2 b3 b4); assumption.
Qed.

Lemma c15_decode_range (buf : list N) v : (5 <= length buf)%nat -> bytes_ok buf ->
  ts_from_bytes buf = Ok (ROk v) -> v <= TS_MAX.
Proof.
  intros Hl Hok. rewrite c15_decode by assumption.
  destruct (buf5_shape buf Hl) as (b0 & b1 & b2 & b3 & b4 & rest & ->).
  destruct (bytes5 _ _ _ _ _ _ Hok) as (H0 & H1 & H2 & H3 & H4).
  unfold s_ts_decode. repeat (destruct (negb _); [discriminate|]).
  intros E. inversion E; subst. unfold s_ts_value.
  rewrite !(field5 b0 b1 b2 b3 b4 rest) by (assumption || lia).
  pose proof (ts_value_lt b0 b1 b2 b3 b4 H0 H1 H2 H3 H4) as Hlt. unfold s_ts_value in Hlt.
  unfold TS_MAX. lia.
Qed.

Lemma check_prefix_spec (buf : list N) expected : (5 <= length buf)%nat -> bytes_ok buf -> expected <= 15 ->
  check_prefix buf expected =
  Ok (if s_ts_prefix buf =? expected then ROk tt else RErr (IncorrectPrefixBits expected (s_ts_prefix buf))).
Proof.
  intros Hl Hok He. destruct (buf5_shape buf Hl) as (b0 & b1 & b2 & b3 & b4 & rest & ->).
  destruct (bytes5 _ _ _ _ _ _ Hok) as (H0 & H1 & H2 & H3 & H4).
  unfold check_prefix, assert. replace (expected <=? 15) with true by lia. cbn [bind idx nth_error].
  unfold s_ts_prefix. rewrite (field5 b0 b1 b2 b3 b4 rest) by (assumption || lia).
  rewrite f_prefix by assumption. rewrite shr4_fact by assumption. reflexivity.
Qed.

Lemma c15_decode_pts (buf : list N) : (5 <= length buf)%nat -> bytes_ok buf ->
  ts_from_pts_bytes buf = Ok (s_ts_decode_prefixed 2 buf) /\
  ts_from_dts_bytes buf = Ok (s_ts_decode_prefixed 1 buf).
Proof.
  intros Hl Hok. unfold ts_from_pts_bytes, ts_from_dts_bytes, s_ts_decode_prefixed.
  rewrite !check_prefix_spec by (assumption || lia).
  split.
  - destruct (s_ts_prefix buf =? 2); cbn [rbind]; [apply c15_decode; assumption|reflexivity].
  - destruct (s_ts_prefix buf =? 1); cbn [rbind]; [apply c15_decode; assumption|reflexivity].
Qed.

(* ---- round trip ---- *)
Lemma c15_roundtrip prefix v : prefix < 16 -> v < 8589934592 ->
  bytes_ok (ts_encode prefix v) /\
  ts_from_bytes (ts_encode prefix v) = Ok (ROk v) /\
  s_ts_prefix (ts_encode prefix v) = prefix.
Proof.
  intros Hp Hv. unfold ts_encode.
  set (a := prefix * 16 + v / 1073741824 * 2 + 1).
  set (b := (v / 4194304) mod 256). set (c := (v / 32768) mod 128 * 2 + 1).
  set (d := (v / 128) mod 256). set (e := v mod 128 * 2 + 1).
  assert (Ha : a < 256) by (unfold a; lia). assert (Hb : b < 256) by (unfold b; lia).
  assert (Hc : c < 256) by (unfold c; lia). assert (Hd : d < 256) by (unfold d; lia).
  assert (He : e < 256) by (unfold e; lia).
  assert (Hok : bytes_ok [a; b; c; d; e]) by (repeat constructor; assumption).
  split; [exact Hok|]. split.
  - rewrite c15_decode by (cbn; lia || exact Hok).
    unfold s_ts_decode, bitf. rewrite f_m7, f_m23, f_m39 by assumption.
    replace (a mod 2 =? 0) with false by (unfold a; lia).
    replace (c mod 2 =? 0) with false by (unfold c; lia).
    replace (e mod 2 =? 0) with false by (unfold e; lia).
    cbn [negb]. do 2 f_equal. rewrite ts_value_w by assumption. unfold ts_arith, a, b, c, d, e. lia.
  - unfold s_ts_prefix. rewrite f_prefix by assumption. unfold a. lia.
Qed.

(* ---- constructors and wrap detection ---- *)
Lemma c15_from_u64 v : ts_from_u64 v = if v <? 8589934592 then Ok v else Panic 209.
Proof. unfold ts_from_u64, assert. destruct (v <? 8589934592); reflexivity. Qed.

Lemma c15_wrap e d : e < 8589934592 -> d <= 4294967296 ->
  ts_likely_wrapped_since ((e + d) mod 8589934592) e = (8589934592 <=? e + d).
Proof.
  intros He Hd. unfold ts_likely_wrapped_since, TS_MAX. change (8589934591 / 2) with 4294967295.
  destruct (N.leb_spec 8589934592 (e + d)) as [Hw|Hw].
  - assert (Hm : (e + d) mod 8589934592 = e + d - 8589934592) by lia. rewrite Hm.
    replace (e + d - 8589934592 <=? e) with true by lia. lia.
  - rewrite N.mod_small by lia.
    destruct (N.leb_spec (e + d) e); lia.
Qed.

Lemma c15_clockref_from_parts base ext :
  clockref_from_parts base ext =
  if (base <? 8589934592) then (if ext <? 512 then Ok {| cr_base := base; cr_ext := ext |} else Panic 108) else Panic 107.
Proof. unfold clockref_from_parts, assert. destruct (base <? 8589934592), (ext <? 512); reflexivity. Qed.

(* ---- ClockRef::from_slice: 33-bit base | 6 reserved | 9-bit extension ---- *)
Lemma and1_fact b : b < 256 -> N.land b 1 = b mod 2.
Proof. intros H. apply N.eqb_eq. sweep1 b H. Qed.
Lemma shr7_fact b : b < 256 -> N.shiftr b 7 = b / 128.
Proof. intros H. apply N.eqb_eq. sweep1 b H. Qed.

Lemma buf6_shape (buf : list N) : (6 <= length buf)%nat ->
  exists b0 b1 b2 b3 b4 b5 rest, buf = b0 :: b1 :: b2 :: b3 :: b4 :: b5 :: rest.
Proof.
  intros H. destruct buf as [|b0 [|b1 [|b2 [|b3 [|b4 [|b5 rest]]]]]]; cbn in H; try lia.
  exists b0, b1, b2, b3, b4, b5, rest. reflexivity.
Qed.

Lemma field6 b0 b1 b2 b3 b4 b5 rest off w :
  bytes_ok (b0 :: b1 :: b2 :: b3 :: b4 :: b5 :: rest) -> off + w <= 48 ->
  field (b0 :: b1 :: b2 :: b3 :: b4 :: b5 :: rest) off w = field [b0; b1; b2; b3; b4; b5] off w.
Proof.
  intros Hok Hfit.
  change (b0 :: b1 :: b2 :: b3 :: b4 :: b5 :: rest) with ([] ++ [b0; b1; b2; b3; b4; b5] ++ rest).
  change off with (nbits [] + off) at 1.
  apply field_window; [| |cbn; lia].
  - apply (Forall_firstn _ _ 6) in Hok. exact Hok.
  - apply (Forall_skipn _ _ 6) in Hok. exact Hok.
Qed.

Lemma pcr_fields b0 b1 b2 b3 b4 b5 :
  b0 < 256 -> b1 < 256 -> b2 < 256 -> b3 < 256 -> b4 < 256 -> b5 < 256 ->
  field [b0; b1; b2; b3; b4; b5] 0 33 = b0 * 33554432 + b1 * 131072 + b2 * 512 + b3 * 2 + b4 / 128 /\
  field [b0; b1; b2; b3; b4; b5] 39 9 = (b4 mod 2) * 256 + b5.
Proof.
  intros. unfold field, nbits. cbn [length]. rewrite be6.
  change (8 * N.of_nat 6 - 0 - 33) with 15. change (8 * N.of_nat 6 - 39 - 9) with 0.
  pow_eval. split; lia.
Qed.

Lemma c15_clockref_from_slice (data : list N) : (6 <= length data)%nat -> bytes_ok data ->
  clockref_from_slice data = Ok {| cr_base := s_pcr_base data; cr_ext := s_pcr_ext data |} /\
  s_pcr_base data < 8589934592 /\ s_pcr_ext data < 512.
Proof.
  intros Hl Hok. destruct (buf6_shape data Hl) as (b0 & b1 & b2 & b3 & b4 & b5 & rest & ->).
  assert (Hb : b0 < 256 /\ b1 < 256 /\ b2 < 256 /\ b3 < 256 /\ b4 < 256 /\ b5 < 256).
  { repeat match goal with H : bytes_ok (_ :: _) |- _ => inversion H; clear H; subst end.
    repeat match goal with H : Forall _ (_ :: _) |- _ => inversion H; clear H; subst end.
    repeat split; assumption. }
  destruct Hb as (H0 & H1 & H2 & H3 & H4 & H5).
  unfold s_pcr_base, s_pcr_ext. rewrite !(field6 b0 b1 b2 b3 b4 b5 rest) by (assumption || lia).
  destruct (pcr_fields b0 b1 b2 b3 b4 b5 H0 H1 H2 H3 H4 H5) as [E1 E2]. rewrite E1, E2.
  split; [|split; lia].
  unfold clockref_from_slice. cbn [idx nth_error bind]. f_equal. f_equal.
  - rewrite shr7_fact by assumption. rewrite !N.shiftl_mul_pow2.
    rewrite (lor_add _ (b1 * 2^17) 25) by (pow_eval; lia).
    rewrite (lor_add _ (b2 * 2^9) 17) by (pow_eval; lia).
    rewrite (lor_add _ (b3 * 2^1) 9) by (pow_eval; lia).
    rewrite (lor_add _ (b4 / 128) 1) by (pow_eval; lia).
    pow_eval. lia.
  - rewrite and1_fact by assumption. rewrite N.shiftl_mul_pow2.
    rewrite (lor_add _ b5 8) by (pow_eval; lia). pow_eval. lia.
Qed.

Lemma c15_clockref_u64 c : cr_base c < 8589934592 -> cr_ext c < 512 ->
  clockref_to_u64 c = cr_base c * 300 + cr_ext c /\ clockref_to_u64 c < 18446744073709551616.
Proof. intros. unfold clockref_to_u64. split; lia. Qed.

(* ---- wrap detection over ALL pairs of in-range timestamps (converse direction of c15_wrap) ---- *)
Lemma c15_wrap_pairs : forall self since, self < 8589934592 -> since < 8589934592 ->
  ts_likely_wrapped_since self since = true <->
  exists d, 0 < d /\ d <= 4294967296 /\ 8589934592 <= since + d /\ self = (since + d) mod 8589934592.
Proof.
  intros self since Hs Hn. unfold ts_likely_wrapped_since, TS_MAX.
  change (8589934591 / 2) with 4294967295.
  split.
  - destruct (self <=? since) eqn:E; [|discriminate]. intros H.
    exists (self + 8589934592 - since). lia.
  - intros [d [H0 [H1 [H2 H3]]]].
    assert (self = since + d - 8589934592) by lia.
    destruct (self <=? since) eqn:E; lia.
Qed.

Lemma c15_wrap_antisym : forall a b, ts_likely_wrapped_since a b = true -> ts_likely_wrapped_since b a = false.
Proof.
  intros a b. unfold ts_likely_wrapped_since, TS_MAX. change (8589934591 / 2) with 4294967295.
  destruct (a <=? b) eqn:E1; destruct (b <=? a) eqn:E2; lia.
Qed.
