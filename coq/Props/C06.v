(* Props/C06.v — C06: each packet reaches only its own PID's handler; flagged packets reach none. *)
From TS Require Import Base.Res Model.Timestamp Model.Packet Model.PesFilter Model.Crc Model.Psi Model.Demux
  Spec.Dispatch Proofs.DispatchProofs Proofs.ProjectionProofs Proofs.SerialProofs.
Open Scope N_scope.

(* the loop of Demultiplex::push (one look-up per run of equal PIDs, re-look-up after a change-set) IS the
   per-packet dispatcher of Spec/Dispatch.v: for every packet list, table, context, policy and scripts *)
Theorem C06_refines : forall policy scripts fuzzing deep pkts fs cx cached, cache_ok fs cached ->
  push_loop policy scripts fuzzing deep fs cx cached pkts = spec_push policy scripts fuzzing deep fs cx pkts.
Proof. exact c06_refines. Qed.
Print Assumptions C06_refines.

(* push = that dispatcher over exactly the 188-byte chunks with a valid sync byte, in stream order
   (a bad sync byte skips that chunk only; after fix F6) *)
Theorem C06_push : forall policy scripts fuzzing deep fs cx base buf,
  push policy scripts fuzzing deep fs cx base buf =
  spec_push policy scripts fuzzing deep fs cx (chunks_pure (length buf / 188) base buf).
Proof. exact push_spec. Qed.
Print Assumptions C06_push.

(* flagged packets are passed to no handler and change nothing *)
Theorem C06_flagged_none : forall policy scripts fuzzing deep fs cx i pk pid hd,
  pkt_pid pk = Ok pid -> filters_get fs pid = Some hd ->
  (pkt_transport_error_indicator pk = Ok true \/
   (pkt_transport_error_indicator pk = Ok false /\ exists tsc, pkt_transport_scrambling_control pk = Ok tsc /\ tsc_is_scrambled tsc = true)) ->
  spec_packet policy scripts fuzzing deep fs cx (i, pk) = Ok (fs, cx, []).
Proof. exact flagged_none. Qed.
Print Assumptions C06_flagged_none.

(* the growable vector indexed by PID behaves as a map: insert never panics (also for pid = len) *)
Theorem C06_filters_insert : forall fs pid h, wf fs -> exists fs', filters_insert fs pid h = Ok fs' /\ wf fs' /\
  filters_get fs' pid = Some h /\ (forall p, p <> pid -> filters_get fs' p = filters_get fs p).
Proof. exact insert_spec. Qed.
Print Assumptions C06_filters_insert.

Theorem C06_filters_remove : forall fs pid, wf fs -> wf (filters_remove fs pid) /\
  filters_get (filters_remove fs pid) pid = None /\ (forall p, p <> pid -> filters_get (filters_remove fs pid) p = filters_get fs p).
Proof. exact remove_spec. Qed.
Print Assumptions C06_filters_remove.

(* ---- the consequence: what one PID's handler observes depends on that PID's own packets only ---- *)

(* [pid_run p hd pkts] is, by its definition, a function of the packets of PID p alone (others are skipped
   unexamined: C06_pid_run_proj).  In every table whose packets' PIDs have handlers that queue no changes
   (recording handlers, PES filters), the dispatcher leaves in PID p's entry exactly the handler pid_run
   computes, and the events carrying that handler's serial are exactly the events pid_run computes: each packet
   reached its own PID's handler, exactly once, in stream order, and no other handler. *)
Theorem C06_projection : forall policy scripts fuzzing deep pkts fs cx r,
  wf fs -> cx_changes cx = nil -> quiet_world fs pkts -> serial_inj fs ->
  spec_push policy scripts fuzzing deep fs cx pkts = Ok r ->
  snd (fst r) = cx /\
  forall p hd, filters_get fs p = Some hd ->
    exists hd', pid_run policy scripts fuzzing deep p hd pkts = Ok (hd', sel (handler_serial hd) (snd r)) /\
                filters_get (fst (fst r)) p = Some hd'.
Proof. exact c06_projection. Qed.
Print Assumptions C06_projection.

Theorem C06_pid_run_proj : forall policy scripts fuzzing deep p pkts hd,
  pid_run policy scripts fuzzing deep p hd pkts = pid_run policy scripts fuzzing deep p hd (proj p pkts).
Proof. exact pid_run_proj. Qed.
Print Assumptions C06_pid_run_proj.

(* two inputs in which PID p's packets are the same in the same order — packets of other PIDs interleaved in
   any way, different ones, more or fewer of them — make p's handler observe the same call-backs and leave it
   in the same state *)
Theorem C06_interleaving : forall policy scripts fuzzing deep pkts1 pkts2 fs cx r1 r2 p hd,
  wf fs -> cx_changes cx = nil -> serial_inj fs ->
  quiet_world fs pkts1 -> quiet_world fs pkts2 -> proj p pkts1 = proj p pkts2 -> filters_get fs p = Some hd ->
  spec_push policy scripts fuzzing deep fs cx pkts1 = Ok r1 -> spec_push policy scripts fuzzing deep fs cx pkts2 = Ok r2 ->
  sel (handler_serial hd) (snd r1) = sel (handler_serial hd) (snd r2) /\
  filters_get (fst (fst r1)) p = filters_get (fst (fst r2)) p.
Proof. exact c06_interleaving. Qed.
Print Assumptions C06_interleaving.

(* the two standing hypotheses of C06_projection are met by EVERY state the demultiplexer can reach: after Demultiplex::new
   and any sequence of push calls (any bytes, any policy, any scripts, both cfgs, both observers) the handler table is
   well formed, no two of its handlers share a serial number, and the change queue is empty *)
Theorem C06_reachable_tables : forall policy scripts fuzzing deep bufs fs cx ev,
  run_demux policy scripts fuzzing deep bufs = Ok (fs, cx, ev) -> wf fs /\ serial_inj fs /\ cx_changes cx = nil.
Proof. exact reachable_serial_inj. Qed.
Print Assumptions C06_reachable_tables.

Example C06_projection_nonvacuous :
  let fs := {| f_len := 258; f_slots := ((256, HRec 5) :: (257, HRec 6) :: nil) |} in
  let pkA := (71 :: 1 :: 0 :: 16 :: List.repeat 255 184) in
  let pkB := (71 :: 1 :: 1 :: 16 :: List.repeat 255 184) in
  wf fs /\ serial_inj fs /\ quiet_world fs ((0, pkA) :: (188, pkB) :: (376, pkA) :: nil) /\
  proj 256 ((0, pkA) :: (188, pkB) :: (376, pkA) :: nil) = ((0, pkA) :: (376, pkA) :: nil).
Proof.
  cbv zeta. split; [|split; [|split]].
  - intros k. cbn [f_slots f_len assoc]. destruct (N.eqb_spec 256 k); [intros _; subst; reflexivity|].
    destruct (N.eqb_spec 257 k); [intros _; subst; reflexivity|]. intros H; contradiction H; reflexivity.
  - intros p1 p2 h1 h2 G1 G2 Hs. unfold filters_get in *. cbn [f_len f_slots assoc] in *.
    destruct (p1 <? 258); [|discriminate]. destruct (p2 <? 258); [|discriminate].
    destruct (N.eqb_spec 256 p1); destruct (N.eqb_spec 256 p2); destruct (N.eqb_spec 257 p1); destruct (N.eqb_spec 257 p2);
    try discriminate; try congruence; inversion G1; inversion G2; subst; cbn in Hs; discriminate.
  - repeat constructor; cbn [snd]; [exists 256, (HRec 5)|exists 257, (HRec 6)|exists 256, (HRec 5)]; repeat split; vm_compute; reflexivity.
  - vm_compute. reflexivity.
Qed.
