(* Base/ListX.v — list slicing lemmas that Coq 8.16's List lacks. *)
From Coq Require Import List Arith Lia.
Import ListNotations.

Section L.
Context {A : Type}.
Implicit Types l : list A.

Lemma In_firstn l n x : In x (firstn n l) -> In x l.
Proof. intros H. rewrite <- (firstn_skipn n l). apply in_or_app. left. exact H. Qed.
Lemma In_skipn l n x : In x (skipn n l) -> In x l.
Proof. intros H. rewrite <- (firstn_skipn n l). apply in_or_app. right. exact H. Qed.
Lemma Forall_firstn (P : A -> Prop) l n : Forall P l -> Forall P (firstn n l).
Proof. rewrite !Forall_forall. intros H x Hx. apply H. eapply In_firstn; eauto. Qed.
Lemma Forall_skipn (P : A -> Prop) l n : Forall P l -> Forall P (skipn n l).
Proof. rewrite !Forall_forall. intros H x Hx. apply H. eapply In_skipn; eauto. Qed.

Lemma app_eq_prefix (x rest a extra : list A) :
  x ++ rest = a ++ extra -> length x <= length a ->
  x = firstn (length x) a /\ rest = skipn (length x) a ++ extra.
Proof.
  revert a. induction x as [|h x IH]; intros a H Hl; cbn in *.
  - split; [reflexivity|]. exact H.
  - destruct a as [|h' a]; cbn in *; [lia|]. inversion H; subst.
    destruct (IH a H2 ltac:(lia)) as [E1 E2]. split; [f_equal; exact E1 | exact E2].
Qed.
Lemma firstn_add_skipn l k n : firstn k l ++ firstn n (skipn k l) = firstn (k + n) l.
Proof.
  revert l. induction k as [|k IH]; intros l; cbn; [reflexivity|].
  destruct l; cbn; [rewrite firstn_nil; reflexivity|]. f_equal. apply IH.
Qed.
Lemma skipn_skipn l a b : skipn a (skipn b l) = skipn (b + a) l.
Proof. revert l; induction b as [|b IH]; intros l; cbn; [reflexivity|]. destruct l; [rewrite skipn_nil; reflexivity|apply IH]. Qed.

Lemma nth_error_firstn l n i : i < n -> nth_error (firstn n l) i = nth_error l i.
Proof.
  revert l i. induction n as [|n IH]; intros l i H; [lia|].
  destruct l as [|a l]; [destruct i; reflexivity|]. destruct i as [|i]; cbn; [reflexivity|].
  apply IH. lia.
Qed.
Lemma nth_error_skipn l n i : nth_error (skipn n l) i = nth_error l (n + i).
Proof.
  revert l. induction n as [|n IH]; intros l; cbn; [reflexivity|].
  destruct l as [|a l]; [destruct i; reflexivity|]. apply IH.
Qed.
Lemma nth_error_app_l l l' i : i < length l -> nth_error (l ++ l') i = nth_error l i.
Proof. intros. apply nth_error_app1. assumption. Qed.

Lemma firstn_app_exact l l' : firstn (length l) (l ++ l') = l.
Proof. rewrite firstn_app, Nat.sub_diag, firstn_O, app_nil_r. apply firstn_all. Qed.
Lemma skipn_app_exact l l' : skipn (length l) (l ++ l') = l'.
Proof. rewrite skipn_app, Nat.sub_diag, skipn_all. reflexivity. Qed.
End L.
