(* Props/C12.v — C12: transport packet header fields and payload/adaptation split are exact.
   Only statements, each closed by [exact <lemma>], followed by Print Assumptions. *)
From TS Require Import Base.Res Base.Bits Model.Timestamp Model.Packet Spec.PacketSpec Proofs.PacketProofs.
Open Scope N_scope.

(* every fixed-header accessor returns the bits 13818-1 2.4.3.2 assigns to the field, never panics *)
Theorem C12_fields : forall p : list N, length p = 188%nat -> bytes_ok p ->
  pkt_transport_error_indicator p = Ok (s_tei p) /\
  pkt_payload_unit_start_indicator p = Ok (s_pusi p) /\
  pkt_transport_priority p = Ok (s_priority p) /\
  pkt_pid p = Ok (s_pid p) /\ s_pid p <= 8191 /\
  (exists b, pkt_transport_scrambling_control p = Ok b /\
     tsc_scheme b = s_scrambling p /\ tsc_is_scrambled b = negb (s_scrambling p =? 0)) /\
  (exists b, pkt_adaptation_control p = Ok b /\
     s_afc p = 2 * b2n (ac_has_adaptation_field b) + b2n (ac_has_payload b)) /\
  pkt_continuity_counter p = Ok (s_counter p).
Proof. exact c12_fields. Qed.
Print Assumptions C12_fields.

(* adaptation field and payload are exactly the byte ranges implied by control and length *)
Theorem C12_split : forall p : list N, length p = 188%nat -> bytes_ok p ->
  pkt_adaptation_field p = Ok (range_bytes p (s_af_range (s_afc p) (s_af_length p))) /\
  pkt_payload p = Ok (range_bytes p (s_payload_range (s_afc p) (s_af_length p))).
Proof. exact c12_split. Qed.
Print Assumptions C12_split.

(* those ranges are disjoint, in bounds; a payload is non-empty and ends at the last byte;
   illegal combinations give no field / no payload *)
Theorem C12_ranges : forall afc L, afc < 4 -> L < 256 ->
  match s_af_range afc L, s_payload_range afc L with
  | Some (ao, al), Some (po, pl) => (5 <= ao /\ 0 < al /\ ao + al = po /\ 0 < pl /\ po + pl = 188)%nat
  | Some (ao, al), None => (ao = 5 /\ 0 < al /\ ao + al <= 188)%nat
  | None, Some (po, pl) => (4 <= po /\ 0 < pl /\ po + pl = 188)%nat
  | None, None => True
  end.
Proof. exact c12_ranges. Qed.
Print Assumptions C12_ranges.

(* try_new accepts exactly the 188-byte strings that start with the sync byte *)
Theorem C12_try_new : forall buf : list N, length buf = 188%nat -> bytes_ok buf ->
  pkt_try_new buf = Ok (if s_sync buf =? 71 then Some buf else None).
Proof. exact c12_try_new. Qed.
Print Assumptions C12_try_new.

(* non-vacuity: a concrete packet with adaptation field and payload *)
Example C12_nonvacuous :
  let p := [71; 65; 0; 55; 7; 16; 1; 2; 3; 4; 5; 6] ++ repeat 9 176 in
  length p = 188%nat /\ s_pid p = 256 /\ s_afc p = 3 /\
  pkt_payload p = Ok (Some (12%nat, repeat 9 176)).
Proof. vm_compute. repeat split; reflexivity. Qed.
