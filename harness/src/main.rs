//! Correspondence harness: runs the real crate (path dependency on /repo) on generated cases and
//! writes, line-aligned, the cases and what the implementation did.
//!   verif-harness gen <suite> <quick|thorough> <seed> <outdir>   -> <outdir>/<suite>.cases/.impl
//!   verif-harness exec <casesfile> <outfile>                     -> re-run given case lines
mod app;
mod cases;
mod mux;
mod obs;
mod quiet;
mod suites;
mod tobs;
mod util;
use std::io::{BufRead, Write};

#[global_allocator]
static GLOBAL: quiet::Counting = quiet::Counting;

/// a logger that is enabled at every level and does nothing: the arguments of the library's log macros are evaluated (a panic
/// hidden in one of them shows), nothing is formatted, nothing is allocated
struct NullLog;
impl log::Log for NullLog {
    fn enabled(&self, _: &log::Metadata) -> bool { true }
    fn log(&self, _: &log::Record) {}
    fn flush(&self) {}
}
static NULL_LOG: NullLog = NullLog;

fn main() {
    let _ = log::set_logger(&NULL_LOG); log::set_max_level(log::LevelFilter::Trace);
    let a: Vec<String> = std::env::args().collect();
    if std::env::var("VERIF_HARNESS_VERBOSE").is_err() { std::panic::set_hook(Box::new(|_| {})); }
    match a.get(1).map(|s| s.as_str()) {
        Some("gen") if a.len() >= 6 => {
            let (suite, tier, seed, dir) = (a[2].as_str(), a[3].as_str(), a[4].parse::<u64>().unwrap(), a[5].as_str());
            let mut out = util::Out::new(dir, suite);
            // case kinds whose oracle is defined on EVERY input (exact decoders; the PES filter's predicates recompute what must
            // happen from the packets themselves) get a sibling with relations induced between its bytes
            let mut rrng = util::Rng::new(seed ^ 0x5e1a7e);
            let mut emit = |line: String| {
                let o = cases::exec_case(&line); out.case(&line, o);
                let kind = line.split(' ').next().unwrap_or("");
                let p = match kind { "P12" | "PKT" | "AF" | "PES" | "PPC" | "DSC" | "PAT" | "PMT" | "TSB" | "CRS" => 2, "PESF" | "CRC" => 4, _ => 0 };
                if p > 0 && !line.contains('#') && rrng.chance(1, p) {
                    let toks: Vec<&str> = line.split(' ').collect();
                    let hexes: Vec<usize> = (1..toks.len()).filter(|&k| toks[k].starts_with('x') && toks[k].len() >= 5).collect();
                    if !hexes.is_empty() {
                        let k = *rrng.pick(&hexes);
                        let mut b = util::unhex(toks[k]); util::relate(&mut b, &mut rrng);
                        let mut t2: Vec<String> = toks.iter().map(|s| s.to_string()).collect(); t2[k] = util::hex(&b);
                        let l2 = t2.join(" ");
                        if l2 != line { let o2 = cases::exec_case(&l2); out.case(&l2, o2); }
                    }
                }
            };
            match suite {
                "C12" => suites::c12::gen(tier, seed, &mut emit),
                "C15" => suites::c15::gen(tier, seed, &mut emit),
                "C19" => suites::c19::gen(tier, seed, &mut emit),
                "C01" => suites::c01::gen(tier, seed, &mut emit),
                "C02" => suites::c02::gen(tier, seed, &mut emit),
                "C03" => suites::c03::gen(tier, seed, &mut emit),
                "C04" => suites::c04::gen(tier, seed, &mut emit),
                "C08" => suites::c08::gen(tier, seed, &mut emit),
                "C06" => suites::c06::gen(tier, seed, &mut emit),
                "C05" => suites::hist::gen_c05(tier, seed, &mut emit),
                "WIT" => suites::hist::gen_witnesses(tier, seed, &mut emit),
                "C10" => suites::hist::gen_c10(tier, seed, &mut emit),
                "C11" => suites::hist::gen_c11(tier, seed, &mut emit),
                "C18" => suites::c06::gen_c18(tier, seed, &mut emit),
                "C07" => suites::c07::gen(tier, seed, &mut emit),
                "C16" => suites::c16::gen(tier, seed, &mut emit),
                "C17" => suites::c17::gen(tier, seed, &mut emit),
                "SMOKE" => suites::streams::gen_smoke(tier, seed, &mut emit),
                "C13" => suites::c13::gen(tier, seed, &mut emit),
                "C14" => suites::c14::gen(tier, seed, &mut emit),
                _ => { eprintln!("unknown suite {}", suite); std::process::exit(2); }
            }
            out.finish();
        }
        Some("crcdump") => {
            // the CRC preset and table as the IMPLEMENTATION behaves (used by bin/gen_tables.py when the literals cannot be
            // found in the source): preset = sum32(""), TABLE[(preset >> 24) ^ d] = sum32([d]) ^ (preset << 8)
            let init = mpeg2ts_reader::mpegts_crc::sum32(&[]);
            let mut t = [0u32; 256];
            for d in 0..=255u8 { t[(((init >> 24) as u8) ^ d) as usize] = mpeg2ts_reader::mpegts_crc::sum32(&[d]) ^ (init << 8); }
            println!("{}", init);
            println!("{}", t.iter().map(|x| x.to_string()).collect::<Vec<_>>().join(" "));
        }
        Some("exec") if a.len() >= 4 => {
            let f = std::io::BufReader::new(std::fs::File::open(&a[2]).unwrap());
            let mut o = std::io::BufWriter::new(std::fs::File::create(&a[3]).unwrap());
            for line in f.lines() {
                let line = line.unwrap();
                if line.trim().is_empty() { continue; }
                match cases::exec_case(&line) {
                    None => writeln!(o, "PANIC").unwrap(),
                    Some(v) => writeln!(o, "{}", v.iter().map(|x| x.to_string()).collect::<Vec<_>>().join(" ")).unwrap(),
                }
            }
        }
        _ => { eprintln!("usage: verif-harness gen <suite> <tier> <seed> <outdir> | exec <cases> <out>"); std::process::exit(2); }
    }
}
