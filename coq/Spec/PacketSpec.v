(* Spec/PacketSpec.v — ISO/IEC 13818-1 2.4.3.2 transport packet header as uimsbf bit fields
   over the whole 188-byte string (MSB-first bit numbering), and the byte ranges implied by
   adaptation_field_control / adaptation_field_length. *)
From TS Require Import Base.Res Base.Bits.
Open Scope N_scope.

(* sync_byte 8 | tei 1 | pusi 1 | priority 1 | PID 13 | scrambling 2 | adaptation_field_control 2 | counter 4 | [adaptation_field_length 8] *)
Definition s_sync (p : list N) := field p 0 8.
Definition s_tei (p : list N) := bitf p 8.
Definition s_pusi (p : list N) := bitf p 9.
Definition s_priority (p : list N) := bitf p 10.
Definition s_pid (p : list N) := field p 11 13.
Definition s_scrambling (p : list N) := field p 24 2.
Definition s_afc (p : list N) := field p 26 2.
Definition s_counter (p : list N) := field p 28 4.
Definition s_af_length (p : list N) := field p 32 8.

(* (offset, length) of the adaptation field contents (after the length byte) *)
Definition s_af_range (afc L : N) : option (nat * nat) :=
  if afc =? 2 then (if L =? 183 then Some (5, 183)%nat else None)
  else if afc =? 3 then (if (1 <=? L) && (L <=? 182) then Some (5%nat, N.to_nat L) else None)
  else None.

(* (offset, length) of the payload *)
Definition s_payload_range (afc L : N) : option (nat * nat) :=
  if afc =? 1 then Some (4, 184)%nat
  else if afc =? 3 then (if L <=? 182 then Some (5 + N.to_nat L, 183 - N.to_nat L)%nat else None)
  else None.

Definition range_bytes (p : list N) (r : option (nat * nat)) : option (nat * list N) :=
  match r with Some (o, l) => Some (o, firstn l (skipn o p)) | None => None end.
