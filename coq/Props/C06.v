(* Props/C06.v — C06: each packet reaches only its own PID's handler; flagged packets reach none. *)
From TS Require Import Base.Res Model.Timestamp Model.Packet Model.PesFilter Model.Crc Model.Psi Model.Demux
  Spec.Dispatch Proofs.DispatchProofs.
Open Scope N_scope.

(* the loop of Demultiplex::push (one look-up per run of equal PIDs, re-look-up after a change-set) IS the
   per-packet dispatcher of Spec/Dispatch.v: for every packet list, table, context, policy and scripts *)
Theorem C06_refines : forall policy scripts fuzzing deep pkts fs cx cached, cache_ok fs cached ->
  push_loop policy scripts fuzzing deep fs cx cached pkts = spec_push policy scripts fuzzing deep fs cx pkts.
Proof. exact c06_refines. Qed.
Print Assumptions C06_refines.

(* push = that dispatcher over exactly the 188-byte chunks with a valid sync byte, in stream order
   (a bad sync byte skips that chunk only; after fix F6) *)
Theorem C06_push : forall policy scripts fuzzing deep fs cx base buf,
  push policy scripts fuzzing deep fs cx base buf =
  spec_push policy scripts fuzzing deep fs cx (chunks_pure (length buf / 188) base buf).
Proof. exact push_spec. Qed.
Print Assumptions C06_push.

(* flagged packets are passed to no handler and change nothing *)
Theorem C06_flagged_none : forall policy scripts fuzzing deep fs cx i pk pid hd,
  pkt_pid pk = Ok pid -> filters_get fs pid = Some hd ->
  (pkt_transport_error_indicator pk = Ok true \/
   (pkt_transport_error_indicator pk = Ok false /\ exists tsc, pkt_transport_scrambling_control pk = Ok tsc /\ tsc_is_scrambled tsc = true)) ->
  spec_packet policy scripts fuzzing deep fs cx (i, pk) = Ok (fs, cx, []).
Proof. exact flagged_none. Qed.
Print Assumptions C06_flagged_none.

(* the growable vector indexed by PID behaves as a map: insert never panics (also for pid = len) *)
Theorem C06_filters_insert : forall fs pid h, wf fs -> exists fs', filters_insert fs pid h = Ok fs' /\ wf fs' /\
  filters_get fs' pid = Some h /\ (forall p, p <> pid -> filters_get fs' p = filters_get fs p).
Proof. exact insert_spec. Qed.
Print Assumptions C06_filters_insert.

Theorem C06_filters_remove : forall fs pid, wf fs -> wf (filters_remove fs pid) /\
  filters_get (filters_remove fs pid) pid = None /\ (forall p, p <> pid -> filters_get (filters_remove fs pid) p = filters_get fs p).
Proof. exact remove_spec. Qed.
Print Assumptions C06_filters_remove.
