(* Proofs/TableProofs.v — C10 / C11 / C05 at the level of the table chain and the table processors. *)
From Coq Require Import List NArith Lia ZArith ZifyN ZifyNat ZifyBool Bool.
From TS Require Import Base.Res Base.ListX Model.Timestamp Model.Packet Model.PacketObs Model.Pes Model.PesObs
  Model.Descriptor Model.Tables Model.TablesObs Model.PesFilter Model.Crc Model.Psi Model.Demux
  Proofs.SectionProofs.
Import ListNotations.
Open Scope N_scope.

Section TableChain.
Variable fz : bool.
Variables IS CX EV : Type.
Variable inner : IS -> CX -> common_header -> list N -> list N -> option nat -> res (IS * CX * list EV).
Notation cfg := (table_cfg fz).
Notation sp_start_t := (sp_start cfg IS CX EV inner).
Notation sp_continue_t := (sp_continue cfg IS CX EV inner).
Notation spc_consume_t := (spc_consume cfg IS CX EV inner).

(* a section-syntax start that the outer processor accepts *)
Definition accepted_start (h : common_header) (data : list N) : Prop :=
  ch_ssi h = true /\ (8 <= length data)%nat /\ (ch_section_length h <= 1021)%nat.

Lemma tsh_new_ok data : (8 <= length data)%nat -> tsh_new (skipn 3 data) = Ok (skipn 3 data).
Proof. intros H. unfold tsh_new, assert, TSH_SIZE. rewrite skipn_length. replace (Nat.leb 5 (length data - 3)) with true by (symmetry; apply Nat.leb_le; lia). reflexivity. Qed.

Lemma sp_start_accepted (c : chain IS) cx h data off : accepted_start h data ->
  sp_start_t c cx h data off = dd_start cfg IS CX EV inner (set_sp_ignore IS c false) cx h (skipn 3 data) data off.
Proof.
  intros (Hs & Hl & Hm). unfold sp_start. cbn [table_cfg cf_compact]. rewrite Hs. cbn [negb].
  unfold SCH_SIZE, TSH_SIZE, SECTION_LIMIT_SYNTAX.
  replace (Nat.ltb (length data) (3 + 5)) with false by (symmetry; apply Nat.ltb_ge; lia).
  replace (Nat.ltb 1021 (ch_section_length h)) with false by (symmetry; apply Nat.ltb_ge; lia).
  unfold slice_from. replace (Nat.leb 3 (length data)) with true by (symmetry; apply Nat.leb_le; lia). cbn [bind].
  rewrite tsh_new_ok by assumption. reflexivity.
Qed.

(* ---- C10: a section whose version equals the remembered one is dropped before any buffering ---- *)
Lemma c10_skip_start (c : chain IS) cx h data off v : accepted_start h data ->
  dd_last_version c = Some v -> tsh_version (skipn 3 data) = Ok v ->
  sp_start_t c cx h data off = Ok (set_dedup IS (set_sp_ignore IS c false) (Some v) true, cx, []).
Proof.
  intros Ha Hl Hv. rewrite sp_start_accepted by assumption. unfold dd_start. cbn [table_cfg cf_dedup].
  rewrite Hv. cbn [bind set_sp_ignore dd_last_version]. rewrite Hl, N.eqb_refl. reflexivity.
Qed.

Lemma c10_skip_continue (c : chain IS) cx x : sp_ignore_rest c = false -> dd_ignore_rest c = true ->
  sp_continue_t c cx x = Ok (c, cx, []).
Proof. intros H1 H2. unfold sp_continue. rewrite H1. cbn [table_cfg cf_compact]. unfold dd_continue. cbn [table_cfg cf_dedup]. rewrite H2. reflexivity. Qed.

(* the state a skipped start leaves: buffer, buffer state and the table processor's own state untouched *)
Definition skipped (c : chain IS) (v : N) : chain IS := set_dedup IS (set_sp_ignore IS c false) (Some v) true.
Lemma skipped_frame (c : chain IS) v :
  bf_buf (skipped c v) = bf_buf c /\ bf_state (skipped c v) = bf_state c /\ in_state (skipped c v) = in_state c /\
  dd_last_version (skipped c v) = Some v /\ sp_ignore_rest (skipped c v) = false /\ dd_ignore_rest (skipped c v) = true.
Proof. repeat split. Qed.

(* the continuation packets of a repeated (multi-packet) section: nothing happens, however many *)
Fixpoint run_continues (c : chain IS) (cx : CX) (xs : list (list N)) : res (chain IS * CX * list EV) :=
  match xs with
  | [] => Ok (c, cx, [])
  | x :: r => do a <- sp_continue_t c cx x; let '(c1, cx1, e1) := a in
              do b <- run_continues c1 cx1 r; let '(c2, cx2, e2) := b in Ok (c2, cx2, e1 ++ e2)
  end.
Lemma c10_skip_continues xs : forall (c : chain IS) cx, sp_ignore_rest c = false -> dd_ignore_rest c = true ->
  run_continues c cx xs = Ok (c, cx, []).
Proof.
  induction xs as [|x xs IH]; intros c cx H1 H2; [reflexivity|].
  cbn [run_continues]. rewrite c10_skip_continue by assumption. cbn [bind]. rewrite IH by assumption. reflexivity.
Qed.

(* ---- C11: a start whose version differs from the remembered one always gets through to the buffer layer,
   from EVERY state of the chain (any buffer contents, Buffering or Complete, any ignore flags) ---- *)
Lemma c11_start_passes (c : chain IS) cx h data off v : accepted_start h data ->
  tsh_version (skipn 3 data) = Ok v -> dd_last_version c <> Some v ->
  sp_start_t c cx h data off =
  buf_start cfg IS CX EV inner (set_dedup IS (set_sp_ignore IS c false) (Some v) false) cx h (skipn 3 data) data off.
Proof.
  intros Ha Hv Hne. rewrite sp_start_accepted by assumption. unfold dd_start. cbn [table_cfg cf_dedup].
  rewrite Hv. cbn [bind set_sp_ignore dd_last_version].
  destruct (dd_last_version c) as [last|]; [|reflexivity].
  destruct (N.eqb_spec last v) as [->|]; [congruence|reflexivity].
Qed.

(* a section complete in its start packet whose CRC verifies reaches the table processor with exactly its bytes *)
Lemma c11_single_applied (c : chain IS) cx S data off v : fz = false ->
  accepted_start (hdr_of S) data -> (length S = ch_section_length (hdr_of S) + 3)%nat -> (length S <= length data)%nat ->
  firstn (length S) data = S -> (12 <= length S)%nat -> m_sum32 S = 0 ->
  tsh_version (skipn 3 data) = Ok v -> dd_last_version c <> Some v ->
  sp_start_t c cx (hdr_of S) data off =
  (do r <- inner (in_state c) cx (hdr_of S) (skipn 3 data) S (Some off);
   Ok (set_inner IS (set_buf IS (set_dedup IS (set_sp_ignore IS c false) (Some v) false) (bf_buf c) Complete) (fst (fst r)),
       snd (fst r), snd r)).
Proof.
  intros Hfz Ha Hlen Hfit Hpre H12 Hcrc Hv Hne. rewrite (c11_start_passes c cx _ data off v Ha Hv Hne).
  unfold buf_start, SCH_SIZE. rewrite <- Hlen.
  replace (Nat.leb (length S) (length data)) with true by (symmetry; apply Nat.leb_le; lia).
  unfold slice_to. replace (Nat.leb (length S) (length data)) with true by (symmetry; apply Nat.leb_le; lia).
  cbn [bind]. rewrite Hpre. unfold crc_layer_section. cbn [table_cfg cf_crc cf_fuzzing]. rewrite Hfz.
  destruct Ha as (Hs & _ & _). unfold assert. rewrite Hs. cbn [bind].
  unfold SCH_SIZE, TSH_SIZE. replace (Nat.ltb (length S) (3 + 5 + 4)) with false by (symmetry; apply Nat.ltb_ge; lia).
  rewrite Hcrc. cbn [N.eqb negb andb]. reflexivity.
Qed.

(* ---- C11 / C04 for sections spanning packets: the table chain (dedup + buffer + CRC gate) ---- *)
Lemma t_continue_partial (c : chain IS) cx r x :
  sp_ignore_rest c = false -> dd_ignore_rest c = false -> bf_state c = Buffering r -> (length x < r)%nat ->
  sp_continue_t c cx x = Ok (set_buf IS c (bf_buf c ++ x) (Buffering (r - length x)), cx, []).
Proof.
  intros Hi Hd Hs Hl. unfold sp_continue. rewrite Hi. cbn [table_cfg cf_compact]. unfold dd_continue. cbn [table_cfg cf_dedup].
  rewrite Hd. unfold buf_continue. rewrite Hs.
  replace (Nat.ltb r (length x)) with false by (symmetry; apply Nat.ltb_ge; lia).
  unfold usub. replace (Nat.leb (length x) r) with true by (symmetry; apply Nat.leb_le; lia). cbn [bind].
  replace (Nat.eqb (r - length x) 0) with false by (symmetry; apply Nat.eqb_neq; lia). reflexivity.
Qed.

(* the continuation that completes the section: the CRC gate decides *)
Lemma t_continue_complete (c : chain IS) cx r x :
  sp_ignore_rest c = false -> dd_ignore_rest c = false -> bf_state c = Buffering r -> (r <= length x)%nat ->
  (8 <= length (bf_buf c))%nat ->
  let b := bf_buf c ++ firstn r x in
  ch_ssi (hdr_of b) = true ->
  sp_continue_t c cx x =
  (if Nat.ltb (length b) 12 then Ok (set_buf IS c b Complete, cx, [])
   else if negb fz && negb (m_sum32 b =? 0) then Ok (set_buf IS c b Complete, cx, [])
   else do r <- inner (in_state c) cx (hdr_of b) (skipn 3 b) b None;
        Ok (set_inner IS (set_buf IS c b Complete) (fst (fst r)), snd (fst r), snd r)).
Proof.
  intros Hi Hd Hs Hl Hh b Hssi. unfold sp_continue. rewrite Hi. cbn [table_cfg cf_compact]. unfold dd_continue. cbn [table_cfg cf_dedup].
  rewrite Hd. unfold buf_continue. rewrite Hs.
  assert (Hb8 : (8 <= length b)%nat) by (unfold b; rewrite app_length; lia).
  assert (Hnr : (if Nat.ltb r (length x) then Ok 0%nat else usub r (length x) 316) = Ok 0%nat).
  { destruct (Nat.ltb_spec r (length x)); [reflexivity|]. unfold usub.
    replace (Nat.leb (length x) r) with true by (symmetry; apply Nat.leb_le; lia). f_equal. lia. }
  rewrite Hnr. cbn [bind Nat.eqb].
  unfold slice_to at 1. replace (Nat.leb r (length x)) with true by (symmetry; apply Nat.leb_le; lia). cbn [bind].
  fold b. unfold slice_to. unfold SCH_SIZE. replace (Nat.leb 3 (length b)) with true by (symmetry; apply Nat.leb_le; lia).
  cbn [bind]. rewrite sch_new_firstn by lia. cbn [bind table_cfg cf_compact].
  unfold slice_from. replace (Nat.leb 3 (length b)) with true by (symmetry; apply Nat.leb_le; lia). cbn [bind].
  rewrite tsh_new_ok by assumption. cbn [bind].
  unfold crc_layer_section. cbn [table_cfg cf_crc cf_fuzzing]. unfold assert. rewrite Hssi. cbn [bind].
  unfold SCH_SIZE, TSH_SIZE. change (3 + 5 + 4)%nat with 12%nat. cbn [set_buf in_state]. reflexivity.
Qed.

Lemma t_continue_after_complete (c : chain IS) cx x : bf_state c = Complete -> sp_continue_t c cx x = Ok (c, cx, []).
Proof.
  intros Hs. unfold sp_continue. destruct (sp_ignore_rest c); [reflexivity|]. cbn [table_cfg cf_compact].
  unfold dd_continue. cbn [table_cfg cf_dedup]. destruct (dd_ignore_rest c); [reflexivity|].
  unfold buf_continue. rewrite Hs. reflexivity.
Qed.

Lemma run_continues_complete xs : forall (c : chain IS) cx, bf_state c = Complete -> run_continues c cx xs = Ok (c, cx, []).
Proof.
  induction xs as [|x xs IH]; intros c cx Hs; [reflexivity|].
  cbn [run_continues]. rewrite t_continue_after_complete by assumption. cbn [bind]. rewrite IH by assumption. reflexivity.
Qed.

(* what a completed transmission of S does, as a function of the state c the buffer layer was in *)
Definition applied (c : chain IS) (cx : CX) (S : list N) : res (chain IS * CX * list EV) :=
  if Nat.ltb (length S) 12 then Ok (set_buf IS c S Complete, cx, [])
  else if negb fz && negb (m_sum32 S =? 0) then Ok (set_buf IS c S Complete, cx, [])
  else do r <- inner (in_state c) cx (hdr_of S) (skipn 3 S) S None;
       Ok (set_inner IS (set_buf IS c S Complete) (fst (fst r)), snd (fst r), snd r).

Lemma applied_frame (c : chain IS) b st cx S : applied (set_buf IS c b st) cx S = applied c cx S.
Proof. reflexivity. Qed.

Lemma applied_complete (c : chain IS) cx S r : applied c cx S = Ok r -> bf_state (fst (fst r)) = Complete.
Proof.
  unfold applied. destruct (Nat.ltb (length S) 12); [intros E; inversion E; reflexivity|].
  destruct (negb fz && negb (m_sum32 S =? 0)); [intros E; inversion E; reflexivity|].
  destruct (inner _ _ _ _ _ _) as [q|s]; cbn [bind]; intros E; inversion E; reflexivity.
Qed.

Lemma t_conts_deliver : forall (cs : list (list N)) (S : list N) (k : nat) (c : chain IS) cx (extra : list N),
  sp_ignore_rest c = false -> dd_ignore_rest c = false -> bf_buf c = firstn k S -> bf_state c = Buffering (length S - k) ->
  (8 <= k < length S)%nat -> ch_ssi (hdr_of S) = true ->
  Forall (fun x => x <> []) cs ->
  concat cs = skipn k S ++ extra ->
  (forall pre last, cs = pre ++ [last] -> (length extra < length last)%nat) ->
  cs <> [] ->
  run_continues c cx cs = applied c cx S.
Proof.
  induction cs as [|x cs IH]; intros S k c cx extra Hi Hd Hb Hs Hk Hssi Hne Hcat Hlast Hnn; [congruence|].
  cbn [run_continues]. cbn [concat] in Hcat.
  assert (Hbl : length (bf_buf c) = k) by (rewrite Hb, firstn_length; lia).
  destruct (Nat.leb_spec (length S - k) (length x)) as [Hle|Hgt].
  - assert (Hx : firstn (length S - k) x = skipn k S).
    { apply (f_equal (firstn (length S - k))) in Hcat.
      rewrite firstn_app in Hcat. replace (length S - k - length x)%nat with 0%nat in Hcat by lia.
      rewrite firstn_O, app_nil_r in Hcat. rewrite Hcat.
      rewrite firstn_app, skipn_length. replace (length S - k - (length S - k))%nat with 0%nat by lia.
      rewrite firstn_O, app_nil_r. apply firstn_all2. rewrite skipn_length. lia. }
    assert (Eb : bf_buf c ++ firstn (length S - k) x = S) by (rewrite Hb, Hx; apply firstn_skipn).
    rewrite (t_continue_complete c cx (length S - k) x Hi Hd Hs Hle) by (rewrite ?Eb; (lia || assumption)).
    rewrite Eb. fold (applied c cx S).
    destruct (applied c cx S) as [[[c1 cx1] e1]|site] eqn:Ea; cbn [bind]; [|reflexivity].
    rewrite run_continues_complete by (apply (applied_complete c cx S _ Ea)). cbn [bind]. rewrite app_nil_r. reflexivity.
  - destruct cs as [|y cs'].
    + exfalso. cbn in Hcat. rewrite app_nil_r in Hcat.
      specialize (Hlast [] x eq_refl).
      apply (f_equal (@length N)) in Hcat. rewrite app_length, skipn_length in Hcat. lia.
    + pose proof (Forall_inv_tail Hne) as Hne'.
      destruct (app_eq_prefix x (concat (y :: cs')) (skipn k S) extra Hcat) as [Hxs Hrest'].
      { rewrite skipn_length. lia. }
      rewrite (t_continue_partial c cx (length S - k) x Hi Hd Hs Hgt). cbn [bind].
      rewrite (IH S (k + length x)%nat (set_buf IS c (bf_buf c ++ x) (Buffering (length S - k - length x))) cx extra).
      * rewrite applied_frame. destruct (applied c cx S) as [[[c1 cx1] e1]|site]; reflexivity.
      * exact Hi.
      * exact Hd.
      * cbn [bf_buf set_buf]. rewrite Hb. rewrite Hxs at 1. apply firstn_add_skipn.
      * cbn [bf_state set_buf]. f_equal. lia.
      * lia.
      * exact Hssi.
      * assumption.
      * rewrite Hrest'. rewrite skipn_skipn. reflexivity.
      * intros pre last E. apply (Hlast (x :: pre) last). rewrite E. reflexivity.
      * discriminate.
Qed.

(* C11, sections spanning packets: from EVERY state of the chain — whatever a damaged transmission left behind —
   a transmission of S whose version differs from the remembered one: the start packet delivers nothing and the
   continuation packets (any tiling; stuffing or the next section may follow in the last one) deliver exactly
   [applied]: S reaches the table processor exactly once iff its CRC verifies (or cfg(fuzzing)), with exactly
   the bytes of S, and nothing else is delivered *)
Lemma c11_multi_applied (c : chain IS) cx S data off v cs extra :
  accepted_start (hdr_of S) data -> (length S = ch_section_length (hdr_of S) + 3)%nat ->
  (length data < length S)%nat -> data = firstn (length data) S ->
  tsh_version (skipn 3 data) = Ok v -> dd_last_version c <> Some v ->
  Forall (fun x => x <> []) cs -> concat cs = skipn (length data) S ++ extra ->
  (forall pre last, cs = pre ++ [last] -> (length extra < length last)%nat) -> cs <> [] ->
  let c1 := set_buf IS (set_dedup IS (set_sp_ignore IS c false) (Some v) false) data (Buffering (length S - length data)) in
  sp_start_t c cx (hdr_of S) data off = Ok (c1, cx, []) /\
  run_continues c1 cx cs = applied c1 cx S.
Proof.
  intros Ha Hlen Hd Hpre Hv Hne Hcs Hcat Hlast Hnn c1. split.
  - rewrite (c11_start_passes c cx _ data off v Ha Hv Hne). unfold buf_start, SCH_SIZE. rewrite <- Hlen.
    replace (Nat.leb (length S) (length data)) with false by (symmetry; apply Nat.leb_gt; lia).
    unfold usub. replace (Nat.leb (length data) (length S)) with true by (symmetry; apply Nat.leb_le; lia). reflexivity.
  - destruct Ha as (Hs & H8 & _).
    apply (t_conts_deliver cs S (length data) c1 cx extra); try assumption; try reflexivity. lia.
Qed.

Lemma applied_crc_ok (c : chain IS) cx S : fz = false -> (12 <= length S)%nat -> m_sum32 S = 0 ->
  applied c cx S = (do r <- inner (in_state c) cx (hdr_of S) (skipn 3 S) S None;
                    Ok (set_inner IS (set_buf IS c S Complete) (fst (fst r)), snd (fst r), snd r)).
Proof.
  intros Hf Hl Hc. unfold applied. replace (Nat.ltb (length S) 12) with false by (symmetry; apply Nat.ltb_ge; lia).
  rewrite Hc, Hf. reflexivity.
Qed.

Lemma applied_crc_bad (c : chain IS) cx S : fz = false -> m_sum32 S <> 0 ->
  applied c cx S = Ok (set_buf IS c S Complete, cx, []).
Proof.
  intros Hf Hc. unfold applied. destruct (Nat.ltb (length S) 12); [reflexivity|].
  replace (m_sum32 S =? 0) with false by (symmetry; apply N.eqb_neq; exact Hc). rewrite Hf. reflexivity.
Qed.

(* F9: a section start with fewer than 3 of its bytes left in the packet (its header straddles the packet boundary; the
   pointer_field is valid): after the tail of the previous section has been handled the whole chain is reset — the
   remembered version is forgotten *)
Lemma short_start_resets (c : chain IS) cx pk poff p T next :
  pkt_payload pk = Ok (Some (poff, p :: T ++ next)) -> pkt_payload_unit_start_indicator pk = Ok true ->
  length T = N.to_nat p -> (0 < length next < 3)%nat ->
  spc_consume_t c cx pk =
  (do r1 <- (if Nat.ltb 0 (N.to_nat p) then sp_continue_t c cx T else Ok (c, cx, []));
   Ok (sp_reset cfg IS (fst (fst r1)), snd (fst r1), snd r1)).
Proof.
  intros Hpl Hpusi HT Hn. unfold spc_consume. rewrite Hpl. cbn [bind]. rewrite Hpusi. cbn [bind idx nth_error].
  unfold slice_from at 1. cbn [length Nat.leb bind skipn].
  assert (Hlen : length (T ++ next) = (N.to_nat p + length next)%nat) by (rewrite app_length; lia).
  destruct (Nat.ltb_spec 0 (N.to_nat p)) as [Hp|Hp].
  - replace (Nat.leb (length (T ++ next)) (N.to_nat p)) with false by (symmetry; apply Nat.leb_gt; lia).
    unfold slice_to. replace (Nat.leb (N.to_nat p) (length (T ++ next))) with true by (symmetry; apply Nat.leb_le; lia).
    cbn [bind]. rewrite <- HT, firstn_app_exact.
    destruct (sp_continue_t c cx T) as [[[c1 u] e1]|]; cbn [bind fst snd]; [|reflexivity].
    unfold slice_from. rewrite HT. replace (Nat.leb (N.to_nat p) (length (T ++ next))) with true by (symmetry; apply Nat.leb_le; lia).
    cbn [bind]. rewrite <- HT, skipn_app_exact.
    replace (Nat.ltb (length next) SCH_SIZE) with true by (symmetry; apply Nat.ltb_lt; unfold SCH_SIZE; lia). reflexivity.
  - assert (Hp0 : N.to_nat p = 0%nat) by lia. cbn [bind].
    assert (HT0 : T = []) by (destruct T; [reflexivity|cbn in HT; lia]). subst T. cbn [app] in *.
    unfold slice_from. rewrite Hp0. cbn [Nat.leb bind skipn].
    replace (Nat.ltb (length next) SCH_SIZE) with true by (symmetry; apply Nat.ltb_lt; unfold SCH_SIZE; lia). reflexivity.
Qed.

Lemma reset_forgets (c : chain IS) : dd_last_version (sp_reset cfg IS c) = None /\ bf_state (sp_reset cfg IS c) = Complete /\
  in_state (sp_reset cfg IS c) = in_state c.
Proof. repeat split. Qed.
End TableChain.

(* ---- C05: what applying a table does ---- *)
Section Processors.
Variable policy : request -> hkind.

Definition req_of_pd (d : program_descriptor) : request :=
  match d with PdProgram pn pid => RqPmt pid pn | PdNetwork pid => RqNit pid end.

(* one request per entry, in table order, each followed by the queued insertion of the answer under the entry's PID *)
Fixpoint s_pat_apply (cx : ctx) (progs : list program_descriptor) : ctx * list event :=
  match progs with
  | [] => (cx, [])
  | d :: r =>
      let '(cx1, h, ev) := construct policy cx (req_of_pd d) in
      let '(cx3, ev3) := s_pat_apply (queue cx1 (ChInsert (pd_pid d) h)) r in
      (cx3, ev ++ ev3)
  end.

Definition pids_ok (progs : list program_descriptor) : Prop := Forall (fun d => pd_pid d < 8192) progs.

Lemma pat_entries_spec progs : forall cx seen reg, pids_ok progs ->
  pat_entries policy cx seen reg progs =
  Ok (fst (s_pat_apply cx progs),
      fold_left (fun s d => bs_insert (pd_pid d) s) progs seen,
      fold_left (fun s d => bs_insert (pd_pid d) s) progs reg,
      snd (s_pat_apply cx progs)).
Proof.
  induction progs as [|d r IH]; intros cx seen reg Hok; [reflexivity|].
  inversion Hok as [|? ? Hd Hr]; subst. cbn [pat_entries s_pat_apply fold_left].
  unfold req_of_pd. destruct (construct policy cx match d with PdNetwork pid => RqNit pid | PdProgram pn pid => RqPmt pid pn end) as [[cx1 h] ev] eqn:Ec.
  unfold bs_insert_checked, assert, BITSET_CAPACITY. replace (pd_pid d <? 8192) with true by lia. cbn [bind].
  rewrite IH by assumption. cbn [bind].
  destruct (s_pat_apply (queue cx1 (ChInsert (pd_pid d) h)) r) as [cx3 ev3]. reflexivity.
Qed.

(* remove_outdated: a Remove for every previously registered PID that the new table does not list, ascending *)
Lemma queue_removes_spec pids : forall cx, Forall (fun p => p <= 8191) pids ->
  queue_removes cx pids = Ok {| cx_changes := cx_changes cx ++ map ChRemove pids; cx_serial := cx_serial cx |}.
Proof.
  induction pids as [|p r IH]; intros cx Hok.
  - cbn. rewrite app_nil_r. destruct cx; reflexivity.
  - inversion Hok as [|? ? Hp Hr]; subst. cbn [queue_removes]. unfold pid_new, assert.
    replace (p <=? 8191) with true by lia. cbn [bind]. rewrite IH by assumption. unfold queue. cbn [cx_changes cx_serial map].
    rewrite <- app_assoc. reflexivity.
Qed.
End Processors.
