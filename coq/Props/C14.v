(* Props/C14.v — C14: PES header fields decode exactly; malformed headers are rejected. *)
From TS Require Import Base.Res Base.Bits Model.Timestamp Model.Packet Model.Pes
  Spec.TimestampSpec Spec.PesSpec Proofs.PesProofs.
Open Scope N_scope.

(* a PES header is recognised iff at least 6 bytes are present and the start code is 00 00 01 *)
Theorem C14_header_accept : forall buf : list N, bytes_ok buf ->
  pes_header_from_bytes buf = Ok (if s_pes_accept buf then Some buf else None).
Proof. exact c14_header. Qed.
Print Assumptions C14_header_accept.

Theorem C14_header_fields : forall h : list N, bytes_ok h -> (6 <= length h)%nat ->
  pes_stream_id h = Ok (s_stream_id h) /\ pes_packet_length h = Ok (s_packet_length h).
Proof. exact c14_header_fields. Qed.
Print Assumptions C14_header_fields.

(* header-less stream ids expose the raw payload; all others the parsed contents, accepted exactly
   when '10' marker, declared header length and flag-implied sizes are consistent with the bytes *)
Theorem C14_contents : forall h : list N, bytes_ok h -> s_pes_accept h = true ->
  pes_contents_of h =
  Ok (if s_headerless (s_stream_id h) then PesPayload (skipn 6 h)
      else PesParsed (if s_ppc_accept (skipn 6 h) then Some (skipn 6 h) else None)).
Proof. exact c14_contents. Qed.
Print Assumptions C14_contents.

Theorem C14_parsed_accept : forall c : list N, bytes_ok c ->
  ppc_from_bytes c = Ok (if s_ppc_accept c then Some c else None).
Proof. exact c14_parsed_accept. Qed.
Print Assumptions C14_parsed_accept.

(* every accessor of accepted contents (all but copyright, see below) equals the Table 2-21 reader;
   none panics; none reports NotEnoughData (the acceptance test already established the sizes) *)
Theorem C14_fields : forall c : list N, bytes_ok c -> s_ppc_accept c = true ->
  ppc_pes_priority c = Ok (w_priority (s_ppc_parse c)) /\
  ppc_data_alignment_indicator c = Ok (w_alignment (s_ppc_parse c)) /\
  ppc_original_or_copy c = Ok (w_original (s_ppc_parse c)) /\
  ppc_pts_dts c = Ok (w_pts_dts (s_ppc_parse c)) /\
  ppc_escr c = Ok (w_escr (s_ppc_parse c)) /\
  ppc_es_rate c = Ok (w_es_rate (s_ppc_parse c)) /\
  ppc_dsm_trick_mode c = Ok (w_trick (s_ppc_parse c)) /\
  ppc_additional_copy_info c = Ok (w_copy_info (s_ppc_parse c)) /\
  ppc_previous_pes_packet_crc c = Ok (w_crc (s_ppc_parse c)) /\
  ppc_pes_extension c = Ok (w_extension (s_ppc_parse c)) /\
  ppc_payload c = Ok (w_payload (s_ppc_parse c)).
Proof. exact c14_fields. Qed.
Print Assumptions C14_fields.

(* KNOWN FINDING F5: the copyright accessor of the code reports the complement of the standard's
   copyright bit on every accepted header (the unit tests pin this polarity).  The known class is
   exactly "the copyright() accessor"; everything else is under C14_fields. *)
Theorem C14_copyright_inverted : forall c : list N, bytes_ok c -> s_ppc_accept c = true ->
  ppc_copyright c = Ok (negb (w_copyright (s_ppc_parse c))).
Proof. exact c14_copyright_inverted. Qed.
Print Assumptions C14_copyright_inverted.

Theorem C14_copyright_refuted : exists c : list N, bytes_ok c /\ s_ppc_accept c = true /\
  ppc_copyright c <> Ok (w_copyright (s_ppc_parse c)).
Proof.
  exists [130; 0; 0]. split; [repeat constructor|]. split; [vm_compute; reflexivity|]. vm_compute. discriminate.
Qed.
Print Assumptions C14_copyright_refuted.

Example C14_nonvacuous :
  let c := [132; 200; 11; 49; 0; 7; 216; 97; 17; 0; 7; 216; 97; 45; 1; 2; 3] in
  s_ppc_accept c = true /\ w_pts_dts (s_ppc_parse c) = ROk (PtsBoth (ROk 126000) (ROk 126000)) /\
  w_trick (s_ppc_parse c) = ROk (SlowMotion 13) /\ w_payload (s_ppc_parse c) = (14%nat, [1; 2; 3]).
Proof. vm_compute. repeat split; reflexivity. Qed.
