(* driver.ml — runs the extracted Coq model on the harness' case file, one observation per line. *)
open Model

let rec pos_of_int (i : int) : positive =
  if i = 1 then XH else if i land 1 = 0 then XO (pos_of_int (i lsr 1)) else XI (pos_of_int (i lsr 1))
let n_of_int (i : int) : n = if i = 0 then N0 else Npos (pos_of_int i)
let rec int_of_pos = function XH -> 1 | XO p -> 2 * int_of_pos p | XI p -> 2 * int_of_pos p + 1
let int_of_n = function N0 -> 0 | Npos p -> int_of_pos p
let rec nat_of_int (i : int) : nat = if i = 0 then O else S (nat_of_int (i - 1))

let byte_tab = Array.init 256 n_of_int
let hexval c = match c with
  | '0'..'9' -> Char.code c - 48 | 'a'..'f' -> Char.code c - 87 | 'A'..'F' -> Char.code c - 55
  | _ -> failwith "hex"
(* token "x4700ff" -> n list *)
let bytes_of_tok (s : string) : n list =
  if String.length s = 0 || s.[0] <> 'x' then failwith ("bad hex token " ^ s);
  let len = (String.length s - 1) / 2 in
  let rec go i acc = if i < 0 then acc else
      go (i - 1) (byte_tab.(hexval s.[1 + 2*i] * 16 + hexval s.[2 + 2*i]) :: acc) in
  go (len - 1) []

let print_obs oc (o : n list option) =
  match o with
  | None -> output_string oc "PANIC\n"
  | Some l ->
    let first = ref true in
    List.iter (fun x -> if !first then first := false else output_char oc ' ';
                output_string oc (string_of_int (int_of_n x))) l;
    output_char oc '\n'

(* decimal string of any size -> N, by repeated halving of the digit string *)
let n_of_decimal (s : string) : n =
  if String.length s <= 18 then n_of_int (int_of_string s) else begin
    let d = Array.init (String.length s) (fun i -> Char.code s.[i] - 48) in
    let is_zero () = Array.for_all (fun x -> x = 0) d in
    let bits = ref [] in
    while not (is_zero ()) do
      let carry = ref 0 in
      for i = 0 to Array.length d - 1 do
        let cur = !carry * 10 + d.(i) in
        d.(i) <- cur / 2; carry := cur mod 2
      done;
      bits := !carry :: !bits           (* most significant bit ends up first *)
    done;
    match !bits with
    | [] -> N0
    | _ :: rest -> Npos (List.fold_left (fun p b -> if b = 1 then XI p else XO p) XH rest)
  end
let num s = n_of_decimal s

(* scripts token: "S" + entries "pid=inv|inv" separated by ';' (see harness/src/app.rs) *)
let parse_scripts (tok : string) =
  let body = String.sub tok 1 (String.length tok - 1) in
  String.split_on_char ';' body |> List.filter (fun e -> e <> "") |> List.map (fun ent ->
    match String.index_opt ent '=' with
    | None -> failwith "script entry"
    | Some i ->
      let pid = String.sub ent 0 i and invs = String.sub ent (i + 1) (String.length ent - i - 1) in
      let acts inv = String.split_on_char ',' inv |> List.filter (fun a -> a <> "") |> List.map (fun a ->
          if a.[0] = 'r' then ARemove (num (String.sub a 1 (String.length a - 1)))
          else begin
            let j = String.index a '.' in
            let p = num (String.sub a 1 (j - 1)) in
            let k = String.sub a (j + 1) (String.length a - j - 1) in
            let kind = match k.[0] with
              | 'R' -> KRec | 'P' -> KPes
              | _ -> KScript (num (String.sub k 1 (String.length k - 1))) in
            AInsert (p, kind)
          end) in
      (num pid, List.map acts (String.split_on_char '|' invs)))

(* (what the model of the code does, what the specification demands); they differ only where a
   known finding is recorded (C14: copyright polarity) *)
let fuzzing = ref false
let same x = (x, x)
let run_case (toks : string list) : n list option * n list option =
  match toks with
  | ["PKT"; h] -> same (run_packet (bytes_of_tok h))
  | ["P12"; h] -> same (run_packet_c12 (bytes_of_tok h))
  | ["AF"; h] -> same (run_af (bytes_of_tok h))
  | ["TSB"; h] -> same (run_tsb (bytes_of_tok h))
  | ["TSU"; v] -> same (run_tsu (num v))
  | ["TSW"; a; b] -> same (run_tsw (num a) (num b))
  | ["CRP"; a; b] -> same (run_crp (num a) (num b))
  | ["CRS"; h] -> same (run_crs (bytes_of_tok h))
  | ["CRC"; h] -> let b = bytes_of_tok h in (run_crc b, Some [s_crc b])
  | ["DSC"; h] -> same (run_dsc (bytes_of_tok h))
  | ["DSC1"; h] ->
      (* Descriptor::from_bytes on a slice that goes on behind its first descriptor = the one-item loop made of that descriptor *)
      let b = bytes_of_tok h in
      let rec take k l = if k = 0 then [] else (match l with [] -> [] | x :: r -> x :: take (k - 1) r) in
      (match b with _ :: l :: _ -> same (run_dsc (take (2 + int_of_n l) b)) | _ -> same (run_dsc b))
  | ["PAT"; h] -> same (run_pat (bytes_of_tok h))
  | ["PMT"; h] -> same (run_pmt (bytes_of_tok h))
  | "SEC" :: f :: pk -> same (run_sec (num (string_of_int ((int_of_string f) lor (if !fuzzing then 8 else 0)))) (List.map bytes_of_tok pk))
  | ["ALLOC"; w; s] -> same (run_alloc (bytes_of_tok w) (bytes_of_tok s))
  | ["MEM"; h] -> same (run_mem (bytes_of_tok h))
  | "PESF" :: f :: pk -> same (run_pesf (num f) (List.map bytes_of_tok pk))
  | "DMX" :: f :: s :: ch -> same (run_dmx (num (string_of_int ((int_of_string f) lor (if !fuzzing then 2 else 0)))) (parse_scripts s) (List.map bytes_of_tok ch))
  | ["PES"; h] -> let b = bytes_of_tok h in (run_pes false b, run_pes true b)
  | ["PPC"; h] -> let b = bytes_of_tok h in (run_ppc false b, run_ppc true b)
  | k :: _ -> failwith ("unknown case kind " ^ k)
  | [] -> failwith "empty case"

let () =
  if Array.length Sys.argv > 4 && Sys.argv.(4) = "fuzzing" then fuzzing := true;
  let ic = open_in Sys.argv.(1) and oc = open_out Sys.argv.(2) and os = open_out Sys.argv.(3) in
  (try
     while true do
       let line = input_line ic in
       let toks = String.split_on_char ' ' line |> List.filter (fun s -> s <> "" && s.[0] <> '#') in
       (match toks with
        | "DMXQ" :: _ -> output_string oc "SKIP\n"; output_string os "SKIP\n"
        | "SECA" :: _ -> output_string oc "0 20 0\n"; output_string os "0 20 0\n"        (* the model's claim: no allocation; 20 deliveries *)
        | _ -> let (m, sp) = run_case toks in print_obs oc m; print_obs os sp)
     done
   with End_of_file -> ());
  close_out oc; close_out os
