(* Proofs/PesFilterProofs.v — C08 / C09: the PES packet filter follows the call-back protocol and
   reports continuity errors exactly at counter breaks. *)
From Coq Require Import List NArith Lia ZArith ZifyN ZifyNat ZifyBool Bool.
From TS Require Import Base.Res Base.ListX Base.Bits Model.Timestamp Model.Packet Model.Pes Model.PesFilter
  Spec.PacketSpec Spec.EsProtocol Proofs.PacketProofs.
Import ListNotations.
Open Scope N_scope.

Definition abs_state (s : pes_state) : mstate :=
  match s with PsBegin => MNoStream | PsStarted => MOpen | PsIgnoreRest => MIdle end.

Lemma mrun_app m a b : mrun m (a ++ b) = match mrun m a with Some m' => mrun m' b | None => None end.
Proof. revert m. induction a as [|e a IH]; intros m; [reflexivity|]. cbn [app mrun]. destruct (mstep m e); [apply IH|reflexivity]. Qed.

(* one packet: whatever the accessors return, the events emitted are accepted from the abstraction of
   the filter state and lead to the abstraction of the new state *)
Ltac crunch :=
  repeat (match goal with
          | |- context [bind ?r _] => destruct r as [?v|?site]; cbn [bind]
          | |- context [match ?x with Some _ => _ | None => _ end] => destruct x as [?y|]
          | |- context [let '(_, _) := ?p in _] => destruct p as [?a ?b]
          | |- context [if ?c then _ else _] => destruct c
          | |- context [match ?x with PsBegin => _ | PsStarted => _ | PsIgnoreRest => _ end] => destruct x
          end; cbn [bind negb pes_state_eqb app]).

Lemma c08_step f pk f' evs : pf_consume f pk = Ok (f', evs) ->
  mrun (abs_state (pf_state f)) evs = Some (abs_state (pf_state f')).
Proof.
  unfold pf_consume.
  destruct (pf_is_continuous f pk) as [cont|]; cbn [bind]; [|discriminate].
  destruct cont; destruct (pf_state f); cbn [negb pes_state_eqb];
    crunch; try discriminate; intros E; inversion E; subst; reflexivity.
Qed.

Fixpoint run_filter (f : pes_filter) (pkts : list pkt) : res (pes_filter * list es_event) :=
  match pkts with
  | [] => Ok (f, [])
  | p :: r => do a <- pf_consume f p; do b <- run_filter (fst a) r; Ok (fst b, snd a ++ snd b)
  end.

Lemma c08_protocol_from f pkts f' evs : run_filter f pkts = Ok (f', evs) ->
  mrun (abs_state (pf_state f)) evs = Some (abs_state (pf_state f')).
Proof.
  revert f f' evs. induction pkts as [|p r IH]; intros f f' evs H; cbn [run_filter] in H.
  - inversion H; subst. reflexivity.
  - destruct (pf_consume f p) as [[f1 e1]|] eqn:E1; cbn [bind fst snd] in H; [|discriminate].
    destruct (run_filter f1 r) as [[f2 e2]|] eqn:E2; cbn [bind fst snd] in H; [|discriminate].
    inversion H; subst. rewrite mrun_app. rewrite (c08_step _ _ _ _ E1). apply (IH _ _ _ E2).
Qed.

Lemma c08_protocol pkts f' evs : run_filter pes_filter_new pkts = Ok (f', evs) ->
  exists m, mrun MNoStream evs = Some m.
Proof. intros H. eexists. apply (c08_protocol_from pes_filter_new pkts f' evs H). Qed.

(* totality on well-formed packets *)
Lemma header_from_bytes_total d : exists r, pes_header_from_bytes d = Ok r.
Proof.
  unfold pes_header_from_bytes, PES_FIXED_HEADER_SIZE.
  destruct (Nat.ltb_spec (length d) 6) as [|H]; [eauto|].
  destruct d as [|d0 [|d1 [|d2 d']]]; cbn in H; try lia. cbn [idx nth_error bind].
  match goal with |- context [if ?c then _ else _] => destruct c end; eauto.
Qed.

Lemma pf_consume_total f pk : length pk = 188%nat -> bytes_ok pk -> exists r, pf_consume f pk = Ok r.
Proof.
  intros Hl Hok.
  destruct (c12_fields pk Hl Hok) as (_ & Hpusi & _ & _ & _ & _ & (ac & Hac & _) & Hcc).
  destruct (c12_split pk Hl Hok) as (_ & Hpl).
  unfold pf_consume, pf_is_continuous. rewrite Hac, Hcc, Hpusi, Hpl. cbn [bind].
  destruct (range_bytes pk (s_payload_range (s_afc pk) (s_af_length pk))) as [[o d]|].
  - destruct (header_from_bytes_total d) as [h Hh]. rewrite Hh.
    destruct (pf_ccounter f) as [n|]; cbn [bind].
    + destruct (ac_has_payload ac); cbn [bind];
      (match goal with |- context [negb ?c] => destruct c end);
      destruct (pf_state f); cbn [negb pes_state_eqb]; destruct (s_pusi pk); cbn [negb pes_state_eqb bind];
      destruct h; cbn [bind]; try (destruct (Nat.eqb (length d) 0)); cbn [negb]; eauto.
    + destruct (pf_state f); cbn [negb pes_state_eqb]; destruct (s_pusi pk); cbn [negb pes_state_eqb bind];
      destruct h; cbn [bind]; try (destruct (Nat.eqb (length d) 0)); cbn [negb]; eauto.
  - destruct (pf_ccounter f) as [n|]; cbn [bind].
    + destruct (ac_has_payload ac); cbn [bind];
      (match goal with |- context [negb ?c] => destruct c end);
      destruct (pf_state f); cbn [negb pes_state_eqb]; destruct (s_pusi pk); cbn [negb pes_state_eqb bind]; eauto.
    + destruct (pf_state f); cbn [negb pes_state_eqb]; destruct (s_pusi pk); cbn [negb pes_state_eqb bind]; eauto.
Qed.

(* ---- C08: packet-begin iff a recognisable header; unrecognised data is not delivered ---- *)
Ltac open_consume f pk :=
  destruct (pf_state f); cbn [negb pes_state_eqb];
  (destruct (pkt_continuity_counter pk) as [c|]; cbn [bind]; [|discriminate]);
  (destruct (pkt_payload_unit_start_indicator pk) as [[|]|]; cbn [bind pes_state_eqb]; [| |discriminate]);
  try (destruct (pkt_payload pk) as [[[?off ?payload]|]|]; cbn [bind]; [| |discriminate]);
  try (match goal with |- context [pes_header_from_bytes ?p] =>
         destruct (pes_header_from_bytes p) as [[?hb|]|]; cbn [bind]; [| |discriminate] end);
  try (match goal with |- context [Nat.eqb (length ?p) 0] => destruct (Nat.eqb (length p) 0); cbn [negb] end).

Lemma c08_begin_iff f pk f' evs : pf_consume f pk = Ok (f', evs) ->
  existsb is_begin evs =
  match pkt_payload_unit_start_indicator pk, pkt_payload pk with
  | Ok true, Ok (Some (_, payload)) => match pes_header_from_bytes payload with Ok (Some _) => true | _ => false end
  | _, _ => false
  end.
Proof.
  unfold pf_consume.
  destruct (pf_is_continuous f pk) as [cont|]; cbn [bind]; [|discriminate].
  destruct cont; open_consume f pk; intros E; inversion E; subst; reflexivity.
Qed.

Lemma c08_bad_header f pk f' evs : pf_consume f pk = Ok (f', evs) ->
  pkt_payload_unit_start_indicator pk = Ok true -> existsb is_begin evs = false ->
  pf_state f' = PsIgnoreRest /\ existsb is_cont evs = false.
Proof.
  unfold pf_consume.
  destruct (pf_is_continuous f pk) as [cont|]; cbn [bind]; [|discriminate].
  destruct cont; open_consume f pk; intros E Hp; try discriminate Hp; inversion E; subst; cbn;
    intros Hb; try discriminate Hb; split; reflexivity.
Qed.

(* ---- C09 ---- *)
Lemma follows_fact c prev : c < 16 -> prev < 16 -> cc_follows c prev = (c =? (prev + 1) mod 16).
Proof.
  intros Hc Hp. unfold cc_follows. change 15 with (N.ones 4). rewrite N.land_ones. change (2^4) with 16. apply N.eqb_sym.
Qed.

Lemma c09_iff f pk f' evs : pf_consume f pk = Ok (f', evs) ->
  forall ac c, pkt_adaptation_control pk = Ok ac -> pkt_continuity_counter pk = Ok c ->
  existsb is_cc_error evs =
    match pf_ccounter f with
    | Some prev => negb (if ac_has_payload ac then cc_follows c prev else c =? prev)
    | None => false
    end
  /\ pf_ccounter f' = Some c.
Proof.
  intros H ac c Hac Hc. unfold pf_consume, pf_is_continuous in H. rewrite Hac, Hc in H. cbn [bind] in H. revert H.
  destruct (pf_ccounter f) as [prev|]; cbn [bind].
  - destruct (ac_has_payload ac); cbn [bind];
    (match goal with |- context [negb ?x] => destruct x end);
    destruct (pf_state f); cbn [negb pes_state_eqb];
    crunch; try discriminate; intros E; inversion E; subst; split; reflexivity.
  - destruct (pf_state f); cbn [negb pes_state_eqb];
    crunch; try discriminate; intros E; inversion E; subst; split; reflexivity.
Qed.

(* after a continuity error no continuation data until a packet begins: a property of every accepted trace *)
Lemma stay_closed mid : forall m m2, m <> MOpen -> existsb is_begin mid = false -> mrun m mid = Some m2 -> m2 <> MOpen.
Proof.
  induction mid as [|e mid IH]; intros m m2 Hm Hb H; cbn [mrun] in H.
  - inversion H; subst. assumption.
  - cbn [existsb] in Hb. apply orb_false_iff in Hb. destruct Hb as [Hb1 Hb2].
    destruct (mstep m e) as [m1|] eqn:E; [|discriminate].
    apply (IH m1 m2); [|assumption|assumption].
    destruct e; destruct m; cbn in E; try discriminate E; inversion E; subst; try discriminate; try (exfalso; apply Hm; reflexivity).
Qed.

Lemma c09_quarantine m pre mid o d post m' :
  mrun m (pre ++ EsContinuityError :: mid ++ EsContinuePacket o d :: post) = Some m' ->
  existsb is_begin mid = true.
Proof.
  intros H. rewrite mrun_app in H. destruct (mrun m pre) as [m1|]; [|discriminate].
  cbn [mrun] in H. destruct (mstep m1 EsContinuityError) as [m2|] eqn:E; [|discriminate].
  rewrite mrun_app in H. destruct (mrun m2 mid) as [m3|] eqn:E3; [|discriminate].
  destruct (existsb is_begin mid) eqn:Hb; [reflexivity|exfalso].
  assert (Hm2 : m2 <> MOpen) by (destruct m1; cbn in E; inversion E; subst; discriminate).
  pose proof (stay_closed mid m2 m3 Hm2 Hb E3) as Hm3.
  cbn [mrun] in H. destruct m3; cbn in H; try discriminate H. apply Hm3. reflexivity.
Qed.
