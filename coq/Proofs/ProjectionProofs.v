(* Proofs/ProjectionProofs.v — C06, the consequence: what one PID's handler observes is a function of that
   PID's own packets only, however packets of other PIDs (whose handlers do not redefine it) are interleaved. *)
From Coq Require Import List NArith Lia ZArith ZifyN ZifyNat ZifyBool Bool.
From TS Require Import Base.Res Base.ListX Model.Timestamp Model.Packet Model.PacketObs Model.Pes Model.PesObs
  Model.Descriptor Model.Tables Model.TablesObs Model.PesFilter Model.Crc Model.Psi Model.Demux Spec.Dispatch
  Proofs.DispatchProofs.
Import ListNotations.
Open Scope N_scope.

(* handlers that never queue a change: the recording handler and the PES filter *)
Definition quiet (h : handler) : Prop := match h with HRec _ | HPes _ _ => True | _ => False end.

Definition ev_serial (e : event) : N :=
  match e with EvConstruct s _ | EvPacket s _ _ | EvEs s _ _ _ => s end.
Definition sel (s : N) (ev : list event) : list event := filter (fun e => ev_serial e =? s) ev.

Lemma sel_app s a b : sel s (a ++ b) = sel s a ++ sel s b.
Proof. apply filter_app. Qed.
Lemma sel_all s ev : Forall (fun e => ev_serial e = s) ev -> sel s ev = ev.
Proof.
  induction ev as [|e r IH]; intros H; [reflexivity|]. inversion H as [|? ? He Hr]; subst.
  cbn [sel filter]. rewrite N.eqb_refl. f_equal. apply IH, Hr.
Qed.
Lemma sel_none s t ev : t <> s -> Forall (fun e => ev_serial e = t) ev -> sel s ev = [].
Proof.
  intros Hn. induction ev as [|e r IH]; intros H; [reflexivity|]. inversion H as [|? ? He Hr]; subst.
  cbn [sel filter]. replace (ev_serial e =? s) with false by (symmetry; apply N.eqb_neq; exact Hn). apply IH, Hr.
Qed.

Section Projection.
Variable policy : request -> hkind.
Variable scripts : N -> nat -> list action.
Variable fuzzing deep : bool.
Notation spec_packet' := (spec_packet policy scripts fuzzing deep).
Notation spec_push' := (spec_push policy scripts fuzzing deep).
Notation consume' := (handler_consume policy scripts fuzzing deep).

Definition cx0 : ctx := {| cx_changes := []; cx_serial := 0 |}.

(* what ONE packet does to the handler of its own PID, and what that handler reports: no table, no context *)
Definition own_step (hd : handler) (i : N) (pk : pkt) : res (handler * list event) :=
  do tei <- pkt_transport_error_indicator pk;
  if tei then Ok (hd, [])
  else do tsc <- pkt_transport_scrambling_control pk;
       if tsc_is_scrambled tsc then Ok (hd, [])
       else do hc <- consume' hd cx0 i pk; Ok (fst (fst hc), snd hc).

(* what the handler [hd] of PID [p] does over a packet list: packets of other PIDs are not even looked at *)
Fixpoint pid_run (p : N) (hd : handler) (pkts : list (N * pkt)) : res (handler * list event) :=
  match pkts with
  | [] => Ok (hd, [])
  | (i, pk) :: r =>
      do q <- pkt_pid pk;
      if q =? p then do s <- own_step hd i pk; do t <- pid_run p (fst s) r; Ok (fst t, snd s ++ snd t)
      else pid_run p hd r
  end.

Definition proj (p : N) (pkts : list (N * pkt)) : list (N * pkt) :=
  filter (fun ip => match pkt_pid (snd ip) with Ok q => q =? p | Panic _ => true end) pkts.

Lemma pid_run_proj p pkts : forall hd, pid_run p hd pkts = pid_run p hd (proj p pkts).
Proof.
  induction pkts as [|[i pk] r IH]; intros hd; [reflexivity|].
  cbn [pid_run proj filter snd]. destruct (pkt_pid pk) as [q|site] eqn:Eq; cbn [bind].
  - destruct (q =? p) eqn:E.
    + cbn [pid_run]. rewrite Eq. cbn [bind]. rewrite E.
      destruct (own_step hd i pk) as [s|]; cbn [bind]; [|reflexivity]. fold (proj p r). rewrite IH. reflexivity.
    + fold (proj p r). apply IH.
  - cbn [pid_run]. rewrite Eq. reflexivity.
Qed.

(* a quiet handler: the context goes through unchanged and is not consulted, the handler stays quiet and
   keeps its serial, every event carries that serial *)
Lemma quiet_consume hd cx i pk : quiet hd ->
  consume' hd cx i pk = (do x <- consume' hd cx0 i pk; Ok (fst (fst x), cx, snd x)).
Proof.
  destruct hd as [s c|s c|s f|s|s id n]; cbn [quiet]; intros H; try contradiction; cbn [handler_consume].
  - destruct (pf_consume f pk) as [r|]; cbn [bind]; [|reflexivity].
    destruct (es_events deep s i (snd r)); reflexivity.
  - destruct (if deep then obs_packet pk else Ok []); reflexivity.
Qed.

Lemma es_events_serial s i l : forall evs, es_events deep s i l = Ok evs -> Forall (fun e => ev_serial e = s) evs.
Proof.
  induction l as [|e r IH]; intros evs; cbn [es_events]; [intros E; inversion E; constructor|].
  destruct (es_obs deep i e) as [o|]; cbn [bind]; [|discriminate].
  destruct (es_events deep s i r) as [rest|]; cbn [bind]; [|discriminate].
  intros E; inversion E; subst. constructor; [reflexivity|apply IH; reflexivity].
Qed.

Lemma quiet_consume_out hd i pk hd' cx' ev : quiet hd -> consume' hd cx0 i pk = Ok (hd', cx', ev) ->
  quiet hd' /\ handler_serial hd' = handler_serial hd /\ Forall (fun e => ev_serial e = handler_serial hd) ev.
Proof.
  destruct hd as [s c|s c|s f|s|s id n]; cbn [quiet]; intros H; try contradiction; cbn [handler_consume].
  - destruct (pf_consume f pk) as [r|]; cbn [bind]; [|discriminate].
    destruct (es_events deep s i (snd r)) as [evs|] eqn:Ee; cbn [bind]; [|discriminate].
    intros E; inversion E; subst. cbn [quiet handler_serial]. repeat split. constructor; [reflexivity|].
    eapply es_events_serial; eassumption.
  - destruct (if deep then obs_packet pk else Ok []) as [o|]; cbn [bind]; [|discriminate].
    intros E; inversion E; subst. cbn [quiet handler_serial]. repeat split. repeat constructor.
Qed.

Lemma own_step_out hd i pk hd' ev : quiet hd -> own_step hd i pk = Ok (hd', ev) ->
  quiet hd' /\ handler_serial hd' = handler_serial hd /\ Forall (fun e => ev_serial e = handler_serial hd) ev.
Proof.
  intros Hq. unfold own_step.
  destruct (pkt_transport_error_indicator pk) as [[|]|]; cbn [bind]; try discriminate.
  { intros E; inversion E; subst. repeat split; [assumption|constructor]. }
  destruct (pkt_transport_scrambling_control pk) as [tsc|]; cbn [bind]; try discriminate.
  destruct (tsc_is_scrambled tsc). { intros E; inversion E; subst. repeat split; [assumption|constructor]. }
  destruct (consume' hd cx0 i pk) as [[[h2 c2] e2]|] eqn:Ec; cbn [bind fst snd]; [|discriminate].
  intros E; inversion E; subst. eapply quiet_consume_out; eassumption.
Qed.

(* one packet on a PID whose handler is quiet: only that PID's table entry can change, by [own_step] *)
Lemma packet_quiet fs cx i pk q hd r : wf fs -> cx_changes cx = [] ->
  pkt_pid pk = Ok q -> filters_get fs q = Some hd -> quiet hd -> spec_packet' fs cx (i, pk) = Ok r ->
  exists hd', own_step hd i pk = Ok (hd', snd r) /\ snd (fst r) = cx /\ wf (fst (fst r)) /\
              filters_get (fst (fst r)) q = Some hd' /\
              (forall p, p <> q -> filters_get (fst (fst r)) p = filters_get fs p).
Proof.
  intros Hw Hc Hp Hg Hq. cbn [spec_packet]. rewrite Hp. cbn [bind].
  replace (filters_contains fs q) with true by (symmetry; apply contains_get; eauto). cbn [bind]. rewrite Hg.
  unfold own_step.
  destruct (pkt_transport_error_indicator pk) as [[|]|]; cbn [bind]; try discriminate.
  { intros E; inversion E; subst. cbn [fst snd]. exists hd. repeat split; auto. }
  destruct (pkt_transport_scrambling_control pk) as [tsc|]; cbn [bind]; try discriminate.
  destruct (tsc_is_scrambled tsc). { intros E; inversion E; subst. cbn [fst snd]. exists hd. repeat split; auto. }
  rewrite (quiet_consume hd cx i pk Hq).
  destruct (consume' hd cx0 i pk) as [[[h2 c2] e2]|]; cbn [bind fst snd]; [|discriminate].
  rewrite Hc. cbn [apply_changes bind]. intros E; inversion E; subst. cbn [fst snd].
  exists h2. split; [reflexivity|]. split; [apply clear_changes_id, Hc|].
  assert (Hlt : q < f_len fs) by (eapply get_some_lt; eassumption).
  split; [apply wf_set_slot; assumption|]. split; [apply get_set_same, Hlt|].
  intros p Hn. apply get_set_other. exact Hn.
Qed.

(* every packet of the list is on a PID that has a quiet handler *)
Definition quiet_world (fs : filters) (pkts : list (N * pkt)) : Prop :=
  Forall (fun ip => exists q hd, pkt_pid (snd ip) = Ok q /\ filters_get fs q = Some hd /\ quiet hd) pkts.
(* no two table entries hold handlers with the same serial (every reachable table: serials are handed out once) *)
Definition serial_inj (fs : filters) : Prop :=
  forall p1 p2 h1 h2, filters_get fs p1 = Some h1 -> filters_get fs p2 = Some h2 ->
                      handler_serial h1 = handler_serial h2 -> p1 = p2.

Lemma c06_projection pkts : forall fs cx r, wf fs -> cx_changes cx = [] -> quiet_world fs pkts -> serial_inj fs ->
  spec_push' fs cx pkts = Ok r ->
  snd (fst r) = cx /\
  forall p hd, filters_get fs p = Some hd ->
    exists hd', pid_run p hd pkts = Ok (hd', sel (handler_serial hd) (snd r)) /\ filters_get (fst (fst r)) p = Some hd'.
Proof.
  induction pkts as [|[i pk] rest IH]; intros fs cx r Hw Hc Hq Hs.
  - cbn [spec_push]. intros E; inversion E; subst. cbn [fst snd]. split; [reflexivity|]. intros p hd Hg. exists hd. split; [reflexivity|exact Hg].
  - inversion Hq as [|? ? (q & hq & Hp & Hgq & Hqq) Hq']; subst. cbn [snd] in Hp. cbn [spec_push].
    destruct (spec_packet' fs cx (i, pk)) as [[[fs1 cx1] e1]|] eqn:E1; cbn [bind]; [|discriminate].
    destruct (packet_quiet fs cx i pk q hq _ Hw Hc Hp Hgq Hqq E1) as (hq' & Eo & Ecx & Hw1 & Gq & Go). cbn [fst snd] in *. subst cx1.
    destruct (own_step_out hq i pk hq' e1 Hqq Eo) as (Hqq' & Hser & Hev).
    assert (Hq1 : quiet_world fs1 rest).
    { unfold quiet_world in *. rewrite Forall_forall in *. intros ip Hin. destruct (Hq' ip Hin) as (q2 & h2 & P2 & G2 & Q2).
      destruct (N.eq_dec q2 q) as [->|Hn]; [exists q, hq'; auto|exists q2, h2; rewrite Go by assumption; auto]. }
    assert (Hs1 : serial_inj fs1).
    { intros p1 p2 h1 h2 G1 G2 Hse.
      destruct (N.eq_dec p1 q) as [->|N1]; destruct (N.eq_dec p2 q) as [->|N2]; try reflexivity.
      - rewrite Gq in G1. inversion G1; subst h1. rewrite Go in G2 by assumption. apply (Hs q p2 hq h2 Hgq G2). congruence.
      - rewrite Gq in G2. inversion G2; subst h2. rewrite Go in G1 by assumption. apply (Hs p1 q h1 hq G1 Hgq). congruence.
      - rewrite Go in G1, G2 by assumption. eapply Hs; eassumption. }
    destruct (spec_push' fs1 cx rest) as [[[fs2 cx2] e2]|] eqn:E2; cbn [bind]; [|discriminate].
    destruct (IH fs1 cx _ Hw1 Hc Hq1 Hs1 E2) as (Ecx2 & Hall). cbn [fst snd] in *.
    intros E; inversion E; subst. cbn [fst snd]. split; [reflexivity|].
    intros p hd Hg. cbn [pid_run]. rewrite Hp. cbn [bind]. rewrite sel_app.
    destruct (N.eqb_spec q p) as [->|Hn].
    + rewrite Hgq in Hg. inversion Hg; subst hd. rewrite Eo. cbn [bind fst snd].
      destruct (Hall p hq' Gq) as (hd' & Er & Gf). rewrite Hser in Er. rewrite Er. cbn [bind fst snd].
      rewrite (sel_all _ e1 Hev). exists hd'. split; [reflexivity|exact Gf].
    + assert (Hg1 : filters_get fs1 p = Some hd) by (rewrite Go by congruence; exact Hg).
      destruct (Hall p hd Hg1) as (hd' & Er & Gf). rewrite Er.
      rewrite (sel_none (handler_serial hd) (handler_serial hq) e1); [|intros Hse; apply Hn; eapply Hs; eassumption|exact Hev].
      exists hd'. split; [reflexivity|exact Gf].
Qed.

(* the consequence as the property words it: two packet lists in which PID p's packets are the same, in the
   same order — packets of other PIDs interleaved in any way, different ones, more or fewer — make p's handler
   observe exactly the same call-backs and leave it in the same state *)
Lemma c06_interleaving pkts1 pkts2 fs cx r1 r2 p hd : wf fs -> cx_changes cx = [] -> serial_inj fs ->
  quiet_world fs pkts1 -> quiet_world fs pkts2 -> proj p pkts1 = proj p pkts2 -> filters_get fs p = Some hd ->
  spec_push' fs cx pkts1 = Ok r1 -> spec_push' fs cx pkts2 = Ok r2 ->
  sel (handler_serial hd) (snd r1) = sel (handler_serial hd) (snd r2) /\
  filters_get (fst (fst r1)) p = filters_get (fst (fst r2)) p.
Proof.
  intros Hw Hc Hs Hq1 Hq2 Hpr Hg E1 E2.
  destruct (c06_projection pkts1 fs cx r1 Hw Hc Hq1 Hs E1) as (_ & H1).
  destruct (c06_projection pkts2 fs cx r2 Hw Hc Hq2 Hs E2) as (_ & H2).
  destruct (H1 p hd Hg) as (h1 & R1 & G1). destruct (H2 p hd Hg) as (h2 & R2 & G2).
  rewrite pid_run_proj in R1, R2. rewrite Hpr in R1. rewrite R1 in R2. injection R2 as Eh Es.
  split; [exact Es|congruence].
Qed.
End Projection.
