(* Proofs/TableProofs.v — C10 / C11 / C05 at the level of the table chain and the table processors. *)
From Coq Require Import List NArith Lia ZArith ZifyN ZifyNat ZifyBool Bool.
From TS Require Import Base.Res Base.ListX Model.Timestamp Model.Packet Model.PacketObs Model.Pes Model.PesObs
  Model.Descriptor Model.Tables Model.TablesObs Model.PesFilter Model.Crc Model.Psi Model.Demux
  Proofs.SectionProofs.
Import ListNotations.
Open Scope N_scope.

Section TableChain.
Variable fz : bool.
Variables IS CX EV : Type.
Variable inner : IS -> CX -> common_header -> list N -> list N -> option nat -> res (IS * CX * list EV).
Notation cfg := (table_cfg fz).
Notation sp_start_t := (sp_start cfg IS CX EV inner).
Notation sp_continue_t := (sp_continue cfg IS CX EV inner).
Notation spc_consume_t := (spc_consume cfg IS CX EV inner).

(* a section-syntax start that the outer processor accepts *)
Definition accepted_start (h : common_header) (data : list N) : Prop :=
  ch_ssi h = true /\ (8 <= length data)%nat /\ (ch_section_length h <= 1021)%nat.

Lemma tsh_new_ok data : (8 <= length data)%nat -> tsh_new (skipn 3 data) = Ok (skipn 3 data).
Proof. intros H. unfold tsh_new, assert, TSH_SIZE. rewrite skipn_length. replace (Nat.leb 5 (length data - 3)) with true by (symmetry; apply Nat.leb_le; lia). reflexivity. Qed.

Lemma sp_start_accepted (c : chain IS) cx h data off : accepted_start h data ->
  sp_start_t c cx h data off = dd_start cfg IS CX EV inner (set_sp_ignore IS c false) cx h (skipn 3 data) data off.
Proof.
  intros (Hs & Hl & Hm). unfold sp_start. cbn [table_cfg cf_compact]. rewrite Hs. cbn [negb].
  unfold SCH_SIZE, TSH_SIZE, SECTION_LIMIT_SYNTAX.
  replace (Nat.ltb (length data) (3 + 5)) with false by (symmetry; apply Nat.ltb_ge; lia).
  replace (Nat.ltb 1021 (ch_section_length h)) with false by (symmetry; apply Nat.ltb_ge; lia).
  unfold slice_from. replace (Nat.leb 3 (length data)) with true by (symmetry; apply Nat.leb_le; lia). cbn [bind].
  rewrite tsh_new_ok by assumption. reflexivity.
Qed.

(* ---- C10: a section whose version equals the remembered one is dropped before any buffering ---- *)
Lemma c10_skip_start (c : chain IS) cx h data off v : accepted_start h data ->
  dd_last_version c = Some v -> tsh_version (skipn 3 data) = Ok v ->
  sp_start_t c cx h data off = Ok (set_dedup IS (set_sp_ignore IS c false) (Some v) true, cx, []).
Proof.
  intros Ha Hl Hv. rewrite sp_start_accepted by assumption. unfold dd_start. cbn [table_cfg cf_dedup].
  rewrite Hv. cbn [bind set_sp_ignore dd_last_version]. rewrite Hl, N.eqb_refl. reflexivity.
Qed.

Lemma c10_skip_continue (c : chain IS) cx x : sp_ignore_rest c = false -> dd_ignore_rest c = true ->
  sp_continue_t c cx x = Ok (c, cx, []).
Proof. intros H1 H2. unfold sp_continue. rewrite H1. cbn [table_cfg cf_compact]. unfold dd_continue. cbn [table_cfg cf_dedup]. rewrite H2. reflexivity. Qed.

(* the state a skipped start leaves: buffer, buffer state and the table processor's own state untouched *)
Definition skipped (c : chain IS) (v : N) : chain IS := set_dedup IS (set_sp_ignore IS c false) (Some v) true.
Lemma skipped_frame (c : chain IS) v :
  bf_buf (skipped c v) = bf_buf c /\ bf_state (skipped c v) = bf_state c /\ in_state (skipped c v) = in_state c /\
  dd_last_version (skipped c v) = Some v /\ sp_ignore_rest (skipped c v) = false /\ dd_ignore_rest (skipped c v) = true.
Proof. repeat split. Qed.

(* the continuation packets of a repeated (multi-packet) section: nothing happens, however many *)
Fixpoint run_continues (c : chain IS) (cx : CX) (xs : list (list N)) : res (chain IS * CX * list EV) :=
  match xs with
  | [] => Ok (c, cx, [])
  | x :: r => do a <- sp_continue_t c cx x; let '(c1, cx1, e1) := a in
              do b <- run_continues c1 cx1 r; let '(c2, cx2, e2) := b in Ok (c2, cx2, e1 ++ e2)
  end.
Lemma c10_skip_continues xs : forall (c : chain IS) cx, sp_ignore_rest c = false -> dd_ignore_rest c = true ->
  run_continues c cx xs = Ok (c, cx, []).
Proof.
  induction xs as [|x xs IH]; intros c cx H1 H2; [reflexivity|].
  cbn [run_continues]. rewrite c10_skip_continue by assumption. cbn [bind]. rewrite IH by assumption. reflexivity.
Qed.

(* ---- C11: a start whose version differs from the remembered one always gets through to the buffer layer,
   from EVERY state of the chain (any buffer contents, Buffering or Complete, any ignore flags) ---- *)
Lemma c11_start_passes (c : chain IS) cx h data off v : accepted_start h data ->
  tsh_version (skipn 3 data) = Ok v -> dd_last_version c <> Some v ->
  sp_start_t c cx h data off =
  buf_start cfg IS CX EV inner (set_dedup IS (set_sp_ignore IS c false) (Some v) false) cx h (skipn 3 data) data off.
Proof.
  intros Ha Hv Hne. rewrite sp_start_accepted by assumption. unfold dd_start. cbn [table_cfg cf_dedup].
  rewrite Hv. cbn [bind set_sp_ignore dd_last_version].
  destruct (dd_last_version c) as [last|]; [|reflexivity].
  destruct (N.eqb_spec last v) as [->|]; [congruence|reflexivity].
Qed.

(* a section complete in its start packet whose CRC verifies reaches the table processor with exactly its bytes *)
Lemma c11_single_applied (c : chain IS) cx S data off v : fz = false ->
  accepted_start (hdr_of S) data -> (length S = ch_section_length (hdr_of S) + 3)%nat -> (length S <= length data)%nat ->
  firstn (length S) data = S -> (12 <= length S)%nat -> m_sum32 S = 0 ->
  tsh_version (skipn 3 data) = Ok v -> dd_last_version c <> Some v ->
  sp_start_t c cx (hdr_of S) data off =
  (do r <- inner (in_state c) cx (hdr_of S) (skipn 3 data) S (Some off);
   Ok (set_inner IS (set_buf IS (set_dedup IS (set_sp_ignore IS c false) (Some v) false) (bf_buf c) Complete) (fst (fst r)),
       snd (fst r), snd r)).
Proof.
  intros Hfz Ha Hlen Hfit Hpre H12 Hcrc Hv Hne. rewrite (c11_start_passes c cx _ data off v Ha Hv Hne).
  unfold buf_start, SCH_SIZE. rewrite <- Hlen.
  replace (Nat.leb (length S) (length data)) with true by (symmetry; apply Nat.leb_le; lia).
  unfold slice_to. replace (Nat.leb (length S) (length data)) with true by (symmetry; apply Nat.leb_le; lia).
  cbn [bind]. rewrite Hpre. unfold crc_layer_section. cbn [table_cfg cf_crc cf_fuzzing]. rewrite Hfz.
  destruct Ha as (Hs & _ & _). unfold assert. rewrite Hs. cbn [bind].
  unfold SCH_SIZE, TSH_SIZE. replace (Nat.ltb (length S) (3 + 5 + 4)) with false by (symmetry; apply Nat.ltb_ge; lia).
  rewrite Hcrc. cbn [N.eqb negb andb]. reflexivity.
Qed.
End TableChain.

(* ---- C05: what applying a table does ---- *)
Section Processors.
Variable policy : request -> hkind.

Definition req_of_pd (d : program_descriptor) : request :=
  match d with PdProgram pn pid => RqPmt pid pn | PdNetwork pid => RqNit pid end.

(* one request per entry, in table order, each followed by the queued insertion of the answer under the entry's PID *)
Fixpoint s_pat_apply (cx : ctx) (progs : list program_descriptor) : ctx * list event :=
  match progs with
  | [] => (cx, [])
  | d :: r =>
      let '(cx1, h, ev) := construct policy cx (req_of_pd d) in
      let '(cx3, ev3) := s_pat_apply (queue cx1 (ChInsert (pd_pid d) h)) r in
      (cx3, ev ++ ev3)
  end.

Definition pids_ok (progs : list program_descriptor) : Prop := Forall (fun d => pd_pid d < 8192) progs.

Lemma pat_entries_spec progs : forall cx seen reg, pids_ok progs ->
  pat_entries policy cx seen reg progs =
  Ok (fst (s_pat_apply cx progs),
      fold_left (fun s d => bs_insert (pd_pid d) s) progs seen,
      fold_left (fun s d => bs_insert (pd_pid d) s) progs reg,
      snd (s_pat_apply cx progs)).
Proof.
  induction progs as [|d r IH]; intros cx seen reg Hok; [reflexivity|].
  inversion Hok as [|? ? Hd Hr]; subst. cbn [pat_entries s_pat_apply fold_left].
  unfold req_of_pd. destruct (construct policy cx match d with PdNetwork pid => RqNit pid | PdProgram pn pid => RqPmt pid pn end) as [[cx1 h] ev] eqn:Ec.
  unfold bs_insert_checked, assert, BITSET_CAPACITY. replace (pd_pid d <? 8192) with true by lia. cbn [bind].
  rewrite IH by assumption. cbn [bind].
  destruct (s_pat_apply (queue cx1 (ChInsert (pd_pid d) h)) r) as [cx3 ev3]. reflexivity.
Qed.

(* remove_outdated: a Remove for every previously registered PID that the new table does not list, ascending *)
Lemma queue_removes_spec pids : forall cx, Forall (fun p => p <= 8191) pids ->
  queue_removes cx pids = Ok {| cx_changes := cx_changes cx ++ map ChRemove pids; cx_serial := cx_serial cx |}.
Proof.
  induction pids as [|p r IH]; intros cx Hok.
  - cbn. rewrite app_nil_r. destruct cx; reflexivity.
  - inversion Hok as [|? ? Hp Hr]; subst. cbn [queue_removes]. unfold pid_new, assert.
    replace (p <=? 8191) with true by lia. cbn [bind]. rewrite IH by assumption. unfold queue. cbn [cx_changes cx_serial map].
    rewrite <- app_assoc. reflexivity.
Qed.
End Processors.
