(* Proofs/ResourceProofs.v — C19: delivered slices are ranges of the pushed buffer; retained state is bounded;
   steady-state packets do not grow anything.  (What the allocator is actually asked is sampled, not proved.) *)
From Coq Require Import List NArith Lia ZArith ZifyN ZifyNat ZifyBool Bool.
From TS Require Import Base.Res Base.ListX Base.Bits Model.Timestamp Model.Packet Model.Pes Model.PesFilter Model.Crc Model.Psi Model.Demux
  Spec.PacketSpec Proofs.PacketProofs Proofs.PesFilterProofs Proofs.SectionProofs Proofs.TableProofs Proofs.DeepTotality Proofs.TotalityProofs.
Import ListNotations.
Open Scope N_scope.

(* ---- provenance: every payload the model hands out is a suffix range of the packet itself ---- *)
Lemma payload_is_suffix pk o d : pkt_ok pk -> pkt_payload pk = Ok (Some (o, d)) ->
  d = skipn o pk /\ (o < 188)%nat /\ (o + length d = 188)%nat.
Proof.
  intros (Hl & Hok) H. destruct (c12_split pk Hl Hok) as (_ & Hpl). rewrite Hpl in H. inversion H as [E]. clear H.
  assert (Ha : s_afc pk < 4) by (unfold s_afc, field; pose proof (N.mod_upper_bound (be pk / 2 ^ (nbits pk - 26 - 2)) (2^2)); change (2^2) with 4 in *; lia).
  assert (HL : s_af_length pk < 256) by (unfold s_af_length, field; pose proof (N.mod_upper_bound (be pk / 2 ^ (nbits pk - 32 - 8)) (2^8)); change (2^8) with 256 in *; lia).
  pose proof (c12_ranges (s_afc pk) (s_af_length pk) Ha HL) as Hr.
  destruct (s_payload_range (s_afc pk) (s_af_length pk)) as [[o' l']|]; cbn [range_bytes] in E; [|discriminate].
  inversion E; subst. clear E.
  assert (Hol : (o + l' = 188 /\ 0 < l')%nat) by (destruct (s_af_range (s_afc pk) (s_af_length pk)) as [[ao al]|]; lia).
  split; [apply firstn_all2; rewrite skipn_length; lia|]. split; [lia|]. rewrite firstn_length, skipn_length. lia.
Qed.

Definition slice_of (pk : pkt) (e : es_event) : Prop :=
  match e with
  | EsBeginPacket off d | EsContinuePacket off d => d = skipn off pk /\ (off + length d = 188)%nat
  | _ => True
  end.

Lemma c19_es_provenance f pk f' evs : pkt_ok pk -> pf_consume f pk = Ok (f', evs) -> Forall (slice_of pk) evs.
Proof.
  intros Hp. pose proof Hp as (Hl & Hok). destruct (c12_split pk Hl Hok) as (_ & Hpl).
  unfold pf_consume.
  destruct (pkt_payload pk) as [[[o d]|]|] eqn:Epl.
  - destruct (payload_is_suffix pk o d Hp Epl) as (Hd & Ho & Hod).
    destruct (pf_is_continuous f pk) as [cont|]; cbn [bind]; [|discriminate].
    destruct cont; destruct (pf_state f); cbn [negb pes_state_eqb];
      (destruct (pkt_continuity_counter pk) as [c|]; cbn [bind]; [|discriminate]);
      (destruct (pkt_payload_unit_start_indicator pk) as [[|]|]; cbn [bind pes_state_eqb]; [| |discriminate]);
      try (destruct (pes_header_from_bytes d) as [[hb|]|] eqn:Eh; cbn [bind]; [| |discriminate]);
      try (destruct (Nat.eqb (length d) 0); cbn [negb]);
      intros E; inversion E; subst; repeat (apply Forall_cons || apply Forall_nil); cbn [slice_of]; try exact I;
      try (pose proof (header_accept_self _ _ Eh); subst); split; auto.
  - destruct (pf_is_continuous f pk) as [cont|]; cbn [bind]; [|discriminate].
    destruct cont; destruct (pf_state f); cbn [negb pes_state_eqb];
      (destruct (pkt_continuity_counter pk) as [c|]; cbn [bind]; [|discriminate]);
      (destruct (pkt_payload_unit_start_indicator pk) as [[|]|]; cbn [bind pes_state_eqb]; [| |discriminate]);
      intros E; inversion E; subst; repeat (apply Forall_cons || apply Forall_nil); cbn [slice_of]; exact I.
  - rewrite Hpl in Epl. discriminate.
Qed.

(* ---- steady state: a packet for a PES consumer touches neither the change queue nor any other slot ---- *)
Lemma c19_pes_no_growth policy scripts fz deep s f cx i pk r :
  handler_consume policy scripts fz deep (HPes s f) cx i pk = Ok r ->
  exists f' ev, r = (HPes s f', cx, ev).
Proof.
  cbn [handler_consume]. destruct (pf_consume f pk) as [[f' e]|]; cbn [bind fst snd]; [|discriminate].
  destruct (es_events deep s i e) as [l|]; cbn [bind fst snd]; [|discriminate]. intros E; inversion E; subst. eauto.
Qed.

(* ---- bounded retained state: a section buffer never holds more than 1024 bytes ---- *)
Section Bound.
Variable fz : bool.
Variables IS CX EV : Type.
Variable inner : IS -> CX -> common_header -> list N -> list N -> option nat -> res (IS * CX * list EV).
Notation cfg := (table_cfg fz).

Definition buf_bnd (c : chain IS) : Prop :=
  (length (bf_buf c) <= 1024)%nat /\
  match bf_state c with Buffering r => (length (bf_buf c) + r <= 1024)%nat | Complete => True end.

Lemma crc_layer_bnd (c : chain IS) cx h tsh data origin r : buf_bnd c ->
  crc_layer_section cfg IS CX EV inner c cx h tsh data origin = Ok r -> buf_bnd (fst (fst r)).
Proof.
  intros Hb. unfold crc_layer_section. cbn [table_cfg cf_crc]. destruct (assert (ch_ssi h) 313); cbn [bind]; [|discriminate].
  destruct (Nat.ltb (length data) (SCH_SIZE + TSH_SIZE + 4)); [intros E; inversion E; exact Hb|].
  destruct (negb (cf_fuzzing cfg) && negb (m_sum32 data =? 0)); [intros E; inversion E; exact Hb|].
  destruct (inner (in_state c) cx h tsh data origin) as [[[i' cx'] ev]|]; cbn [bind]; [|discriminate].
  intros E; inversion E; subst. exact Hb.
Qed.

Lemma buf_start_bnd (c : chain IS) cx h tsh data off r : buf_bnd c -> (ch_section_length h <= 1021)%nat ->
  buf_start cfg IS CX EV inner c cx h tsh data off = Ok r -> buf_bnd (fst (fst r)).
Proof.
  intros Hb Hl. unfold buf_start, SCH_SIZE.
  destruct (Nat.leb_spec (ch_section_length h + 3) (length data)) as [Hfit|Hno].
  - destruct (slice_to data (ch_section_length h + 3) 314) as [d|]; cbn [bind]; [|discriminate].
    apply crc_layer_bnd. destruct Hb as [H1 _]. split; [exact H1|exact I].
  - unfold usub. replace (Nat.leb (length data) (ch_section_length h + 3)) with true by (symmetry; apply Nat.leb_le; lia).
    cbn [bind]. intros E; inversion E; subst. unfold buf_bnd. cbn [fst bf_buf bf_state set_buf]. split; lia.
Qed.

Lemma buf_continue_bnd (c : chain IS) cx x r : buf_bnd c ->
  buf_continue cfg IS CX EV inner c cx x = Ok r -> buf_bnd (fst (fst r)).
Proof.
  intros [H1 H2]. unfold buf_continue. destruct (bf_state c) as [rem|] eqn:Es; [|intros E; inversion E; subst; cbn [fst]; split; [exact H1|rewrite Es; exact I]].
  destruct (if Nat.ltb rem (length x) then Ok 0%nat else usub rem (length x) 316) as [nr|] eqn:Enr; cbn [bind]; [|discriminate].
  destruct (Nat.eqb_spec nr 0) as [H0|H0].
  - destruct (slice_to x rem 317) as [part|] eqn:Ep; cbn [bind]; [|discriminate].
    assert (Hpl : (length part <= rem)%nat).
    { unfold slice_to in Ep. destruct (Nat.leb rem (length x)); [|discriminate]. inversion Ep; subst. rewrite firstn_length. lia. }
    destruct (slice_to (bf_buf c ++ part) SCH_SIZE 318) as [hb|]; cbn [bind]; [|discriminate].
    destruct (sch_new hb) as [h|]; cbn [bind]; [|discriminate].
    cbn [table_cfg cf_compact]. destruct (do t <- slice_from (bf_buf c ++ part) SCH_SIZE 319; tsh_new t) as [tsh|]; cbn [bind]; [|discriminate].
    apply crc_layer_bnd. unfold buf_bnd. cbn [bf_buf bf_state set_buf]. rewrite app_length. split; [lia|exact I].
  - intros E; inversion E; subst. unfold buf_bnd. cbn [fst bf_buf bf_state set_buf]. rewrite app_length.
    assert (Hx : (length x <= rem /\ nr = rem - length x)%nat).
    { destruct (Nat.ltb_spec rem (length x)); [inversion Enr; subst; congruence|].
      unfold usub in Enr. destruct (Nat.leb (length x) rem); [|discriminate]. inversion Enr; subst. lia. }
    split; lia.
Qed.

Lemma flags_bnd (c : chain IS) v ig sp : buf_bnd c -> buf_bnd (set_dedup IS (set_sp_ignore IS c sp) v ig).
Proof. intros H; exact H. Qed.

Lemma sp_continue_bnd (c : chain IS) cx x r : buf_bnd c -> sp_continue cfg IS CX EV inner c cx x = Ok r -> buf_bnd (fst (fst r)).
Proof.
  intros Hb. unfold sp_continue. destruct (sp_ignore_rest c); [intros E; inversion E; exact Hb|].
  cbn [table_cfg cf_compact]. unfold dd_continue. cbn [table_cfg cf_dedup].
  destruct (dd_ignore_rest c); [intros E; inversion E; exact Hb|]. apply buf_continue_bnd. exact Hb.
Qed.

Lemma sp_start_bnd (c : chain IS) cx h data off r : buf_bnd c -> sp_start cfg IS CX EV inner c cx h data off = Ok r -> buf_bnd (fst (fst r)).
Proof.
  intros Hb. unfold sp_start. cbn [table_cfg cf_compact].
  destruct (negb (ch_ssi h)); [intros E; inversion E; exact Hb|].
  destruct (Nat.ltb (length data) (SCH_SIZE + TSH_SIZE)); [intros E; inversion E; exact Hb|].
  destruct (Nat.ltb_spec SECTION_LIMIT_SYNTAX (ch_section_length h)) as [|Hlim]; [intros E; inversion E; exact Hb|].
  destruct (slice_from data SCH_SIZE 320) as [t|]; cbn [bind]; [|discriminate].
  destruct (tsh_new t) as [tsh|]; cbn [bind]; [|discriminate].
  unfold dd_start. cbn [table_cfg cf_dedup]. destruct (tsh_version tsh) as [v|]; cbn [bind]; [|discriminate].
  unfold SECTION_LIMIT_SYNTAX in Hlim.
  destruct (dd_last_version (set_sp_ignore IS c false)) as [last|].
  - destruct (last =? v); [intros E; inversion E; exact Hb|]. apply buf_start_bnd; [exact Hb|exact Hlim].
  - apply buf_start_bnd; [exact Hb|exact Hlim].
Qed.

Lemma sp_reset_bnd (c : chain IS) : buf_bnd (sp_reset cfg IS c).
Proof. unfold sp_reset, dd_reset, buf_reset, buf_bnd. cbn [table_cfg cf_compact cf_dedup]. cbn. split; [lia|exact I]. Qed.

(* whatever the packet: if the chain step returns, its buffer still holds at most 1024 bytes *)
Lemma c19_buffer_bounded (c : chain IS) cx pk r : buf_bnd c ->
  spc_consume cfg IS CX EV inner c cx pk = Ok r -> buf_bnd (fst (fst r)).
Proof.
  intros Hb. unfold spc_consume. destruct (pkt_payload pk) as [[[poff pk_buf]|]|]; cbn [bind]; [| |discriminate].
  2:{ intros E; inversion E; exact Hb. }
  destruct (pkt_payload_unit_start_indicator pk) as [[|]|]; cbn [bind]; [| |discriminate].
  2:{ apply sp_continue_bnd. exact Hb. }
  destruct (idx pk_buf 0 321) as [p|]; cbn [bind]; [|discriminate].
  destruct (slice_from pk_buf 1 322) as [sd|]; cbn [bind]; [|discriminate].
  destruct (Nat.ltb 0 (N.to_nat p)).
  - destruct (Nat.leb (length sd) (N.to_nat p)); cbn [bind]; [intros E; inversion E; apply sp_reset_bnd|].
    destruct (slice_to sd (N.to_nat p) 323) as [rem|]; cbn [bind]; [|discriminate].
    destruct (sp_continue cfg IS CX EV inner c cx rem) as [[[c1 cx1] e1]|] eqn:E1; cbn [bind]; [|discriminate].
    pose proof (sp_continue_bnd c cx rem _ Hb E1) as Hb1. cbn [fst] in Hb1.
    destruct (slice_from sd (N.to_nat p) 324) as [next|]; cbn [bind]; [|discriminate].
    destruct (Nat.ltb (length next) SCH_SIZE); [intros E; inversion E; apply sp_reset_bnd|].
    destruct (slice_to next SCH_SIZE 325) as [hb|]; cbn [bind]; [|discriminate].
    destruct (sch_new hb) as [h|]; cbn [bind]; [|discriminate].
    destruct (sp_start cfg IS CX EV inner c1 cx1 h next (poff + 1 + N.to_nat p)) as [[[c2 cx2] e2]|] eqn:E2; cbn [bind]; [|discriminate].
    intros E; inversion E; subst. cbn [fst]. apply (sp_start_bnd c1 cx1 h next _ _ Hb1 E2).
  - cbn [bind]. destruct (slice_from sd (N.to_nat p) 324) as [next|]; cbn [bind]; [|discriminate].
    destruct (Nat.ltb (length next) SCH_SIZE); [intros E; inversion E; apply sp_reset_bnd|].
    destruct (slice_to next SCH_SIZE 325) as [hb|]; cbn [bind]; [|discriminate].
    destruct (sch_new hb) as [h|]; cbn [bind]; [|discriminate].
    destruct (sp_start cfg IS CX EV inner c cx h next (poff + 1 + N.to_nat p)) as [[[c2 cx2] e2]|] eqn:E2; cbn [bind]; [|discriminate].
    intros E; inversion E; subst. cbn [fst]. apply (sp_start_bnd c cx h next _ _ Hb E2).
Qed.
End Bound.
