(* Proofs/CrcProofs.v — C04: the table-driven checksum is the Annex A shift register; code words sum
   to zero; single-bit, burst (<= 32 bits) and double-bit errors are detected. *)
From Coq Require Import List NArith Lia ZArith ZifyN ZifyNat ZifyBool Bool.
From TS Require Import Base.Res Base.ListX Base.Bits Gen.CrcTable Model.Crc Spec.CrcSpec.
Import ListNotations.
Open Scope N_scope.
Ltac Zify.zify_post_hook ::= Z.div_mod_to_equations.

Definition dbl (r : N) : N := (2 * r) mod M32.

Lemma dbl_bits r n : N.testbit (dbl r) n = if (n <? 32) && negb (n =? 0) then N.testbit r (n - 1) else false.
Proof.
  unfold dbl. change M32 with (2 ^ 32).
  destruct (N.ltb_spec n 32) as [Hlt|Hge]; cbn [andb].
  - rewrite N.mod_pow2_bits_low by assumption.
    destruct (N.eqb_spec n 0) as [->|Hn]; cbn [negb].
    + apply N.testbit_even_0.
    + replace n with (N.succ (n - 1)) at 1 by lia. apply N.double_bits_succ.
  - apply N.mod_pow2_bits_high. assumption.
Qed.

Lemma dbl_lt r : dbl r < M32.
Proof. unfold dbl, M32. lia. Qed.

Lemma dbl_lxor a b : dbl (N.lxor a b) = N.lxor (dbl a) (dbl b).
Proof.
  apply N.bits_inj. intros n. rewrite N.lxor_spec, !dbl_bits.
  destruct ((n <? 32) && negb (n =? 0)); [apply N.lxor_spec|reflexivity].
Qed.

Lemma step0_alt r : step0 r = N.lxor (dbl r) (if N.testbit r 31 then POLY else 0).
Proof. reflexivity. Qed.

Ltac lxor_shuffle :=
  apply N.bits_inj; intros ?n; rewrite ?N.lxor_spec, ?N.bits_0;
  repeat match goal with |- context [N.testbit ?x ?k] => destruct (N.testbit x k) end; reflexivity.

Lemma step0_lxor a b : step0 (N.lxor a b) = N.lxor (step0 a) (step0 b).
Proof.
  unfold step0. fold (dbl (N.lxor a b)) (dbl a) (dbl b). rewrite dbl_lxor, N.lxor_spec.
  destruct (N.testbit a 31), (N.testbit b 31); cbn [xorb]; lxor_shuffle.
Qed.

Lemma step0_0 : step0 0 = 0. Proof. reflexivity. Qed.

Lemma poly_lt : POLY < M32. Proof. reflexivity. Qed.

Lemma step0_lt r : step0 r < M32.
Proof.
  unfold step0. fold (dbl r). change M32 with (2^32). apply lxor_lt.
  - apply dbl_lt.
  - destruct (N.testbit r 31); [exact poly_lt|reflexivity].
Qed.

Lemma step_lt r b : step r b < M32. Proof. apply step0_lt. Qed.

Lemma run_lt r bits : r < M32 -> run r bits < M32.
Proof.
  revert r. induction bits as [|b bits IH]; intros r Hr; [exact Hr|]. cbn [run fold_left]. apply IH, step_lt.
Qed.

(* ---- linearity of whole runs ---- *)
Fixpoint xor_bits (a b : list bool) : list bool :=
  match a, b with x :: a', y :: b' => xorb x y :: xor_bits a' b' | _, _ => [] end.

Lemma run_lxor bits1 : forall bits2 r1 r2, length bits1 = length bits2 ->
  run (N.lxor r1 r2) (xor_bits bits1 bits2) = N.lxor (run r1 bits1) (run r2 bits2).
Proof.
  induction bits1 as [|x b1 IH]; intros [|y b2] r1 r2 Hl; try discriminate Hl; [reflexivity|].
  cbn [xor_bits run fold_left]. injection Hl as Hl.
  fold (run (step (N.lxor r1 r2) (xorb x y)) (xor_bits b1 b2)) (run (step r1 x) b1) (run (step r2 y) b2).
  rewrite <- IH by assumption. f_equal.
  unfold step. rewrite <- step0_lxor. f_equal.
  destruct x, y; cbn [xorb]; lxor_shuffle.
Qed.

Lemma run_app r a b : run r (a ++ b) = run (run r a) b.
Proof. unfold run. apply fold_left_app. Qed.

Definition zeros (n : nat) : list bool := repeat false n.
Lemma xor_bits_zeros_l bits : xor_bits (zeros (length bits)) bits = bits.
Proof. unfold zeros. induction bits as [|b bits IH]; [reflexivity|]. cbn. rewrite IH. destruct b; reflexivity. Qed.
Lemma xor_bits_zeros_r bits : xor_bits bits (zeros (length bits)) = bits.
Proof. unfold zeros. induction bits as [|b bits IH]; [reflexivity|]. cbn. rewrite IH, xorb_false_r. reflexivity. Qed.
Lemma zeros_length n : length (zeros n) = n. Proof. apply repeat_length. Qed.

Lemma run_0_zeros n : run 0 (zeros n) = 0.
Proof. induction n as [|n IH]; [reflexivity|]. cbn [zeros repeat run fold_left]. exact IH. Qed.

(* run r bits = (run r zeros) xor (run 0 bits) *)
Lemma run_split r bits : run r bits = N.lxor (run r (zeros (length bits))) (run 0 bits).
Proof.
  rewrite <- run_lxor by apply zeros_length. rewrite N.lxor_0_r, xor_bits_zeros_l. reflexivity.
Qed.

(* ---- zero-input steps ---- *)
Fixpoint iter0 (k : nat) (r : N) : N := match k with O => r | S k' => iter0 k' (step0 r) end.
Lemma run_zeros r k : run r (zeros k) = iter0 k r.
Proof.
  revert r. induction k as [|k IH]; intros r; [reflexivity|].
  cbn [zeros repeat run fold_left iter0]. unfold step at 2. rewrite N.lxor_0_r. apply IH.
Qed.
Lemma iter0_lxor k a b : iter0 k (N.lxor a b) = N.lxor (iter0 k a) (iter0 k b).
Proof. revert a b. induction k as [|k IH]; intros a b; [reflexivity|]. cbn [iter0]. rewrite step0_lxor. apply IH. Qed.

Lemma testbit31_small r : r < TOP -> N.testbit r 31 = false.
Proof.
  intros H. unfold TOP in H. destruct (N.eq_dec r 0) as [->|Hz]; [reflexivity|].
  apply N.bits_above_log2. apply N.log2_lt_pow2; [lia|]. change (2^31) with 2147483648. lia.
Qed.
Lemma step0_small r : r < TOP -> step0 r = 2 * r.
Proof.
  intros H. unfold step0. rewrite testbit31_small by assumption. rewrite N.lxor_0_r.
  unfold TOP, M32 in *. rewrite N.mod_small by lia. reflexivity.
Qed.
Lemma iter0_small k r : r * 2 ^ N.of_nat k < M32 -> iter0 k r = r * 2 ^ N.of_nat k.
Proof.
  revert r. induction k as [|k IH]; intros r H; cbn [iter0].
  - cbn. lia.
  - replace (N.of_nat (S k)) with (1 + N.of_nat k) in * by lia. rewrite N.pow_add_r in *. change (2^1) with 2 in *.
    assert (Hr : r < TOP).
    { unfold TOP, M32 in *. assert (1 <= 2 ^ N.of_nat k) by (apply N.lt_pred_le; apply N.neq_0_lt_0, N.pow_nonzero; lia). nia. }
    rewrite step0_small by assumption. rewrite IH by lia. lia.
Qed.

(* ---- one byte: eight clocks of the register = one table look-up ---- *)
Lemma table_ok h d : h < 256 -> d < 256 ->
  N.lxor (iter0 8 (h * 16777216)) (run 0 (bits_of_byte d)) = nth (N.to_nat (N.lxor h d)) CRC_TABLE 0.
Proof. intros Hh Hd. apply N.eqb_eq. sweep2 h d Hh Hd. Qed.

Lemma crc_init_ok : CRC_INIT = 4294967295. Proof. reflexivity. Qed.
Lemma table_len : length CRC_TABLE = 256%nat. Proof. reflexivity. Qed.

(* specification side of one byte *)
Lemma byte_spec crc d hi lo : hi < 256 -> lo < 16777216 -> crc = N.lxor (hi * 16777216) lo ->
  run crc (bits_of_byte d) = N.lxor (N.lxor (iter0 8 (hi * 16777216)) (lo * 256)) (run 0 (bits_of_byte d)).
Proof.
  intros Hhi Hlo Hcrc.
  rewrite (run_split crc (bits_of_byte d)). f_equal.
  replace (length (bits_of_byte d)) with 8%nat by reflexivity.
  rewrite run_zeros, Hcrc, iter0_lxor. f_equal.
  rewrite (iter0_small 8 lo).
  - replace (2 ^ N.of_nat 8) with 256 by reflexivity. reflexivity.
  - replace (2 ^ N.of_nat 8) with 256 by reflexivity. unfold M32. lia.
Qed.

(* model side of one byte *)
Lemma byte_model crc d hi lo : crc < 4294967296 -> d < 256 -> hi = crc / 16777216 -> lo = crc mod 16777216 ->
  crc_step crc d = N.lxor (lo * 256) (nth (N.to_nat (N.lxor hi d)) CRC_TABLE 0).
Proof.
  intros Hc Hd Hhi Hlo. unfold crc_step.
  rewrite N.shiftr_div_pow2. replace (2^24) with 16777216 by reflexivity. rewrite <- Hhi.
  assert (Hh : hi < 256) by lia.
  assert (Hx : N.lxor hi d < 256) by (replace 256 with (2^8) by reflexivity; apply lxor_lt; assumption).
  replace 255 with (N.ones 8) by reflexivity. rewrite N.land_ones. replace (2^8) with 256 by reflexivity.
  rewrite (N.mod_small (N.lxor hi d)) by assumption.
  replace 4294967295 with (N.ones 32) by reflexivity. rewrite N.land_ones, N.shiftl_mul_pow2.
  replace (2^8) with 256 by reflexivity. replace (2^32) with 4294967296 by reflexivity.
  replace ((crc * 256) mod 4294967296) with (lo * 256) by lia.
  reflexivity.
Qed.

Lemma lxor_3 a b c : N.lxor (N.lxor a b) c = N.lxor b (N.lxor a c).
Proof. rewrite (N.lxor_comm a b), N.lxor_assoc. reflexivity. Qed.

Lemma byte_step crc d : crc < M32 -> d < 256 -> run crc (bits_of_byte d) = crc_step crc d.
Proof.
  intros Hc Hd. unfold M32 in Hc.
  assert (Hhi : crc / 16777216 < 256) by lia. assert (Hlo : crc mod 16777216 < 16777216) by lia.
  assert (Hcrc : crc = N.lxor (crc / 16777216 * 16777216) (crc mod 16777216)).
  { rewrite (lxor_add _ (crc mod 16777216) 24).
    - lia.
    - replace (2^24) with 16777216 by reflexivity. lia.
    - replace (2^24) with 16777216 by reflexivity. exact Hlo. }
  rewrite (byte_spec crc d _ _ Hhi Hlo Hcrc).
  rewrite (byte_model crc d _ _ Hc Hd eq_refl eq_refl).
  rewrite <- table_ok by assumption.
  apply lxor_3.
Qed.

Lemma c04_sum32_is_annexA (data : list N) : bytes_ok data -> m_sum32 data = s_crc data.
Proof.
  intros Hok. unfold m_sum32, s_crc. rewrite crc_init_ok.
  assert (H : forall crc, crc < M32 -> fold_left crc_step data crc = run crc (bits_of data)).
  { induction Hok as [|d data Hd Hok IH]; intros crc Hc; [reflexivity|].
    cbn [fold_left bits_of flat_map]. rewrite run_app. rewrite byte_step by assumption.
    apply IH. rewrite <- byte_step by assumption. apply run_lt, Hc. }
  apply H. reflexivity.
Qed.

(* ---- the register is invertible (generator has constant term 1) ---- *)
Lemma testbit31 r : r < M32 -> N.testbit r 31 = (TOP <=? r).
Proof.
  intros H. unfold M32, TOP in *.
  rewrite N.testbit_eqb. change (2^31) with 2147483648.
  destruct (N.leb_spec 2147483648 r).
  - assert (E : r / 2147483648 = 1) by lia. rewrite E. reflexivity.
  - assert (E : r / 2147483648 = 0) by lia. rewrite E. reflexivity.
Qed.

Definition unstep0 (s : N) : N := if N.odd s then (N.lxor s POLY) / 2 + TOP else s / 2.

Lemma odd_lxor a b : N.odd (N.lxor a b) = xorb (N.odd a) (N.odd b).
Proof. rewrite <- !N.bit0_odd. apply N.lxor_spec. Qed.
Lemma dbl_even r : N.odd (dbl r) = false.
Proof. rewrite <- N.bit0_odd, dbl_bits. reflexivity. Qed.

Lemma unstep_step r : r < M32 -> unstep0 (step0 r) = r.
Proof.
  intros H. unfold step0, unstep0. fold (dbl r). rewrite testbit31 by assumption.
  unfold M32, TOP in *.
  destruct (N.leb_spec 2147483648 r).
  - rewrite odd_lxor, dbl_even. change (N.odd POLY) with true. cbn [xorb].
    rewrite N.lxor_assoc, N.lxor_nilpotent, N.lxor_0_r. unfold dbl, M32. lia.
  - rewrite N.lxor_0_r, dbl_even. unfold dbl, M32. lia.
Qed.
Lemma step0_inj a b : a < M32 -> b < M32 -> step0 a = step0 b -> a = b.
Proof. intros Ha Hb H. rewrite <- (unstep_step a), <- (unstep_step b), H; auto. Qed.

Lemma lxor_cancel_r a b m : N.lxor a m = N.lxor b m -> a = b.
Proof.
  intros H. apply (f_equal (fun x => N.lxor x m)) in H.
  rewrite !N.lxor_assoc, N.lxor_nilpotent, !N.lxor_0_r in H. exact H.
Qed.
Lemma mask_lt (b : bool) : (if b then TOP else 0) < M32. Proof. destruct b; reflexivity. Qed.

Lemma step_inj a b x : a < M32 -> b < M32 -> step a x = step b x -> a = b.
Proof.
  intros Ha Hb H. unfold step in H. apply step0_inj in H.
  - eapply lxor_cancel_r, H.
  - change M32 with (2^32) in *. apply lxor_lt; [assumption|apply mask_lt].
  - change M32 with (2^32) in *. apply lxor_lt; [assumption|apply mask_lt].
Qed.
Lemma run_inj w : forall a b, a < M32 -> b < M32 -> run a w = run b w -> a = b.
Proof.
  induction w as [|x w IH]; intros a b Ha Hb H; [exact H|].
  cbn [run fold_left] in H. apply IH in H; [|apply step_lt|apply step_lt].
  eapply step_inj; eassumption.
Qed.
Lemma iter0_inj k a b : a < M32 -> b < M32 -> iter0 k a = iter0 k b -> a = b.
Proof. intros Ha Hb. rewrite <- !run_zeros. apply run_inj; assumption. Qed.
Lemma iter0_0 k : iter0 k 0 = 0. Proof. rewrite <- run_zeros. apply run_0_zeros. Qed.
Lemma iter0_nonzero k r : r < M32 -> r <> 0 -> iter0 k r <> 0.
Proof. intros Hr Hz E. apply Hz. apply (iter0_inj k); [assumption|reflexivity|]. rewrite E, iter0_0. reflexivity. Qed.

(* ---- every word of at most 32 bits is annihilated by the register whose top bits are that word ---- *)
Lemma preimage w : (length w <= 32)%nat ->
  exists s, s < M32 /\ s mod 2 ^ (32 - N.of_nat (length w)) = 0 /\ run s w = 0 /\ (s = 0 -> w = zeros (length w)).
Proof.
  induction w as [|b w IH]; intros Hl.
  - exists 0. repeat split; reflexivity.
  - cbn [length] in Hl. destruct IH as (s' & Hs' & Hmod & Hrun & Hz); [lia|].
    set (k := N.of_nat (length w)) in *. assert (Hk : k <= 31) by lia.
    assert (Heven : s' mod 2 = 0).
    { replace (32 - k) with (1 + (31 - k)) in Hmod by lia. rewrite N.pow_add_r in Hmod. change (2^1) with 2 in Hmod.
      assert (Hp : 2 ^ (31 - k) <> 0) by (apply N.pow_nonzero; lia).
      rewrite N.mod_mul_r in Hmod by (lia || assumption). lia. }
    exists (s' / 2 + if b then TOP else 0).
    assert (Hhalf : s' / 2 < TOP) by (unfold M32, TOP in *; lia).
    assert (Hx : N.lxor (s' / 2 + (if b then TOP else 0)) (if b then TOP else 0) = s' / 2).
    { destruct b; [|rewrite N.add_0_r, N.lxor_0_r; reflexivity].
      rewrite N.add_comm. rewrite <- (lxor_add TOP (s' / 2) 31); [|reflexivity|exact Hhalf].
      rewrite (N.lxor_comm TOP), N.lxor_assoc, N.lxor_nilpotent, N.lxor_0_r. reflexivity. }
    repeat split.
    + unfold M32, TOP in *. destruct b; lia.
    + cbn [length]. replace (32 - N.of_nat (S (length w))) with (31 - k) by lia.
      assert (Hp : 2 ^ (31 - k) <> 0) by (apply N.pow_nonzero; lia).
      replace (32 - k) with (1 + (31 - k)) in Hmod by lia. rewrite N.pow_add_r in Hmod. change (2^1) with 2 in Hmod.
      assert (Hdiv : (s' / 2) mod 2 ^ (31 - k) = 0).
      { rewrite N.mod_mul_r in Hmod by (lia || assumption). lia. }
      destruct b; [|rewrite N.add_0_r; exact Hdiv].
      assert (HT : TOP mod 2 ^ (31 - k) = 0).
      { unfold TOP. replace 2147483648 with (2 ^ k * 2 ^ (31 - k)).
        - apply N.mod_mul. assumption.
        - rewrite <- N.pow_add_r. replace (k + (31 - k)) with 31 by (clear - Hk; lia). reflexivity. }
      rewrite N.add_mod by assumption. rewrite Hdiv, HT. rewrite N.add_0_l. apply N.mod_0_l. assumption.
    + cbn [run fold_left]. unfold step. rewrite Hx. rewrite step0_small by assumption.
      replace (2 * (s' / 2)) with s' by lia. exact Hrun.
    + intros E. cbn [length zeros repeat]. destruct b.
      * unfold TOP in E. lia.
      * rewrite N.add_0_r in E. assert (s' = 0) by lia. f_equal. apply Hz. assumption.
Qed.

Lemma burst_nonzero w : (length w <= 32)%nat -> w <> zeros (length w) -> run 0 w <> 0.
Proof.
  intros Hl Hw E. destruct (preimage w Hl) as (s & Hs & _ & Hrun & Hz).
  assert (s = 0) by (apply (run_inj w); [assumption|reflexivity|congruence]).
  apply Hw, Hz. assumption.
Qed.

(* an error pattern that is zero outside a window of at most 32 bits *)
Definition burst_pattern (e : list bool) : Prop :=
  exists a w b, e = zeros a ++ w ++ zeros b /\ (length w <= 32)%nat /\ w <> zeros (length w).

Lemma burst_detected c e : length e = length c -> run 4294967295 c = 0 -> burst_pattern e ->
  run 4294967295 (xor_bits c e) <> 0.
Proof.
  intros Hlen Hc (a & w & b & -> & Hl & Hw).
  replace 4294967295 with (N.lxor 4294967295 0) at 1 by reflexivity.
  rewrite run_lxor by (symmetry; exact Hlen). rewrite Hc, N.lxor_0_l.
  rewrite !run_app, run_0_zeros, run_zeros.
  apply iter0_nonzero; [apply run_lt; reflexivity|]. apply burst_nonzero; assumption.
Qed.

(* ---- two isolated bit errors at distance d ---- *)
Lemma iter0_S_out d : forall x, iter0 (S d) x = step0 (iter0 d x).
Proof. induction d as [|d IH]; intros x; [reflexivity|]. cbn [iter0] in *. apply IH. Qed.

Definition walk_f (st : N * bool) : N * bool :=
  let y := step0 (fst st) in (y, snd st && negb (y =? POLY)).
Definition walk (n : N) (x : N) : N * bool := N.iter n walk_f (x, true).

Lemma walk_spec n x : fst (walk n x) = iter0 (N.to_nat n) x /\
  (snd (walk n x) = true -> forall d, (1 <= d <= N.to_nat n)%nat -> iter0 d x <> POLY).
Proof.
  unfold walk. induction n as [|n IH] using N.peano_ind.
  - cbn. split; [reflexivity|]. intros _ d Hd. lia.
  - rewrite N.iter_succ. destruct IH as [IH1 IH2]. unfold walk_f at 1. cbn [fst snd].
    rewrite N2Nat.inj_succ. rewrite iter0_S_out, <- IH1. split; [reflexivity|].
    intros H d Hd. apply andb_true_iff in H. destruct H as [H1 H2].
    destruct (Nat.eq_dec d (S (N.to_nat n))) as [->|Hne].
    + rewrite iter0_S_out, <- IH1. intros E. rewrite E, N.eqb_refl in H2. discriminate.
    + apply IH2; [assumption|lia].
Qed.
Definition DIST_BOUND : N := 65792.
Lemma order_check : snd (walk DIST_BOUND POLY) = true.
Proof. vm_compute. reflexivity. Qed.

Definition double_pattern (e : list bool) : Prop :=
  exists a d b, e = zeros a ++ [true] ++ zeros d ++ [true] ++ zeros b /\ N.of_nat (S d) <= DIST_BOUND.

Lemma step_0_true : step 0 true = POLY. Proof. reflexivity. Qed.
Lemma run_single r b : run r [b] = step r b. Proof. reflexivity. Qed.

Lemma double_detected c e : length e = length c -> run 4294967295 c = 0 -> double_pattern e ->
  run 4294967295 (xor_bits c e) <> 0.
Proof.
  intros Hlen Hc (a & d & b & -> & Hd).
  replace 4294967295 with (N.lxor 4294967295 0) at 1 by reflexivity.
  rewrite run_lxor by (symmetry; exact Hlen). rewrite Hc, N.lxor_0_l.
  rewrite !run_app, run_0_zeros. rewrite !run_single, step_0_true.
  rewrite (run_zeros POLY d).
  rewrite run_zeros. apply iter0_nonzero; [apply step_lt|].
  unfold step. rewrite step0_lxor. change (step0 TOP) with POLY.
  intros E. destruct (walk_spec DIST_BOUND POLY) as [_ Hw].
  apply (Hw order_check (S d)); [lia|].
  rewrite iter0_S_out.
  apply (lxor_cancel_r _ _ POLY). rewrite N.lxor_nilpotent. exact E.
Qed.

(* ---- a section followed by its CRC sums to zero ---- *)
Fixpoint dbln (k : nat) (r : N) : N := match k with O => r | S k' => dbln k' (dbl r) end.
Fixpoint tops (k : nat) (r : N) : list bool := match k with O => [] | S k' => N.testbit r 31 :: tops k' (dbl r) end.

Lemma step_top r : r < M32 -> step r (N.testbit r 31) = dbl r.
Proof.
  intros H. unfold step. rewrite testbit31 by assumption. unfold M32, TOP in *.
  destruct (N.leb_spec 2147483648 r) as [Hge|Hlt].
  - assert (E : r = N.lxor 2147483648 (r - 2147483648)).
    { rewrite (lxor_add 2147483648 (r - 2147483648) 31); [lia|reflexivity|change (2^31) with 2147483648; lia]. }
    rewrite E at 1. rewrite (N.lxor_comm 2147483648), N.lxor_assoc, N.lxor_nilpotent, N.lxor_0_r.
    rewrite step0_small by (unfold TOP; lia). unfold dbl, M32. lia.
  - rewrite N.lxor_0_r, step0_small by (unfold TOP; lia). unfold dbl, M32. lia.
Qed.
Lemma run_tops k : forall r, r < M32 -> run r (tops k r) = dbln k r.
Proof.
  induction k as [|k IH]; intros r H; [reflexivity|].
  cbn [tops run fold_left dbln]. rewrite step_top by assumption. apply IH, dbl_lt.
Qed.


Lemma dbln_arith k : forall r, r < M32 -> dbln k r = (r * 2 ^ N.of_nat k) mod M32.
Proof.
  induction k as [|k IH]; intros r Hr.
  - cbn [dbln]. change (2 ^ N.of_nat 0) with 1. rewrite N.mul_1_r. symmetry. apply N.mod_small, Hr.
  - cbn [dbln]. rewrite IH by apply dbl_lt. unfold dbl.
    rewrite N.mul_mod_idemp_l by (unfold M32; lia).
    replace (N.of_nat (S k)) with (1 + N.of_nat k) by lia. rewrite N.pow_add_r. change (2^1) with 2.
    f_equal. lia.
Qed.
Lemma dbln_32 r : r < M32 -> dbln 32 r = 0.
Proof.
  intros H. rewrite dbln_arith by assumption. change (2 ^ N.of_nat 32) with M32. apply N.mod_mul. unfold M32. lia.
Qed.
Lemma dbln_S j r : dbln (S j) r = dbl (dbln j r).
Proof. revert r. induction j as [|j IH]; intros r; [reflexivity|]. cbn [dbln] in *. apply IH. Qed.
Lemma dbln_lt j r : r < M32 -> dbln j r < M32.
Proof. intros H. rewrite dbln_arith by assumption. unfold M32. lia. Qed.
Lemma dbln_top j r : r < M32 -> (j <= 31)%nat -> N.testbit (dbln j r) 31 = N.testbit r (31 - N.of_nat j).
Proof.
  intros Hr Hj. rewrite dbln_arith by assumption. change M32 with (2^32).
  rewrite N.mod_pow2_bits_low by lia. apply N.mul_pow2_bits_high. lia.
Qed.

Lemma tops_bits k : forall j r, r < M32 -> (j + k <= 32)%nat ->
  tops k (dbln j r) = map (fun i => N.testbit r (31 - N.of_nat (j + i))) (seq 0 k).
Proof.
  induction k as [|k IH]; intros j r Hr Hjk; [reflexivity|].
  cbn [tops seq map]. rewrite dbln_top by (assumption || lia). rewrite Nat.add_0_r. f_equal.
  rewrite <- dbln_S. rewrite IH by (assumption || lia).
  rewrite <- seq_shift, map_map. apply map_ext. intros i. do 3 f_equal. lia.
Qed.

Lemma be32_bits r : r < M32 ->
  bits_of (be32 r) = map (fun i => N.testbit r (31 - N.of_nat (0 + i))) (seq 0 32).
Proof.
  intros Hr. unfold bits_of, be32. cbn [flat_map bits_of_byte app seq map Nat.add].
  change 16777216 with (2^24). change 65536 with (2^16). change 256 with (2^8).
  rewrite !N.mod_pow2_bits_low by lia. rewrite !N.div_pow2_bits.
  repeat (f_equal; [f_equal; vm_compute; reflexivity|]). reflexivity.
Qed.

Lemma self_feed r : r < M32 -> run r (bits_of (be32 r)) = 0.
Proof.
  intros Hr. rewrite be32_bits by assumption. rewrite <- (tops_bits 32 0 r Hr) by lia.
  cbn [dbln]. rewrite run_tops by assumption. apply dbln_32, Hr.
Qed.

Lemma bits_of_app a b : bits_of (a ++ b) = bits_of a ++ bits_of b.
Proof. unfold bits_of. apply flat_map_app. Qed.

Lemma be32_ok r : r < M32 -> bytes_ok (be32 r).
Proof. intros H. unfold M32 in H. unfold be32. repeat constructor; lia. Qed.

Lemma c04_codeword_zero (d : list N) : bytes_ok d -> m_sum32 (d ++ be32 (m_sum32 d)) = 0.
Proof.
  intros Hok.
  assert (Hlt : m_sum32 d < M32) by (rewrite c04_sum32_is_annexA by assumption; apply run_lt; reflexivity).
  rewrite c04_sum32_is_annexA by (apply Forall_app; split; [assumption|apply be32_ok, Hlt]).
  unfold s_crc. rewrite bits_of_app, run_app.
  rewrite (c04_sum32_is_annexA d Hok) in *. unfold s_crc in *. apply self_feed, Hlt.
Qed.

(* ---- error patterns on byte strings ---- *)
Lemma bits_of_xor c : forall e, length e = length c ->
  bits_of (xor_bytes c e) = xor_bits (bits_of c) (bits_of e).
Proof.
  induction c as [|x c IH]; intros [|y e] Hl; try discriminate Hl; [reflexivity|].
  cbn [xor_bytes]. change (bits_of (?a :: ?l)) with (bits_of_byte a ++ bits_of l).
  injection Hl as Hl. rewrite IH by assumption.
  unfold bits_of_byte. rewrite !N.lxor_spec. reflexivity.
Qed.
Lemma bits_of_length d : length (bits_of d) = (8 * length d)%nat.
Proof. induction d as [|x d IH]; [reflexivity|]. change (bits_of (x :: d)) with (bits_of_byte x ++ bits_of d). rewrite app_length, IH. cbn [length bits_of_byte]. lia. Qed.
Lemma xor_bytes_ok c : forall e, bytes_ok c -> bytes_ok e -> bytes_ok (xor_bytes c e).
Proof.
  induction c as [|x c IH]; intros [|y e] Hc He; try constructor.
  - inversion Hc; inversion He; subst. change 256 with (2^8). apply lxor_lt; assumption.
  - inversion Hc; inversion He; subst. apply IH; assumption.
Qed.

Lemma c04_detects (c e : list N) : bytes_ok c -> bytes_ok e -> length e = length c ->
  m_sum32 c = 0 -> (burst_pattern (bits_of e) \/ double_pattern (bits_of e)) ->
  m_sum32 (xor_bytes c e) <> 0.
Proof.
  intros Hc He Hl Hz Hp.
  rewrite c04_sum32_is_annexA in * by (assumption || apply xor_bytes_ok; assumption).
  unfold s_crc in *. rewrite bits_of_xor by assumption.
  assert (Hbl : length (bits_of e) = length (bits_of c)) by (rewrite !bits_of_length; lia).
  destruct Hp as [Hp|Hp]; [apply burst_detected|apply double_detected]; assumption.
Qed.
