"""Decoding of observation lists produced by the harness / model for stream-level cases, a small
independent transport-packet reader, and the run-time property predicates (monitors) evaluated on what
the IMPLEMENTATION did.  They classify a disagreement: predicate violated -> concrete failing input;
predicate holds -> only the correspondence is broken (reported as no-failing-input-found)."""

def unhex(tok):
    return bytes.fromhex(tok[1:])

def parse_events(nums):
    """flat list of ints -> list of events (see Model/DemuxObs.v enc_event)"""
    ev = []; i = 0; n = len(nums)
    while i < n:
        k = nums[i]
        if k == 1:
            s = nums[i + 1]; r = nums[i + 2]
            if r == 0: ev.append(("construct", s, ("bypid", nums[i + 3]))); i += 4
            elif r == 1:
                pp, st, ep, ln = nums[i + 3:i + 7]
                ev.append(("construct", s, ("bystream", pp, st, ep, tuple(nums[i + 7:i + 7 + ln])))); i += 7 + ln
            elif r == 2: ev.append(("construct", s, ("pmt", nums[i + 3], nums[i + 4]))); i += 5
            elif r == 3: ev.append(("construct", s, ("nit", nums[i + 3]))); i += 4
            else: raise ValueError("bad request kind")
        elif k == 2:
            s, idx, ln = nums[i + 1:i + 4]
            ev.append(("packet", s, idx, tuple(nums[i + 4:i + 4 + ln]))); i += 4 + ln
        elif k == 3:
            s = nums[i + 1]; e = nums[i + 2]
            if e == 0: ev.append(("es", s, "start")); i += 4
            elif e == 1:
                ln = nums[i + 3]; ev.append(("es", s, "begin", tuple(nums[i + 4:i + 4 + ln]))); i += 4 + ln
            elif e == 2: ev.append(("es", s, "cont", nums[i + 3], nums[i + 4])); i += 6
            elif e == 3: ev.append(("es", s, "end")); i += 4
            elif e == 4: ev.append(("es", s, "ccerr")); i += 4
            else: raise ValueError("bad es kind")
        else:
            raise ValueError("bad event tag %r at %d" % (k, i))
    return ev

def parse_obs(line):
    if line.startswith("PANIC"):
        return None
    return [int(x) for x in line.split()]

class Pkt:
    """independent reading of a 188-byte packet per ISO/IEC 13818-1 2.4.3.2"""
    def __init__(self, b):
        self.b = b
        self.sync = b[0] == 0x47
        self.tei = bool(b[1] & 0x80); self.pusi = bool(b[1] & 0x40)
        self.pid = ((b[1] & 0x1f) << 8) | b[2]
        self.scr = b[3] >> 6; self.afc = (b[3] >> 4) & 3; self.cc = b[3] & 15
        self.has_payload = bool(self.afc & 1)
        L = b[4]
        if self.afc == 1: self.payload_off = 4
        elif self.afc == 3 and L <= 182: self.payload_off = 5 + L
        else: self.payload_off = None
    def payload(self):
        return None if self.payload_off is None else self.b[self.payload_off:]
    def pes_header_ok(self):
        p = self.payload()
        return p is not None and len(p) >= 6 and p[0] == 0 and p[1] == 0 and p[2] == 1

def es_protocol_ok(events):
    """C08 monitor per consumer serial; returns None or a reason"""
    st = {}
    for e in events:
        if e[0] != "es": continue
        s, k = e[1], e[2]
        m = st.get(s, "nostream")
        if k == "start":
            if m != "nostream": return f"start_stream on consumer {s} although the stream had started"
            m = "idle"
        elif k == "begin":
            if m != "idle": return f"begin_packet on consumer {s} in state {m}"
            m = "open"
        elif k == "cont":
            if m != "open": return f"continue_packet on consumer {s} with no packet open (state {m})"
        elif k == "end":
            if m != "open": return f"end_packet on consumer {s} with no packet open (state {m})"
            m = "idle"
        elif k == "ccerr":
            if m == "open": m = "idle"
        st[s] = m
    return None

def split_by_packet(events):
    """groups of events per consumed packet marker: list of (serial, idx, [es events])"""
    out = []
    for e in events:
        if e[0] == "packet": out.append([e[1], e[2], []])
        elif e[0] == "es" and out: out[-1][2].append(e)
    return out

def pesf_judge(case, impl_line):
    """C08 + C09 predicates for a PESF case; returns None or reason"""
    toks = case.split()
    pkts = [Pkt(unhex(t)) for t in toks[2:]]
    nums = parse_obs(impl_line)
    if nums is None: return "implementation panicked"
    try: ev = parse_events(nums)
    except Exception as x: return f"undecodable observation ({x})"
    r = es_protocol_ok(ev)
    if r: return r
    groups = split_by_packet(ev)
    if len(groups) != len(pkts): return "number of packet markers differs from number of packets"
    prev = None; quarantined = False
    for i, (p, g) in enumerate(zip(pkts, groups)):
        kinds = [e[2] for e in g[2]]
        exp_err = prev is not None and p.cc != (((prev + 1) & 15) if p.has_payload else prev)
        if ("ccerr" in kinds) != exp_err:
            return f"packet {i}: continuity error {'missing' if exp_err else 'spurious'} (previous counter {prev}, counter {p.cc}, payload {p.has_payload})"
        if kinds.count("ccerr") > 1: return f"packet {i}: more than one continuity error"
        for k in kinds:
            if k == "ccerr": quarantined = True
            elif k == "begin": quarantined = False
            elif k == "cont" and quarantined: return f"packet {i}: continuation data delivered after a continuity error before any packet-begin"
        exp_begin = p.pusi and p.pes_header_ok()
        if ("begin" in kinds) != exp_begin:
            return f"packet {i}: packet-begin {'missing' if exp_begin else 'reported'} although the PES header is {'recognisable' if exp_begin else 'not recognisable'}"
        if p.pusi and not exp_begin: quarantined = True      # unrecognised header: nothing delivered until the next begin
        prev = p.cc
    return None

def parse_sec(nums, compact, npkts):
    """per packet: list of deliveries (header tuple, origin, bytes)"""
    out = []; i = 0
    for _ in range(npkts):
        cnt = nums[i]; i += 1; dl = []
        for _ in range(cnt):
            hdr = tuple(nums[i:i + 4]); i += 4
            tsh = None
            if not compact: tsh = tuple(nums[i:i + 5]); i += 5
            origin = (nums[i], nums[i + 1]); i += 2
            ln = nums[i]; i += 1
            data = bytes(nums[i:i + ln]); i += ln
            dl.append((hdr, tsh, origin, data))
        out.append(dl)
    if i != len(nums): raise ValueError("trailing numbers")
    return out

def sec_judge(case, impl_line):
    """C03 predicate: from the start packet on, the target section is delivered exactly once with exactly
    its bytes (never, when its section_length exceeds 1021)"""
    toks = case.split()
    truth = [t for t in toks if t.startswith("#")][0][1:]
    start, shex = truth.split(":")
    start = int(start); S = unhex(shex)
    pk = [t for t in toks[2:] if not t.startswith("#")]
    compact = int(toks[1]) & 1 == 1
    nums = parse_obs(impl_line)
    if nums is None: return "implementation panicked"
    try: per = parse_sec(nums, compact, len(pk))
    except Exception as x: return f"undecodable observation ({x})"
    L = ((S[1] & 0x0f) << 8) | S[2]
    hits = [d for dl in per[start:] for d in dl if d[3] == S]
    if L > 1021:
        return "a section declaring a length above 1021 was delivered" if hits else None
    if len(hits) != 1:
        return f"target section delivered {len(hits)} times (expected exactly once) from its start packet on"
    d = hits[0]
    if d[0] != (S[0], S[1] >> 7, (S[1] >> 6) & 1, L):
        return "delivered header fields differ from the section's"
    return None
