pub mod c04;
pub mod c12;
pub mod c13;
pub mod c14;
pub mod c15;
pub mod c16;
pub mod c17;
pub mod streams;
