(* Proofs/SectionProofs.v — C03: PSI sections are re-assembled exactly across transport packets. *)
From Coq Require Import List NArith Lia ZArith ZifyN ZifyNat ZifyBool Bool.
From TS Require Import Base.Res Base.ListX Base.Bits Model.Timestamp Model.Packet Model.Crc Model.Psi.
Import ListNotations.
Open Scope N_scope.

(* the chain as the property exercises it: SectionPacketConsumer -> {SectionSyntax|CompactSyntax}SectionProcessor
   -> Buffer{Section|Compact}SyntaxParser -> a recording whole-section consumer *)
Definition rcfg (compact : bool) : chain_cfg :=
  {| cf_compact := compact; cf_dedup := false; cf_crc := false; cf_fuzzing := false |}.
Definition delivery := (common_header * list N * list N * option nat)%type.
Definition recI (_ _ : unit) (h : common_header) (tsh data : list N) (origin : option nat)
  : res (unit * unit * list delivery) := Ok (tt, tt, [(h, tsh, data, origin)]).

Definition hdr_size (compact : bool) : nat := if compact then 3%nat else 8%nat.

Definition hdr_of (s : list N) : common_header :=
  match s with
  | b0 :: b1 :: b2 :: _ =>
      {| ch_table_id := b0; ch_ssi := nz (N.land b1 128); ch_private := nz (N.land b1 64);
         ch_section_length := N.to_nat (N.lor (N.shiftl (N.land b1 15) 8) b2) |}
  | _ => {| ch_table_id := 0; ch_ssi := false; ch_private := false; ch_section_length := 0 |}
  end.
Definition tsh_of (compact : bool) (s : list N) : list N := if compact then [] else skipn 3 s.

Lemma sch_new_firstn s : (3 <= length s)%nat -> sch_new (firstn 3 s) = Ok (hdr_of s).
Proof.
  intros H. destruct s as [|b0 [|b1 [|b2 r]]]; cbn in H; try lia. reflexivity.
Qed.

Notation sp_continue' compact := (sp_continue (rcfg compact) unit unit delivery recI).
Notation sp_start' compact := (sp_start (rcfg compact) unit unit delivery recI).
Notation spc_consume' compact := (spc_consume (rcfg compact) unit unit delivery recI).

Lemma set_inner_unit (c : chain unit) : set_inner unit c tt = c.
Proof. destruct c as [a b c d e []]. reflexivity. Qed.

(* ---- continuation of a section being buffered ---- *)
Lemma continue_partial compact (c : chain unit) r x :
  sp_ignore_rest c = false -> bf_state c = Buffering r -> (length x < r)%nat ->
  sp_continue' compact c tt x = Ok (set_buf unit c (bf_buf c ++ x) (Buffering (r - length x)), tt, []).
Proof.
  intros Hi Hs Hl. unfold sp_continue. rewrite Hi.
  assert (E : buf_continue (rcfg compact) unit unit delivery recI c tt x =
              Ok (set_buf unit c (bf_buf c ++ x) (Buffering (r - length x)), tt, [])).
  { unfold buf_continue. rewrite Hs.
    replace (Nat.ltb r (length x)) with false by (symmetry; apply Nat.ltb_ge; lia).
    unfold usub. replace (Nat.leb (length x) r) with true by (symmetry; apply Nat.leb_le; lia). cbn [bind].
    replace (Nat.eqb (r - length x) 0) with false by (symmetry; apply Nat.eqb_neq; lia). reflexivity. }
  destruct compact; cbn [rcfg cf_compact]; [exact E|]. unfold dd_continue. cbn [rcfg cf_dedup]. exact E.
Qed.

Lemma continue_complete compact (c : chain unit) r x :
  sp_ignore_rest c = false -> bf_state c = Buffering r -> (r <= length x)%nat ->
  (hdr_size compact <= length (bf_buf c))%nat ->
  let b := bf_buf c ++ firstn r x in
  sp_continue' compact c tt x = Ok (set_buf unit c b Complete, tt, [(hdr_of b, tsh_of compact b, b, None)]).
Proof.
  intros Hi Hs Hl Hh b. unfold sp_continue. rewrite Hi.
  assert (Hb3 : (3 <= length b)%nat) by (unfold b; rewrite app_length; destruct compact; cbn in Hh; lia).
  assert (E : buf_continue (rcfg compact) unit unit delivery recI c tt x =
              Ok (set_buf unit c b Complete, tt, [(hdr_of b, tsh_of compact b, b, None)])).
  { unfold buf_continue. rewrite Hs.
    assert (Hnr : (if Nat.ltb r (length x) then Ok 0%nat else usub r (length x) 316) = Ok 0%nat).
    { destruct (Nat.ltb_spec r (length x)); [reflexivity|]. unfold usub.
      replace (Nat.leb (length x) r) with true by (symmetry; apply Nat.leb_le; lia). f_equal. lia. }
    rewrite Hnr. cbn [bind Nat.eqb].
    unfold slice_to at 1. replace (Nat.leb r (length x)) with true by (symmetry; apply Nat.leb_le; lia). cbn [bind].
    fold b. unfold slice_to. unfold SCH_SIZE. replace (Nat.leb 3 (length b)) with true by (symmetry; apply Nat.leb_le; lia).
    cbn [bind]. rewrite sch_new_firstn by assumption. cbn [bind].
    destruct compact; cbn [rcfg cf_compact bind].
    - unfold crc_layer_section. cbn [rcfg cf_crc]. unfold recI. cbn [bind fst snd]. rewrite set_inner_unit. reflexivity.
    - unfold slice_from. replace (Nat.leb 3 (length b)) with true by (symmetry; apply Nat.leb_le; lia). cbn [bind].
      unfold tsh_new, assert, TSH_SIZE. rewrite skipn_length.
      assert (Hb8 : (8 <= length b)%nat) by (unfold b; rewrite app_length; cbn in Hh; lia).
      replace (Nat.leb 5 (length b - 3)) with true by (symmetry; apply Nat.leb_le; lia). cbn [bind].
      unfold crc_layer_section. cbn [rcfg cf_crc]. unfold recI. cbn [bind fst snd]. rewrite set_inner_unit. reflexivity. }
  destruct compact; cbn [rcfg cf_compact]; [exact E|]. unfold dd_continue. cbn [rcfg cf_dedup]. exact E.
Qed.

Lemma continue_after_complete compact (c : chain unit) x :
  bf_state c = Complete -> sp_continue' compact c tt x = Ok (c, tt, []).
Proof.
  intros Hs. unfold sp_continue. destruct (sp_ignore_rest c); [reflexivity|].
  destruct compact; cbn [rcfg cf_compact]; unfold dd_continue; cbn [rcfg cf_dedup]; unfold buf_continue; rewrite Hs; reflexivity.
Qed.

(* a run of continuation payloads *)
Fixpoint run_conts (compact : bool) (c : chain unit) (cs : list (list N)) : res (chain unit * list delivery) :=
  match cs with
  | [] => Ok (c, [])
  | x :: r => do a <- sp_continue' compact c tt x; do b <- run_conts compact (fst (fst a)) r; Ok (fst b, snd a ++ snd b)
  end.

Lemma run_conts_complete compact cs : forall c, bf_state c = Complete -> run_conts compact c cs = Ok (c, []).
Proof.
  induction cs as [|x cs IH]; intros c Hs; [reflexivity|].
  cbn [run_conts]. rewrite continue_after_complete by assumption. cbn [bind fst snd]. rewrite IH by assumption. reflexivity.
Qed.

(* continuation payloads that tile the rest of S (the last one possibly followed by stuffing or by the
   next section's bytes) make the chain deliver S exactly once, whatever their sizes *)
Lemma conts_deliver compact : forall (cs : list (list N)) (S : list N) (k : nat) (c : chain unit) (extra : list N),
  sp_ignore_rest c = false -> bf_buf c = firstn k S -> bf_state c = Buffering (length S - k) ->
  (hdr_size compact <= k < length S)%nat ->
  Forall (fun x => x <> []) cs ->
  concat cs = skipn k S ++ extra ->
  (forall pre last, cs = pre ++ [last] -> (length extra < length last)%nat) ->
  cs <> [] ->
  exists c', run_conts compact c cs = Ok (c', [(hdr_of S, tsh_of compact S, S, None)]).
Proof.
  induction cs as [|x cs IH]; intros S k c extra Hi Hb Hs Hk Hne Hcat Hlast Hnn; [congruence|].
  cbn [run_conts]. cbn [concat] in Hcat.
  assert (Hbl : length (bf_buf c) = k) by (rewrite Hb, firstn_length; lia).
  destruct (Nat.leb_spec (length S - k) (length x)) as [Hle|Hgt].
  - (* completes here *)
    assert (Hx : firstn (length S - k) x = skipn k S).
    { apply (f_equal (firstn (length S - k))) in Hcat.
      rewrite firstn_app in Hcat. replace (length S - k - length x)%nat with 0%nat in Hcat by lia.
      rewrite firstn_O, app_nil_r in Hcat. rewrite Hcat.
      rewrite firstn_app, skipn_length. replace (length S - k - (length S - k))%nat with 0%nat by lia.
      rewrite firstn_O, app_nil_r. apply firstn_all2. rewrite skipn_length. lia. }
    rewrite (continue_complete compact c (length S - k) x Hi Hs Hle) by lia.
    rewrite Hb, Hx, firstn_skipn. cbn [bind fst snd].
    rewrite run_conts_complete by reflexivity. cbn [bind fst snd app]. eexists. reflexivity.
  - (* still buffering *)
    destruct cs as [|y cs'].
    + exfalso. cbn in Hcat. rewrite app_nil_r in Hcat.
      specialize (Hlast [] x eq_refl).
      apply (f_equal (@length N)) in Hcat. rewrite app_length, skipn_length in Hcat. lia.
    + pose proof (Forall_inv Hne) as Hx0. pose proof (Forall_inv_tail Hne) as Hne'.
      destruct (app_eq_prefix x (concat (y :: cs')) (skipn k S) extra Hcat) as [Hxs Hrest'].
      { rewrite skipn_length. lia. }
      rewrite (continue_partial compact c (length S - k) x Hi Hs Hgt). cbn [bind fst snd].
      destruct (IH S (k + length x)%nat (set_buf unit c (bf_buf c ++ x) (Buffering (length S - k - length x))) extra) as [c' Hc'].
      * cbn [sp_ignore_rest set_buf]. exact Hi.
      * cbn [bf_buf set_buf]. rewrite Hb. rewrite Hxs at 1. apply firstn_add_skipn.
      * cbn [bf_state set_buf]. f_equal. lia.
      * lia.
      * assumption.
      * rewrite Hrest'. rewrite skipn_skipn. reflexivity.
      * intros pre last E. apply (Hlast (x :: pre) last). rewrite E. reflexivity.
      * discriminate.
      * rewrite Hc'. cbn [bind fst snd app]. eexists. reflexivity.
Qed.

(* ---- the start of a section ---- *)
Definition valid_start (compact : bool) (S : list N) : Prop :=
  (3 <= length S)%nat /\ length S = (ch_section_length (hdr_of S) + 3)%nat /\
  ch_ssi (hdr_of S) = negb compact /\ (ch_section_length (hdr_of S) <= 1021)%nat.

(* whole section present in the start packet: delivered in place, whatever the prior state *)
Lemma start_complete compact (c : chain unit) S data off :
  valid_start compact S -> (hdr_size compact <= length data)%nat -> (length S <= length data)%nat ->
  firstn (length S) data = S ->
  exists c', sp_start' compact c tt (hdr_of S) data off =
             Ok (c', tt, [(hdr_of S, (if compact then [] else skipn 3 data), S, Some off)]) /\ bf_state c' = Complete.
Proof.
  intros (H3 & Hlen & Hssi & Hlim) Hd Hfit Hpre. unfold sp_start.
  destruct compact; cbn [rcfg cf_compact negb hdr_size] in *.
  - rewrite Hssi. unfold SCH_SIZE, SECTION_LIMIT_COMPACT.
    replace (Nat.ltb (length data) 3) with false by (symmetry; apply Nat.ltb_ge; lia).
    replace (Nat.ltb 1021 (ch_section_length (hdr_of S))) with false by (symmetry; apply Nat.ltb_ge; lia).
    unfold buf_start, SCH_SIZE. rewrite <- Hlen.
    replace (Nat.leb (length S) (length data)) with true by (symmetry; apply Nat.leb_le; lia).
    unfold slice_to. replace (Nat.leb (length S) (length data)) with true by (symmetry; apply Nat.leb_le; lia).
    cbn [bind]. rewrite Hpre. unfold crc_layer_section. cbn [rcfg cf_crc]. unfold recI. cbn [bind fst snd]. rewrite set_inner_unit.
    eexists. split; reflexivity.
  - rewrite Hssi. cbn [negb]. unfold SCH_SIZE, TSH_SIZE, SECTION_LIMIT_SYNTAX.
    replace (Nat.ltb (length data) (3 + 5)) with false by (symmetry; apply Nat.ltb_ge; lia).
    replace (Nat.ltb 1021 (ch_section_length (hdr_of S))) with false by (symmetry; apply Nat.ltb_ge; lia).
    unfold slice_from. replace (Nat.leb 3 (length data)) with true by (symmetry; apply Nat.leb_le; lia). cbn [bind].
    unfold tsh_new, assert, TSH_SIZE. rewrite skipn_length.
    replace (Nat.leb 5 (length data - 3)) with true by (symmetry; apply Nat.leb_le; lia). cbn [bind].
    unfold dd_start. cbn [rcfg cf_dedup].
    unfold buf_start, SCH_SIZE. rewrite <- Hlen.
    replace (Nat.leb (length S) (length data)) with true by (symmetry; apply Nat.leb_le; lia).
    unfold slice_to. replace (Nat.leb (length S) (length data)) with true by (symmetry; apply Nat.leb_le; lia).
    cbn [bind]. rewrite Hpre. unfold crc_layer_section. cbn [rcfg cf_crc]. unfold recI. cbn [bind fst snd]. rewrite set_inner_unit.
    eexists. split; reflexivity.
Qed.

(* only a prefix present: nothing is delivered yet; the chain remembers exactly that prefix, whatever it held before *)
Lemma start_partial compact (c : chain unit) S data off :
  valid_start compact S -> (hdr_size compact <= length data < length S)%nat -> data = firstn (length data) S ->
  exists c', sp_start' compact c tt (hdr_of S) data off = Ok (c', tt, []) /\
             sp_ignore_rest c' = false /\ bf_buf c' = data /\ bf_state c' = Buffering (length S - length data).
Proof.
  intros (H3 & Hlen & Hssi & Hlim) Hd Hpre. unfold sp_start.
  destruct compact; cbn [rcfg cf_compact negb hdr_size] in *.
  - rewrite Hssi. unfold SCH_SIZE, SECTION_LIMIT_COMPACT.
    replace (Nat.ltb (length data) 3) with false by (symmetry; apply Nat.ltb_ge; lia).
    replace (Nat.ltb 1021 (ch_section_length (hdr_of S))) with false by (symmetry; apply Nat.ltb_ge; lia).
    unfold buf_start, SCH_SIZE. rewrite <- Hlen.
    replace (Nat.leb (length S) (length data)) with false by (symmetry; apply Nat.leb_gt; lia).
    unfold usub. replace (Nat.leb (length data) (length S)) with true by (symmetry; apply Nat.leb_le; lia). cbn [bind].
    eexists. repeat split.
  - rewrite Hssi. cbn [negb]. unfold SCH_SIZE, TSH_SIZE, SECTION_LIMIT_SYNTAX.
    replace (Nat.ltb (length data) (3 + 5)) with false by (symmetry; apply Nat.ltb_ge; lia).
    replace (Nat.ltb 1021 (ch_section_length (hdr_of S))) with false by (symmetry; apply Nat.ltb_ge; lia).
    unfold slice_from. replace (Nat.leb 3 (length data)) with true by (symmetry; apply Nat.leb_le; lia). cbn [bind].
    unfold tsh_new, assert, TSH_SIZE. rewrite skipn_length.
    replace (Nat.leb 5 (length data - 3)) with true by (symmetry; apply Nat.leb_le; lia). cbn [bind].
    unfold dd_start. cbn [rcfg cf_dedup].
    unfold buf_start, SCH_SIZE. rewrite <- Hlen.
    replace (Nat.leb (length S) (length data)) with false by (symmetry; apply Nat.leb_gt; lia).
    unfold usub. replace (Nat.leb (length data) (length S)) with true by (symmetry; apply Nat.leb_le; lia). cbn [bind].
    eexists. repeat split.
Qed.

(* a section declaring a length above 1021 is never delivered: the start is rejected and everything up to
   the next start is ignored *)
Lemma start_overlimit compact (c : chain unit) h data off :
  (1021 < ch_section_length h)%nat ->
  exists c', sp_start' compact c tt h data off = Ok (c', tt, []) /\ sp_ignore_rest c' = true.
Proof.
  intros Hl. unfold sp_start. destruct compact; cbn [rcfg cf_compact].
  - destruct (ch_ssi h); [eexists; split; reflexivity|].
    destruct (Nat.ltb (length data) SCH_SIZE); [eexists; split; reflexivity|].
    unfold SECTION_LIMIT_COMPACT. replace (Nat.ltb 1021 (ch_section_length h)) with true by (symmetry; apply Nat.ltb_lt; lia).
    eexists; split; reflexivity.
  - destruct (negb (ch_ssi h)); [eexists; split; reflexivity|].
    destruct (Nat.ltb (length data) (SCH_SIZE + TSH_SIZE)); [eexists; split; reflexivity|].
    unfold SECTION_LIMIT_SYNTAX. replace (Nat.ltb 1021 (ch_section_length h)) with true by (symmetry; apply Nat.ltb_lt; lia).
    eexists; split; reflexivity.
Qed.
Lemma ignored_continue compact (c : chain unit) x : sp_ignore_rest c = true -> sp_continue' compact c tt x = Ok (c, tt, []).
Proof. intros H. unfold sp_continue. rewrite H. reflexivity. Qed.

(* ---- the start packet: pointer_field, tail of the previous section, then the new section ---- *)
Lemma consume_start compact (c : chain unit) pk poff p T next :
  pkt_payload pk = Ok (Some (poff, p :: T ++ next)) -> pkt_payload_unit_start_indicator pk = Ok true ->
  length T = N.to_nat p -> (3 <= length next)%nat ->
  spc_consume' compact c tt pk =
  (do r1 <- (if Nat.ltb 0 (N.to_nat p) then sp_continue' compact c tt T else Ok (c, tt, []));
   do r2 <- sp_start' compact (fst (fst r1)) tt (hdr_of next) next (poff + 1 + N.to_nat p);
   Ok (fst r2, snd r1 ++ snd r2)).
Proof.
  intros Hpl Hpusi HT Hn. unfold spc_consume. rewrite Hpl. cbn [bind]. rewrite Hpusi. cbn [bind idx nth_error].
  unfold slice_from at 1. cbn [length Nat.leb bind skipn].
  assert (Hlen : length (T ++ next) = (N.to_nat p + length next)%nat) by (rewrite app_length; lia).
  destruct (Nat.ltb_spec 0 (N.to_nat p)) as [Hp|Hp].
  - replace (Nat.leb (length (T ++ next)) (N.to_nat p)) with false by (symmetry; apply Nat.leb_gt; lia).
    unfold slice_to. replace (Nat.leb (N.to_nat p) (length (T ++ next))) with true by (symmetry; apply Nat.leb_le; lia).
    cbn [bind]. rewrite <- HT, firstn_app_exact.
    destruct (sp_continue' compact c tt T) as [[[c1 u] e1]|]; cbn [bind fst snd]; [|reflexivity].
    destruct u. unfold slice_from. rewrite HT. replace (Nat.leb (N.to_nat p) (length (T ++ next))) with true by (symmetry; apply Nat.leb_le; lia).
    cbn [bind]. rewrite <- HT, skipn_app_exact.
    replace (Nat.ltb (length next) SCH_SIZE) with false by (symmetry; apply Nat.ltb_ge; unfold SCH_SIZE; lia).
    unfold slice_to, SCH_SIZE. replace (Nat.leb 3 (length next)) with true by (symmetry; apply Nat.leb_le; lia). cbn [bind].
    rewrite sch_new_firstn by assumption. cbn [bind]. rewrite HT. reflexivity.
  - assert (Hp0 : N.to_nat p = 0%nat) by lia. cbn [bind].
    assert (HT0 : T = []) by (destruct T; [reflexivity|cbn in HT; lia]). subst T. cbn [app] in *.
    unfold slice_from. rewrite Hp0. cbn [Nat.leb bind skipn].
    replace (Nat.ltb (length next) SCH_SIZE) with false by (symmetry; apply Nat.ltb_ge; unfold SCH_SIZE; lia).
    unfold slice_to, SCH_SIZE. replace (Nat.leb 3 (length next)) with true by (symmetry; apply Nat.leb_le; lia). cbn [bind].
    rewrite sch_new_firstn by assumption. cbn [bind fst snd]. reflexivity.
Qed.

Lemma consume_continuation compact (c : chain unit) pk poff payload :
  pkt_payload pk = Ok (Some (poff, payload)) -> pkt_payload_unit_start_indicator pk = Ok false ->
  spc_consume' compact c tt pk = sp_continue' compact c tt payload.
Proof. intros Hpl Hp. unfold spc_consume. rewrite Hpl. cbn [bind]. rewrite Hp. reflexivity. Qed.

Lemma consume_no_payload compact (c : chain unit) pk :
  pkt_payload pk = Ok None -> spc_consume' compact c tt pk = Ok (c, tt, []).
Proof. intros Hpl. unfold spc_consume. rewrite Hpl. reflexivity. Qed.

(* start + continuations: from the start_section call onwards exactly one delivery, of exactly S,
   for every prior state [c] of the chain *)
Lemma c03_exact compact (c : chain unit) S data off cs extra :
  valid_start compact S -> (hdr_size compact <= length data < length S)%nat -> data = firstn (length data) S ->
  Forall (fun x => x <> []) cs -> concat cs = skipn (length data) S ++ extra ->
  (forall pre last, cs = pre ++ [last] -> (length extra < length last)%nat) -> cs <> [] ->
  exists c1 c2, sp_start' compact c tt (hdr_of S) data off = Ok (c1, tt, []) /\
                run_conts compact c1 cs = Ok (c2, [(hdr_of S, tsh_of compact S, S, None)]).
Proof.
  intros Hv Hd Hpre Hne Hcat Hlast Hnn.
  destruct (start_partial compact c S data off Hv Hd Hpre) as (c1 & Hs & Hi & Hb & Hst).
  destruct (conts_deliver compact cs S (length data) c1 extra Hi) as [c2 Hc2]; try assumption.
  - rewrite Hb. exact Hpre.
  - exists c1, c2. split; assumption.
Qed.
