(* Spec/TimestampSpec.v — ISO/IEC 13818-1 2.4.3.7 PTS/DTS layout:
     prefix 4 | ts[32..30] 3 | marker 1 | ts[29..15] 15 | marker 1 | ts[14..0] 15 | marker 1
   as uimsbf fields of the byte string (bit 0 = MSB of the first byte), plus an encoder. *)
From TS Require Import Base.Res Base.Bits Model.Timestamp.
Open Scope N_scope.

Definition s_ts_prefix (bs : list N) : N := field bs 0 4.
Definition s_ts_value (bs : list N) : N :=
  field bs 4 3 * 1073741824 + field bs 8 15 * 32768 + field bs 24 15.

(* the first cleared marker, in the order 7, 23, 39, is reported *)
Definition s_ts_decode (bs : list N) : rresult N ts_err :=
  if negb (bitf bs 7) then RErr (MarkerBitNotSet 7)
  else if negb (bitf bs 23) then RErr (MarkerBitNotSet 23)
  else if negb (bitf bs 39) then RErr (MarkerBitNotSet 39)
  else ROk (s_ts_value bs).

Definition s_ts_decode_prefixed (expected : N) (bs : list N) : rresult N ts_err :=
  if s_ts_prefix bs =? expected then s_ts_decode bs
  else RErr (IncorrectPrefixBits expected (s_ts_prefix bs)).

(* encoder: 33-bit value into the 5-byte layout with all markers set *)
Definition ts_encode (prefix v : N) : list N :=
  [prefix * 16 + (v / 1073741824) * 2 + 1;
   (v / 4194304) mod 256;
   ((v / 32768) mod 128) * 2 + 1;
   (v / 128) mod 256;
   (v mod 128) * 2 + 1].

(* clock reference (PCR/OPCR layout): base 33 | reserved 6 | extension 9 *)
Definition s_pcr_base (bs : list N) : N := field bs 0 33.
Definition s_pcr_ext (bs : list N) : N := field bs 39 9.
