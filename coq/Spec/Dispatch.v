(* Spec/Dispatch.v — the dispatcher as the properties describe it: one packet at a time, against a table
   PID -> handler; queued changes are applied after every packet, in order. *)
From TS Require Import Base.Res Model.Timestamp Model.Packet Model.PacketObs Model.Pes Model.PesObs
  Model.Descriptor Model.Tables Model.TablesObs Model.PesFilter Model.Crc Model.Psi Model.Demux.
Open Scope N_scope.

Section Spec.
Variable policy : request -> hkind.
Variable scripts : N -> nat -> list action.
Variable fuzzing deep : bool.

Definition clear_changes (cx : ctx) : ctx := {| cx_changes := []; cx_serial := cx_serial cx |}.

(* one packet with a valid sync byte *)
Definition spec_packet (fs : filters) (cx : ctx) (ip : N * pkt) : res (filters * ctx * list event) :=
  let '(i, pk) := ip in
  do pid <- pkt_pid pk;
  (* a handler is requested from the application when an unannounced PID first needs one *)
  do r0 <- (if filters_contains fs pid then Ok (fs, cx, [])
            else let '(cx1, h, ev) := construct policy cx (RqByPid pid) in
                 do fs1 <- filters_insert fs pid h; Ok (fs1, cx1, ev));
  let '(fs1, cx1, ev1) := r0 in
  match filters_get fs1 pid with
  | None => Panic 410
  | Some hd =>
      (* flagged packets reach no handler *)
      do tei <- pkt_transport_error_indicator pk;
      if tei then Ok (fs1, cx1, ev1)
      else
        do tsc <- pkt_transport_scrambling_control pk;
        if tsc_is_scrambled tsc then Ok (fs1, cx1, ev1)
        else
          (* the packet goes to the handler registered for its PID, then every queued change is applied *)
          do hc <- handler_consume policy scripts fuzzing deep hd cx1 i pk;
          let '(hd', cx2, ev2) := hc in
          do fs3 <- apply_changes (set_slot fs1 pid (Some hd')) (cx_changes cx2);
          Ok (fs3, clear_changes cx2, ev1 ++ ev2)
  end.

Fixpoint spec_push (fs : filters) (cx : ctx) (pkts : list (N * pkt)) : res (filters * ctx * list event) :=
  match pkts with
  | [] => Ok (fs, cx, [])
  | p :: rest =>
      do a <- spec_packet fs cx p;
      let '(fs1, cx1, e1) := a in
      do b <- spec_push fs1 cx1 rest;
      let '(fs2, cx2, e2) := b in
      Ok (fs2, cx2, e1 ++ e2)
  end.

(* the table after a list of changes: the last request for a PID wins *)
Fixpoint last_change (cs : list change) (pid : N) : option (option handler) :=
  match cs with
  | [] => None
  | ChInsert p h :: r => match last_change r pid with Some x => Some x | None => if p =? pid then Some (Some h) else None end
  | ChRemove p :: r => match last_change r pid with Some x => Some x | None => if p =? pid then Some None else None end
  end.
End Spec.
