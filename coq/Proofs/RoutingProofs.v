(* Proofs/RoutingProofs.v — C05, from the bytes of one transport packet to the handler table: what applying a PAT /
   PMT version does to the routing, in closed form. *)
From Coq Require Import List NArith Lia ZArith ZifyN ZifyNat ZifyBool Bool.
From TS Require Import Base.Res Base.ListX Base.Bits Model.Timestamp Model.Packet Model.PacketObs Model.Pes Model.PesObs
  Model.Descriptor Model.Tables Model.TablesObs Model.PesFilter Model.Crc Model.Psi Model.Demux
  Spec.PacketSpec Spec.TablesSpec Spec.Dispatch
  Proofs.PacketProofs Proofs.TablesProofs Proofs.SectionProofs Proofs.DispatchProofs Proofs.TableProofs Proofs.DeepTotality Proofs.TotalityProofs.
Import ListNotations.
Open Scope N_scope.

(* ---- the sorted-list bit set ---- *)
Lemma bs_mem_insert p x l : bs_mem p (bs_insert x l) = (p =? x) || bs_mem p l.
Proof.
  induction l as [|y r IH]; cbn [bs_insert bs_mem existsb]; [rewrite orb_false_r; reflexivity|].
  destruct (x <? y) eqn:E1; [reflexivity|]. destruct (N.eqb_spec x y) as [->|Hn].
  - cbn [existsb]. destruct (p =? y); reflexivity.
  - cbn [existsb]. fold (bs_mem p (bs_insert x r)). rewrite IH. fold (bs_mem p r).
    destruct (p =? y), (p =? x); reflexivity.
Qed.

Lemma bs_mem_fold {A} (f : A -> N) (l : list A) : forall p s,
  bs_mem p (fold_left (fun s d => bs_insert (f d) s) l s) = existsb (fun d => p =? f d) l || bs_mem p s.
Proof.
  induction l as [|d r IH]; intros p s; [reflexivity|]. cbn [fold_left existsb]. rewrite IH, bs_mem_insert.
  destruct (p =? f d), (existsb (fun d0 => p =? f d0) r); reflexivity.
Qed.

Lemma bs_mem_difference p a b : bs_mem p (bs_difference a b) = bs_mem p a && negb (bs_mem p b).
Proof.
  unfold bs_difference, bs_mem. induction a as [|x r IH]; [reflexivity|]. cbn [filter existsb].
  destruct (negb (existsb (N.eqb x) b)) eqn:E.
  - cbn [existsb]. rewrite IH. destruct (N.eqb_spec p x) as [->|Hn]; cbn [orb andb]; [rewrite E; reflexivity|reflexivity].
  - rewrite IH. destruct (N.eqb_spec p x) as [->|Hn]; cbn [orb andb]; [rewrite E, andb_false_r; reflexivity|reflexivity].
Qed.

(* ---- the changes a table application queues, and which of them wins for a PID ---- *)
Lemma last_change_app a : forall b p,
  last_change (a ++ b) p = match last_change b p with Some x => Some x | None => last_change a p end.
Proof.
  induction a as [|[q h|q] r IH]; intros b p; cbn [app last_change].
  - destruct (last_change b p); reflexivity.
  - rewrite IH. destruct (last_change b p); [reflexivity|]. reflexivity.
  - rewrite IH. destruct (last_change b p); [reflexivity|]. reflexivity.
Qed.

Lemma last_change_removes rem p : last_change (map ChRemove rem) p = if bs_mem p rem then Some None else None.
Proof.
  induction rem as [|q r IH]; [reflexivity|]. cbn [map last_change bs_mem existsb]. rewrite IH. fold (bs_mem p r).
  destruct (bs_mem p r); [rewrite orb_true_r; reflexivity|]. rewrite orb_false_r, (N.eqb_sym q p). reflexivity.
Qed.

Section Apply.
Variable policy : request -> hkind.

(* a table application: one request per entry in table order, each answer queued for insertion under the entry's PID *)
Fixpoint s_apply (cx : ctx) (ents : list (N * request)) : ctx * list event :=
  match ents with
  | [] => (cx, [])
  | (pid, rq) :: r =>
      let '(cx1, h, ev) := construct policy cx rq in
      let '(cx3, ev3) := s_apply (queue cx1 (ChInsert pid h)) r in
      (cx3, ev ++ ev3)
  end.

Fixpoint ins_list (s : N) (ents : list (N * request)) : list change :=
  match ents with
  | [] => []
  | (pid, rq) :: r => ChInsert pid (mk_handler (policy rq) s) :: ins_list (s + 1) r
  end.

Lemma s_apply_ctx ents : forall cx,
  fst (s_apply cx ents) = {| cx_changes := cx_changes cx ++ ins_list (cx_serial cx) ents; cx_serial := cx_serial cx + N.of_nat (length ents) |}.
Proof.
  induction ents as [|[pid rq] r IH]; intros cx.
  - cbn. rewrite app_nil_r, N.add_0_r. destruct cx; reflexivity.
  - cbn [s_apply construct ins_list length].
    destruct (s_apply (queue {| cx_changes := cx_changes cx; cx_serial := cx_serial cx + 1 |} (ChInsert pid (mk_handler (policy rq) (cx_serial cx)))) r) as [cx3 ev3] eqn:E.
    cbn [fst]. replace cx3 with (fst (s_apply (queue {| cx_changes := cx_changes cx; cx_serial := cx_serial cx + 1 |} (ChInsert pid (mk_handler (policy rq) (cx_serial cx)))) r)) by (rewrite E; reflexivity).
    rewrite IH. unfold queue. cbn [cx_changes cx_serial]. rewrite <- app_assoc. cbn [app]. f_equal. lia.
Qed.

(* the insertion that wins for PID p: the LAST entry listing p *)
Lemma last_change_ins ents : forall s p,
  match last_change (ins_list s ents) p with
  | None => existsb (fun e => p =? fst e) ents = false
  | Some None => False
  | Some (Some h) => exists k rq, nth_error ents k = Some (p, rq) /\ h = mk_handler (policy rq) (s + N.of_nat k)
  end.
Proof.
  induction ents as [|[pid rq] r IH]; intros s p; [reflexivity|]. cbn [ins_list last_change existsb fst].
  specialize (IH (s + 1) p). destruct (last_change (ins_list (s + 1) r) p) as [[h|]|].
  - destruct IH as (k & rq' & Hn & Hh). exists (S k), rq'. split; [exact Hn|]. rewrite Hh. f_equal. lia.
  - contradiction.
  - destruct (N.eqb_spec pid p) as [->|Hn].
    + exists 0%nat, rq. split; [reflexivity|]. f_equal. lia.
    + rewrite IH. replace (p =? pid) with false by (symmetry; apply N.eqb_neq; congruence). reflexivity.
Qed.
End Apply.

(* ---- the two table processors in closed form ---- *)
Section Tables.
Variable policy : request -> hkind.

Definition pat_ent (d : program_descriptor) : N * request := (pd_pid d, req_of_pd d).

Lemma s_pat_apply_is progs : forall cx, s_pat_apply policy cx progs = s_apply policy cx (map pat_ent progs).
Proof.
  induction progs as [|d r IH]; intros cx; [reflexivity|]. cbn [s_pat_apply map s_apply pat_ent].
  destruct (construct policy cx (req_of_pd d)) as [[cx1 h] ev]. rewrite IH. reflexivity.
Qed.

(* the bytes between the 8 header bytes and the CRC *)
Definition sect_body (data : list N) : list N := firstn (length data - 4 - (3 + 5)) (skipn (3 + 5) data).

Definition listed {A} (f : A -> N) (l : list A) (p : N) : bool := existsb (fun d => p =? f d) l.

(* a PAT version: requests Pmt{pid, program_number} / Nit{pid} in table order, answers queued under the entries' PIDs,
   then a Remove for every PID registered before that this version does not list; the listed PIDs become the registered set *)
Lemma pat_section_spec ps cx h tsh data origin : bytes_ok data -> (12 <= length data)%nat -> ch_table_id h = 0 ->
  reg_ok (pat_registered ps) ->
  let progs := s_pat (sect_body data) in
  let seen := fold_left (fun s d => bs_insert (pd_pid d) s) progs [] in
  let reg := fold_left (fun s d => bs_insert (pd_pid d) s) progs (pat_registered ps) in
  pat_section policy ps cx h tsh data origin =
  Ok ({| pat_registered := seen |},
      {| cx_changes := cx_changes cx ++ ins_list policy (cx_serial cx) (map pat_ent progs) ++ map ChRemove (bs_difference reg seen);
         cx_serial := cx_serial cx + N.of_nat (length progs) |},
      snd (s_apply policy cx (map pat_ent progs))).
Proof.
  intros Hb Hl Ht Hr0 progs seen reg. unfold pat_section, usub.
  replace (Nat.leb 4 (length data)) with true by (symmetry; apply Nat.leb_le; lia). cbn [bind].
  unfold slice, SCH_SIZE, TSH_SIZE.
  replace (Nat.leb (3 + 5) (length data - 4)) with true by (symmetry; apply Nat.leb_le; lia).
  replace (Nat.leb (length data - 4) (length data)) with true by (symmetry; apply Nat.leb_le; lia). cbn [andb bind].
  rewrite Ht. cbn [N.eqb negb].
  fold (sect_body data).
  assert (Hbody : bytes_ok (sect_body data)) by (apply Forall_firstn, Forall_skipn, Hb).
  rewrite (c16_pat _ Hbody). cbn [bind]. fold progs.
  pose proof (s_pat_pids (sect_body data)) as Hp. fold progs in Hp.
  rewrite pat_entries_spec by (unfold pids_ok; eapply Forall_impl; [|exact Hp]; cbn; intros; lia). cbn [bind].
  fold seen. fold reg.
  assert (Hreg : reg_ok reg) by (apply fold_insert_ok; assumption).
  rewrite queue_removes_spec by (apply bs_difference_ok, Hreg). cbn [bind].
  rewrite s_pat_apply_is, s_apply_ctx. cbn [cx_changes cx_serial]. rewrite map_length, <- app_assoc. reflexivity.
Qed.

(* a PMT version.  What the application notes of the PmtSection / StreamInfo it is handed goes into the request:
   the PCR PID only (deep = false), or every accessor of both (deep = true) *)
Variable deep : bool.
Definition pmt_obs (body : list N) (s : stream_info) : list N :=
  if deep then match obs_pmt_section body, obs_stream s with Ok a, Ok b => a ++ b | _, _ => [] end
  else [s_pcr_pid body].
Definition pmt_ent (P : N) (body : list N) (s : stream_info) : N * request :=
  (s_elementary_pid (si_data s), RqByStream P (s_stream_type (si_data s)) (s_elementary_pid (si_data s)) (pmt_obs body s)).

Lemma pmt_entries_spec P body ss : forall cx seen reg, bytes_ok body -> s_pmt_accept body = ROk body ->
  Forall stream_fit ss ->
  pmt_entries policy deep P body cx seen reg ss =
  Ok (fst (s_apply policy cx (map (pmt_ent P body) ss)),
      fold_left (fun s d => bs_insert (s_elementary_pid (si_data d)) s) ss seen,
      fold_left (fun s d => bs_insert (s_elementary_pid (si_data d)) s) ss reg,
      snd (s_apply policy cx (map (pmt_ent P body) ss))).
Proof.
  induction ss as [|s r IH]; intros cx seen reg Hb Hacc Hss; [reflexivity|].
  assert (Hl : (4 <= length body)%nat) by (unfold s_pmt_accept in Hacc; destruct (Nat.ltb_spec (length body) 4); [discriminate|lia]).
  inversion Hss as [|? ? (Hsb & Hsl & Hfit) Hss']; subst. cbn [pmt_entries map s_apply fold_left pmt_ent].
  assert (Eo : (if deep then do a <- obs_pmt_section body; do b <- obs_stream s; Ok (a ++ b)
                else do pcr <- pmt_pcr_pid body; Ok [pcr]) = Ok (pmt_obs body s)).
  { unfold pmt_obs. destruct deep.
    - destruct (obs_pmt_section_total body Hb Hacc) as [a Ea]. rewrite Ea. cbn [bind].
      destruct (obs_stream_total s Hsb Hsl Hfit) as [b Eb]. rewrite Eb. reflexivity.
    - destruct (c16_pcr_pid body Hb Hl) as (E3 & _). rewrite E3. reflexivity. }
  rewrite Eo. clear Eo. generalize (pmt_obs body s). intros oo.
  destruct s as [o d]. cbn [si_data] in *.
  destruct (c16_stream_fields o d Hsb Hsl) as (E1 & E2 & Hle). rewrite E1, E2. cbn [bind].
  destruct (construct policy cx (RqByStream P (s_stream_type d) (s_elementary_pid d) oo)) as [[cx1 hh] ev] eqn:Ec.
  unfold bs_insert_checked, assert, BITSET_CAPACITY. replace (s_elementary_pid d <? 8192) with true by lia. cbn [bind].
  rewrite IH by assumption. cbn [bind].
  destruct (s_apply policy (queue cx1 (ChInsert (s_elementary_pid d) hh)) (map (pmt_ent P body) r)) as [cx3 ev3]. reflexivity.
Qed.

Definition pmt_streams_of (body : list N) : list stream_info :=
  s_streams (S (length body - (4 + s_program_info_length body))) (4 + s_program_info_length body)
            (skipn (4 + s_program_info_length body) body).

Lemma pmt_section_spec ps cx h tsh data origin : bytes_ok data -> (12 <= length data)%nat -> ch_table_id h = 2 ->
  reg_ok (pmt_registered ps) -> s_pmt_accept (sect_body data) = ROk (sect_body data) ->
  let body := sect_body data in
  let ss := pmt_streams_of body in
  let ents := map (pmt_ent (pmt_pid ps) body) ss in
  let seen := fold_left (fun s d => bs_insert (s_elementary_pid (si_data d)) s) ss [] in
  let reg := fold_left (fun s d => bs_insert (s_elementary_pid (si_data d)) s) ss (pmt_registered ps) in
  pmt_section policy deep ps cx h tsh data origin =
  Ok ({| pmt_pid := pmt_pid ps; pmt_program_number := pmt_program_number ps; pmt_registered := seen |},
      {| cx_changes := cx_changes cx ++ ins_list policy (cx_serial cx) ents ++ map ChRemove (bs_difference reg seen);
         cx_serial := cx_serial cx + N.of_nat (length ss) |},
      snd (s_apply policy cx ents)).
Proof.
  intros Hb Hl Ht Hr0 Eacc body ss ents seen reg. unfold pmt_section, usub.
  replace (Nat.leb 4 (length data)) with true by (symmetry; apply Nat.leb_le; lia). cbn [bind].
  unfold slice, SCH_SIZE, TSH_SIZE.
  replace (Nat.leb (3 + 5) (length data - 4)) with true by (symmetry; apply Nat.leb_le; lia).
  replace (Nat.leb (length data - 4) (length data)) with true by (symmetry; apply Nat.leb_le; lia). cbn [andb bind].
  fold (sect_body data). fold body.
  assert (Hbody : bytes_ok body) by (apply Forall_firstn, Forall_skipn, Hb).
  rewrite (c16_pmt_accept body Hbody). cbn [bind]. fold body in Eacc. rewrite Eacc.
  rewrite Ht. cbn [N.eqb negb].
  rewrite (c16_pmt_streams body Hbody Eacc). cbn [bind]. fold (pmt_streams_of body). fold ss.
  assert (H4 : (4 <= length body)%nat).
  { unfold s_pmt_accept in Eacc. destruct (Nat.ltb_spec (length body) 4); [discriminate|lia]. }
  assert (Hss : Forall stream_fit ss) by (apply s_streams_fit, Forall_skipn, Hbody).
  rewrite (pmt_entries_spec (pmt_pid ps) body ss cx [] (pmt_registered ps) Hbody Eacc Hss). cbn [bind].
  fold ents. fold seen. fold reg.
  assert (Hpids : Forall (fun d => s_elementary_pid (si_data d) <= 8191) ss).
  { eapply Forall_impl; [|exact Hss]. intros [o d] (Hsb & Hsl & _). cbn [si_data] in *. apply (c16_stream_fields o d Hsb Hsl). }
  assert (Hreg : reg_ok reg).
  { unfold reg. clear - Hpids Hr0. revert Hr0. generalize (pmt_registered ps). induction ss as [|d r IH]; intros s0 H0; [exact H0|].
    inversion Hpids; subst. cbn [fold_left]. apply IH; [assumption|]. apply bs_insert_ok; assumption. }
  rewrite queue_removes_spec by (apply bs_difference_ok, Hreg). cbn [bind].
  rewrite s_apply_ctx. cbn [cx_changes cx_serial]. unfold ents. rewrite map_length, <- app_assoc. reflexivity.
Qed.
End Tables.

(* ---- which handler a PID has after the queued changes of one table version were applied ---- *)
Section After.
Variable policy : request -> hkind.

Lemma routing_after (ents : list (N * request)) (old seen reg : list N) (s0 : N) (before : N -> option handler) (p : N) :
  (forall q, bs_mem q seen = existsb (fun e => q =? fst e) ents) ->
  (forall q, bs_mem q reg = existsb (fun e => q =? fst e) ents || bs_mem q old) ->
  let after := match last_change (ins_list policy s0 ents ++ map ChRemove (bs_difference reg seen)) p with
               | Some x => x | None => before p end in
  (* a PID the version lists: the handler built from the request of the LAST entry listing it *)
  (existsb (fun e => p =? fst e) ents = true ->
     exists k rq, nth_error ents k = Some (p, rq) /\ after = Some (mk_handler (policy rq) (s0 + N.of_nat k))) /\
  (* a PID the previous version of this table had installed and this one drops: no handler *)
  (existsb (fun e => p =? fst e) ents = false -> bs_mem p old = true -> after = None) /\
  (* any other PID: untouched *)
  (existsb (fun e => p =? fst e) ents = false -> bs_mem p old = false -> after = before p).
Proof.
  intros Hseen Hreg after. unfold after. rewrite last_change_app, last_change_removes, bs_mem_difference, Hseen, Hreg.
  pose proof (last_change_ins policy ents s0 p) as Hi.
  destruct (existsb (fun e => p =? fst e) ents) eqn:El; cbn [orb negb andb].
  - split; [|split; intros; discriminate]. intros _. rewrite ?andb_false_r.
    destruct (last_change (ins_list policy s0 ents) p) as [[h|]|]; [|contradiction|discriminate].
    destruct Hi as (k & rq & Hn & Hh). exists k, rq. split; [exact Hn|]. rewrite Hh. reflexivity.
  - split; [intros; discriminate|]. rewrite ?andb_true_r.
    split; intros _ Ho; rewrite Ho.
    + reflexivity.
    + destruct (last_change (ins_list policy s0 ents) p) as [[h|]|]; [|contradiction|reflexivity].
      destruct Hi as (k & rq & Hn & _). exfalso.
      assert (Hex : existsb (fun e => p =? fst e) ents = true).
      { apply existsb_exists. exists (p, rq). split; [eapply nth_error_In; eassumption|cbn; apply N.eqb_refl]. }
      congruence.
Qed.
End After.

(* ---- one transport packet carrying one whole intact section, through the table chain ---- *)
Section OnePacket.
Variable fz : bool.
Variables IS CX EV : Type.
Variable inner : IS -> CX -> common_header -> list N -> list N -> option nat -> res (IS * CX * list EV).
Notation cfg := (table_cfg fz).

Lemma t_consume_start0 (c : chain IS) cx pk poff next :
  pkt_payload pk = Ok (Some (poff, 0 :: next)) -> pkt_payload_unit_start_indicator pk = Ok true -> (3 <= length next)%nat ->
  spc_consume cfg IS CX EV inner c cx pk =
  (do r2 <- sp_start cfg IS CX EV inner c cx (hdr_of next) next (poff + 1 + 0); Ok (fst r2, snd r2)).
Proof.
  intros Hpl Hpusi Hn. unfold spc_consume. rewrite Hpl. cbn [bind]. rewrite Hpusi. cbn [bind idx nth_error].
  unfold slice_from at 1. cbn [length Nat.leb bind skipn N.to_nat]. change (Nat.ltb 0 0) with false. cbn [bind].
  unfold slice_from. cbn [Nat.leb bind skipn].
  replace (Nat.ltb (length next) SCH_SIZE) with false by (symmetry; apply Nat.ltb_ge; unfold SCH_SIZE; lia).
  unfold slice_to, SCH_SIZE. replace (Nat.leb 3 (length next)) with true by (symmetry; apply Nat.leb_le; lia). cbn [bind].
  rewrite sch_new_firstn by assumption. cbn [bind].
  destruct (sp_start cfg IS CX EV inner c cx (hdr_of next) next (poff + 1 + 0)) as [[[c2 cx2] e2]|]; reflexivity.
Qed.

Lemma table_packet_applied (c : chain IS) cx pk poff S rest v : fz = false ->
  pkt_payload pk = Ok (Some (poff, 0 :: S ++ rest)) -> pkt_payload_unit_start_indicator pk = Ok true ->
  ch_ssi (hdr_of S) = true -> (length S = ch_section_length (hdr_of S) + 3)%nat -> (12 <= length S)%nat ->
  (ch_section_length (hdr_of S) <= 1021)%nat -> m_sum32 S = 0 ->
  tsh_version (skipn 3 (S ++ rest)) = Ok v -> dd_last_version c <> Some v ->
  spc_consume cfg IS CX EV inner c cx pk =
  (do r <- inner (in_state c) cx (hdr_of S) (skipn 3 (S ++ rest)) S (Some (poff + 1 + 0)%nat);
   Ok (set_inner IS (set_buf IS (set_dedup IS (set_sp_ignore IS c false) (Some v) false) (bf_buf c) Complete) (fst (fst r)),
       snd (fst r), snd r)).
Proof.
  intros Hfz Hpl Hpusi Hssi Hlen H12 Hlim Hcrc Hv Hne.
  rewrite (t_consume_start0 c cx pk poff (S ++ rest) Hpl Hpusi) by (rewrite app_length; lia).
  rewrite hdr_of_app by lia.
  rewrite (c11_single_applied fz IS CX EV inner c cx S (S ++ rest) (poff + 1 + 0) v Hfz); try assumption.
  - destruct (inner (in_state c) cx (hdr_of S) (skipn 3 (S ++ rest)) S (Some (poff + 1 + 0)%nat)) as [[[i2 cx2] e2]|]; reflexivity.
  - repeat split; [assumption|rewrite app_length; lia|assumption].
  - rewrite app_length. lia.
  - apply firstn_app_exact.
Qed.
End OnePacket.

(* ---- end to end: one packet on a PMT / PAT PID carrying an intact new version, and the handler table after it ---- *)
Section EndToEnd.
Variable policy : request -> hkind.
Variable scripts : N -> nat -> list action.
Variable deep : bool.
Notation spec_packet' := (spec_packet policy scripts false deep).

Definition unflagged (pk : pkt) : Prop :=
  pkt_transport_error_indicator pk = Ok false /\
  exists tsc, pkt_transport_scrambling_control pk = Ok tsc /\ tsc_is_scrambled tsc = false.

(* S: a whole section-syntax section with a correct CRC, table_id tid, version v; rest: what follows it in the packet *)
Definition intact_section (S rest : list N) (tid v : N) : Prop :=
  bytes_ok S /\ ch_ssi (hdr_of S) = true /\ ch_table_id (hdr_of S) = tid /\
  (length S = ch_section_length (hdr_of S) + 3)%nat /\ (12 <= length S)%nat /\
  (ch_section_length (hdr_of S) <= 1021)%nat /\ m_sum32 S = 0 /\ tsh_version (skipn 3 (S ++ rest)) = Ok v.

Lemma pmt_packet_changes fs cx i pk P s c poff S rest v :
  wf fs -> cx_changes cx = [] -> pkt_pid pk = Ok P -> filters_get fs P = Some (HPmt s c) -> unflagged pk ->
  pkt_payload pk = Ok (Some (poff, 0 :: S ++ rest)) -> pkt_payload_unit_start_indicator pk = Ok true ->
  intact_section S rest 2 v -> dd_last_version c <> Some v ->
  reg_ok (pmt_registered (in_state c)) -> s_pmt_accept (sect_body S) = ROk (sect_body S) ->
  let ps := in_state c in
  let body := sect_body S in
  let ss := pmt_streams_of body in
  let ents := map (pmt_ent deep (pmt_pid ps) body) ss in
  let seen := fold_left (fun s d => bs_insert (s_elementary_pid (si_data d)) s) ss [] in
  let reg := fold_left (fun s d => bs_insert (s_elementary_pid (si_data d)) s) ss (pmt_registered ps) in
  exists fs' c',
    spec_packet' fs cx (i, pk) =
      Ok (fs', {| cx_changes := []; cx_serial := cx_serial cx + N.of_nat (length ss) |},
          EvPacket s i [] :: snd (s_apply policy cx ents)) /\
    wf fs' /\ dd_last_version c' = Some v /\
    in_state c' = {| pmt_pid := pmt_pid ps; pmt_program_number := pmt_program_number ps; pmt_registered := seen |} /\
    forall p, filters_get fs' p =
      match last_change (ins_list policy (cx_serial cx) ents ++ map ChRemove (bs_difference reg seen)) p with
      | Some x => x
      | None => filters_get (set_slot fs P (Some (HPmt s c'))) p
      end.
Proof.
  intros Hw Hc Hp Hg (Ht & tsc & Hs & Hsc) Hpl Hpusi (HbS & Hssi & Htid & Hlen & H12 & Hlim & Hcrc & Hv) Hne Hr0 Eacc ps body ss ents seen reg.
  cbn [spec_packet]. rewrite Hp. cbn [bind].
  replace (filters_contains fs P) with true by (symmetry; apply contains_get; eauto). cbn [bind]. rewrite Hg, Ht. cbn [bind].
  rewrite Hs. cbn [bind]. rewrite Hsc. cbn [handler_consume].
  rewrite (table_packet_applied false pmt_state ctx event (pmt_section policy deep) c cx pk poff S rest v eq_refl Hpl Hpusi Hssi Hlen H12 Hlim Hcrc Hv Hne).
  rewrite (pmt_section_spec policy deep (in_state c) cx (hdr_of S) (skipn 3 (S ++ rest)) S (Some (poff + 1 + 0)%nat) HbS H12 Htid Hr0 Eacc).
  cbn [bind fst snd]. fold ps body ss ents seen reg.
  set (c' := set_inner pmt_state (set_buf pmt_state (set_dedup pmt_state (set_sp_ignore pmt_state c false) (Some v) false) (bf_buf c) Complete)
               {| pmt_pid := pmt_pid ps; pmt_program_number := pmt_program_number ps; pmt_registered := seen |}).
  cbn [cx_changes]. rewrite Hc. cbn [app].
  assert (Hw2 : wf (set_slot fs P (Some (HPmt s c')))) by (apply wf_set_slot; [assumption|eapply get_some_lt; eassumption]).
  destruct (apply_changes_spec (ins_list policy (cx_serial cx) ents ++ map ChRemove (bs_difference reg seen)) _ Hw2) as (fs3 & E3 & Hw3 & G3).
  rewrite E3. cbn [bind]. exists fs3, c'. split; [reflexivity|]. split; [exact Hw3|]. split; [reflexivity|]. split; [reflexivity|exact G3].
Qed.

Lemma existsb_map {A B} (f : A -> B) (g : B -> bool) l : existsb g (map f l) = existsb (fun x => g (f x)) l.
Proof. induction l as [|x r IH]; [reflexivity|]. cbn [map existsb]. rewrite IH. reflexivity. Qed.

(* C05 for one PMT version, as the property words it *)
Lemma pmt_version_routes fs cx i pk P s c poff S rest v :
  wf fs -> cx_changes cx = [] -> pkt_pid pk = Ok P -> filters_get fs P = Some (HPmt s c) -> unflagged pk ->
  pkt_payload pk = Ok (Some (poff, 0 :: S ++ rest)) -> pkt_payload_unit_start_indicator pk = Ok true ->
  intact_section S rest 2 v -> dd_last_version c <> Some v ->
  reg_ok (pmt_registered (in_state c)) -> s_pmt_accept (sect_body S) = ROk (sect_body S) ->
  let ps := in_state c in
  let body := sect_body S in
  let ss := pmt_streams_of body in
  exists fs' c' ev,
    spec_packet' fs cx (i, pk) = Ok (fs', {| cx_changes := []; cx_serial := cx_serial cx + N.of_nat (length ss) |}, ev) /\
    wf fs' /\ dd_last_version c' = Some v /\
    forall p,
      let lst := existsb (fun d => p =? s_elementary_pid (si_data d)) ss in
      (* a PID the new version lists: the handler built from the request naming it, its stream type and the program map *)
      (lst = true -> exists k st, nth_error ss k = Some st /\ s_elementary_pid (si_data st) = p /\
         filters_get fs' p = Some (mk_handler (policy (RqByStream (pmt_pid ps) (s_stream_type (si_data st)) p (pmt_obs deep body st)))
                                              (cx_serial cx + N.of_nat k))) /\
      (* a PID the previous version of this map installed and the new one drops: no handler any more *)
      (lst = false -> bs_mem p (pmt_registered ps) = true -> filters_get fs' p = None) /\
      (* every other PID: as before (the map's own entry holds the updated map handler) *)
      (lst = false -> bs_mem p (pmt_registered ps) = false -> filters_get fs' p = filters_get (set_slot fs P (Some (HPmt s c'))) p).
Proof.
  intros Hw Hc Hp Hg Hu Hpl Hpusi Hi Hne Hr0 Eacc ps body ss.
  destruct (pmt_packet_changes fs cx i pk P s c poff S rest v Hw Hc Hp Hg Hu Hpl Hpusi Hi Hne Hr0 Eacc) as (fs' & c' & E & Hw' & Hv' & _ & G).
  exists fs', c', (EvPacket s i [] :: snd (s_apply policy cx (map (pmt_ent deep (pmt_pid ps) body) ss))).
  split; [exact E|]. split; [exact Hw'|]. split; [exact Hv'|]. intros p lst.
  set (ents := map (pmt_ent deep (pmt_pid ps) body) ss).
  set (seen := fold_left (fun s d => bs_insert (s_elementary_pid (si_data d)) s) ss []).
  set (reg := fold_left (fun s d => bs_insert (s_elementary_pid (si_data d)) s) ss (pmt_registered ps)).
  assert (Hex : forall q, existsb (fun e => q =? fst e) ents = existsb (fun d => q =? s_elementary_pid (si_data d)) ss).
  { intros q. unfold ents. rewrite existsb_map. reflexivity. }
  assert (Hseen : forall q, bs_mem q seen = existsb (fun e => q =? fst e) ents).
  { intros q. unfold seen. rewrite bs_mem_fold, Hex. cbn [bs_mem existsb]. apply orb_false_r. }
  assert (Hreg : forall q, bs_mem q reg = existsb (fun e => q =? fst e) ents || bs_mem q (pmt_registered ps)).
  { intros q. unfold reg. rewrite bs_mem_fold, Hex. reflexivity. }
  destruct (routing_after policy ents (pmt_registered ps) seen reg (cx_serial cx)
              (filters_get (set_slot fs P (Some (HPmt s c')))) p Hseen Hreg) as (R1 & R2 & R3).
  fold ps body ss ents seen reg in G. rewrite <- (G p) in R1, R2, R3. rewrite Hex in R1, R2, R3. fold lst in R1, R2, R3.
  split; [|split; assumption].
  intros Hl. destruct (R1 Hl) as (k & rq & Hn & Hf). unfold ents in Hn. rewrite nth_error_map in Hn.
  destruct (nth_error ss k) as [st|] eqn:Ek; [|discriminate]. cbn [option_map] in Hn. unfold pmt_ent in Hn. injection Hn as Hpid Hrq.
  exists k, st. split; [exact Ek|]. split; [exact Hpid|]. rewrite Hf, <- Hrq, Hpid. reflexivity.
Qed.

(* C05 for one PAT version *)
Lemma pat_version_routes fs cx i pk P s c poff S rest v :
  wf fs -> cx_changes cx = [] -> pkt_pid pk = Ok P -> filters_get fs P = Some (HPat s c) -> unflagged pk ->
  pkt_payload pk = Ok (Some (poff, 0 :: S ++ rest)) -> pkt_payload_unit_start_indicator pk = Ok true ->
  intact_section S rest 0 v -> dd_last_version c <> Some v ->
  reg_ok (pat_registered (in_state c)) ->
  let ps := in_state c in
  let progs := s_pat (sect_body S) in
  exists fs' c' ev,
    spec_packet' fs cx (i, pk) = Ok (fs', {| cx_changes := []; cx_serial := cx_serial cx + N.of_nat (length progs) |}, ev) /\
    wf fs' /\ dd_last_version c' = Some v /\
    forall p,
      let lst := existsb (fun d => p =? pd_pid d) progs in
      (* a PID the new version lists: requested as a program-map PID with the announced program number, or as the NIT PID *)
      (lst = true -> exists k d, nth_error progs k = Some d /\ pd_pid d = p /\
         filters_get fs' p = Some (mk_handler (policy (req_of_pd d)) (cx_serial cx + N.of_nat k))) /\
      (lst = false -> bs_mem p (pat_registered ps) = true -> filters_get fs' p = None) /\
      (lst = false -> bs_mem p (pat_registered ps) = false -> filters_get fs' p = filters_get (set_slot fs P (Some (HPat s c'))) p).
Proof.
  intros Hw Hc Hp Hg (Ht & tsc & Hs & Hsc) Hpl Hpusi (HbS & Hssi & Htid & Hlen & H12 & Hlim & Hcrc & Hv) Hne Hr0 ps progs.
  set (ents := map pat_ent progs).
  set (seen := fold_left (fun s d => bs_insert (pd_pid d) s) progs []).
  set (reg := fold_left (fun s d => bs_insert (pd_pid d) s) progs (pat_registered ps)).
  set (c' := set_inner pat_state (set_buf pat_state (set_dedup pat_state (set_sp_ignore pat_state c false) (Some v) false) (bf_buf c) Complete)
               {| pat_registered := seen |}).
  assert (Hw2 : wf (set_slot fs P (Some (HPat s c')))) by (apply wf_set_slot; [assumption|eapply get_some_lt; eassumption]).
  destruct (apply_changes_spec (ins_list policy (cx_serial cx) ents ++ map ChRemove (bs_difference reg seen)) _ Hw2) as (fs3 & E3 & Hw3 & G3).
  exists fs3, c', (EvPacket s i [] :: snd (s_apply policy cx ents)).
  split.
  { cbn [spec_packet]. rewrite Hp. cbn [bind].
    replace (filters_contains fs P) with true by (symmetry; apply contains_get; eauto). cbn [bind]. rewrite Hg, Ht. cbn [bind].
    rewrite Hs. cbn [bind]. rewrite Hsc. cbn [handler_consume].
    rewrite (table_packet_applied false pat_state ctx event (pat_section policy) c cx pk poff S rest v eq_refl Hpl Hpusi Hssi Hlen H12 Hlim Hcrc Hv Hne).
    rewrite (pat_section_spec policy (in_state c) cx (hdr_of S) (skipn 3 (S ++ rest)) S (Some (poff + 1 + 0)%nat) HbS H12 Htid Hr0).
    cbn [bind fst snd]. fold ps progs ents seen reg. fold c'. cbn [cx_changes]. rewrite Hc. cbn [app]. rewrite E3. reflexivity. }
  split; [exact Hw3|]. split; [reflexivity|]. intros p lst.
  assert (Hex : forall q, existsb (fun e => q =? fst e) ents = existsb (fun d => q =? pd_pid d) progs).
  { intros q. unfold ents. rewrite existsb_map. reflexivity. }
  assert (Hseen : forall q, bs_mem q seen = existsb (fun e => q =? fst e) ents).
  { intros q. unfold seen. rewrite bs_mem_fold, Hex. cbn [bs_mem existsb]. apply orb_false_r. }
  assert (Hreg : forall q, bs_mem q reg = existsb (fun e => q =? fst e) ents || bs_mem q (pat_registered ps)).
  { intros q. unfold reg. rewrite bs_mem_fold, Hex. reflexivity. }
  destruct (routing_after policy ents (pat_registered ps) seen reg (cx_serial cx)
              (filters_get (set_slot fs P (Some (HPat s c')))) p Hseen Hreg) as (R1 & R2 & R3).
  rewrite <- (G3 p) in R1, R2, R3. rewrite Hex in R1, R2, R3. fold lst in R1, R2, R3.
  split; [|split; assumption].
  intros Hl. destruct (R1 Hl) as (k & rq & Hn & Hf). unfold ents in Hn. rewrite nth_error_map in Hn.
  destruct (nth_error progs k) as [d|] eqn:Ek; [|discriminate]. cbn [option_map] in Hn. unfold pat_ent in Hn. injection Hn as Hpid Hrq.
  exists k, d. split; [exact Ek|]. split; [exact Hpid|]. rewrite Hf, <- Hrq. reflexivity.
Qed.

(* C10 end to end: a packet on a table PID that starts a repetition (same version as remembered) — or continues one —
   reaches no table processor, queues nothing, requests nothing: the table is as before except that the PID's own entry
   holds the chain that now skips the rest of that section; every other handler (elementary-stream consumers with whatever
   PES packet they are in the middle of) is untouched *)
Lemma repetition_start_packet fs cx i pk P s (c : chain pmt_state) poff next v :
  cx_changes cx = [] -> pkt_pid pk = Ok P -> filters_get fs P = Some (HPmt s c) -> unflagged pk ->
  pkt_payload pk = Ok (Some (poff, 0 :: next)) -> pkt_payload_unit_start_indicator pk = Ok true ->
  accepted_start (hdr_of next) next -> tsh_version (skipn 3 next) = Ok v -> dd_last_version c = Some v ->
  spec_packet' fs cx (i, pk) = Ok (set_slot fs P (Some (HPmt s (skipped pmt_state c v))), cx, [EvPacket s i []]).
Proof.
  intros Hc Hp Hg (Ht & tsc & Hs & Hsc) Hpl Hpusi Ha Hv Hl.
  cbn [spec_packet]. rewrite Hp. cbn [bind].
  replace (filters_contains fs P) with true by (symmetry; apply contains_get; eauto). cbn [bind]. rewrite Hg, Ht. cbn [bind].
  rewrite Hs. cbn [bind]. rewrite Hsc. cbn [handler_consume].
  assert (H3 : (3 <= length next)%nat) by (destruct Ha as (_ & H8 & _); lia).
  rewrite (t_consume_start0 false pmt_state ctx event (pmt_section policy deep) c cx pk poff next Hpl Hpusi H3).
  rewrite (c10_skip_start false pmt_state ctx event (pmt_section policy deep) c cx (hdr_of next) next (poff + 1 + 0) v Ha Hl Hv).
  cbn [bind fst snd]. rewrite Hc. cbn [apply_changes bind]. rewrite clear_changes_id by assumption. reflexivity.
Qed.

Lemma repetition_continuation_packet fs cx i pk P s (c : chain pmt_state) poff payload :
  cx_changes cx = [] -> pkt_pid pk = Ok P -> filters_get fs P = Some (HPmt s c) -> unflagged pk ->
  pkt_payload pk = Ok (Some (poff, payload)) -> pkt_payload_unit_start_indicator pk = Ok false ->
  sp_ignore_rest c = false -> dd_ignore_rest c = true ->
  spec_packet' fs cx (i, pk) = Ok (set_slot fs P (Some (HPmt s c)), cx, [EvPacket s i []]).
Proof.
  intros Hc Hp Hg (Ht & tsc & Hs & Hsc) Hpl Hpusi Hi Hd.
  cbn [spec_packet]. rewrite Hp. cbn [bind].
  replace (filters_contains fs P) with true by (symmetry; apply contains_get; eauto). cbn [bind]. rewrite Hg, Ht. cbn [bind].
  rewrite Hs. cbn [bind]. rewrite Hsc. cbn [handler_consume].
  unfold spc_consume. rewrite Hpl. cbn [bind]. rewrite Hpusi. cbn [bind].
  rewrite (c10_skip_continue false pmt_state ctx event (pmt_section policy deep) c cx payload Hi Hd).
  cbn [bind fst snd]. rewrite Hc. cbn [apply_changes bind]. rewrite clear_changes_id by assumption. reflexivity.
Qed.
End EndToEnd.
