(* Spec/TablesSpec.v — ISO/IEC 13818-1 2.4.4: program association section body (Table 2-30), program
   map section body (Table 2-33), section headers (Tables 2-30/2-33 first 8 bytes), as uimsbf fields. *)
From TS Require Import Base.Res Base.Bits Model.Tables.
Open Scope N_scope.

(* ---- PAT body: program_number 16 | reserved 3 | PID 13, repeated ---- *)
Fixpoint groups4 (b : list N) : list (list N) :=
  match b with
  | x :: y :: z :: w :: rest => [x; y; z; w] :: groups4 rest
  | _ => []
  end.
Definition s_pat_entry (g : list N) : program_descriptor :=
  let pn := field g 0 16 in let pid := field g 19 13 in
  if pn =? 0 then PdNetwork pid else PdProgram pn pid.
Definition s_pat (body : list N) : list program_descriptor := map s_pat_entry (groups4 body).

(* ---- PMT body: reserved 3 | PCR_PID 13 | reserved 4 | program_info_length 12 | descriptors | streams ---- *)
Definition s_pcr_pid (b : list N) : N := field b 3 13.
Definition s_program_info_length (b : list N) : nat := N.to_nat (field b 20 12).
Definition s_pmt_accept (b : list N) : rresult (list N) demux_err :=
  if Nat.ltb (length b) 4 then RErr (DemuxNotEnoughData 0 4 (length b))
  else if Nat.ltb (length b) (s_program_info_length b + 4) then RErr (DemuxNotEnoughData 1 (s_program_info_length b + 4) (length b))
  else ROk b.

(* stream entries: stream_type 8 | reserved 3 | elementary_PID 13 | reserved 4 | ES_info_length 12 | descriptors;
   iteration stops at the first entry that does not fit *)
Definition s_es_info_length (e : list N) : nat := N.to_nat (field e 28 12).
Fixpoint s_streams (fuel : nat) (off : nat) (b : list N) : list stream_info :=
  match fuel with
  | O => []
  | S f =>
      if Nat.ltb (length b) 5 then []
      else if Nat.ltb (length b) (5 + s_es_info_length b) then []
      else {| si_off := off; si_data := b |} :: s_streams f (off + (5 + s_es_info_length b)) (skipn (5 + s_es_info_length b) b)
  end.
Definition s_stream_type (e : list N) : N := field e 0 8.
Definition s_elementary_pid (e : list N) : N := field e 11 13.

(* ---- section headers ---- *)
(* table_id 8 | section_syntax_indicator 1 | private_indicator 1 | reserved 2 | section_length 12 *)
Definition s_table_id (h : list N) := field h 0 8.
Definition s_ssi (h : list N) := bitf h 8.
Definition s_private (h : list N) := bitf h 9.
Definition s_section_length (h : list N) := field h 12 12.
(* (after the common header) id 16 | reserved 2 | version_number 5 | current_next_indicator 1 | section_number 8 | last_section_number 8 *)
Definition s_tsh_id (t : list N) := field t 0 16.
Definition s_tsh_version (t : list N) := field t 18 5.
Definition s_tsh_current_next (t : list N) := field t 23 1.
Definition s_tsh_section_number (t : list N) := field t 24 8.
Definition s_tsh_last_section_number (t : list N) := field t 32 8.
